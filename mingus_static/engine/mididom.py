"""Abstract byte-stream domain for the MIDI writer.

track_data becomes a sequence of Emitted(delta, payload) records; delta times are either concrete
variable-length bytes or VarByte(linear form of symbolic tick counts); payload bytes may contain symbolic
items (pitch, velocity).  Nothing is executed: the writer's methods are evaluated by engine/absint.py.
"""
from __future__ import annotations

import ast
import binascii
import struct

from .absval import Lin, Sym, Opaque, AObj, INF
from .absint import CannotDecide, RaiseEx
from .numdom import RatFun


class VarByte:
    """Variable-length quantity of a symbolic integer."""

    def __init__(self, value):
        self.value = Lin.of(value)

    def __repr__(self):
        return "VarByte(%s)" % self.value


class ABytes:
    """bytes with symbolic items."""

    def __init__(self, items):
        self.items = list(items)

    def __repr__(self):
        return "ABytes(%s)" % (self.items,)


class Delta:
    """Value of MidiTrack.delta_time, tracking how often it is emitted."""

    def __init__(self, value, origin=None):
        self.value = value
        self.origin = origin
        self.uses = 0

    def ticks(self):
        v = self.value
        if isinstance(v, VarByte):
            return v.value
        if isinstance(v, (bytes, bytearray)):
            try:
                return Lin.of(decode_vlq(bytes(v)))
            except ValueError:
                return None
        if isinstance(v, int) and not isinstance(v, bool):
            return None  # an int stored raw: not bytes
        return None

    def known_zero(self):
        t = self.ticks()
        return t is not None and t.is_const() and t.const == 0

    def a_binop(self, interp, op, other, reflected, node):
        if op is ast.Add and not reflected and isinstance(other, (bytes, ABytes, VarByte, Chunk)):
            self.uses += 1
            return Emitted(self, Chunk.of(other))
        return NotImplemented

    def __repr__(self):
        return "Delta(%r)" % (self.value,)


class ABuf:
    """bytearray(<pending delta>) being filled with an event: bytes(buf) is the event, emitted with that delta."""

    def __init__(self, delta, items=None):
        self.delta = delta
        self.items = list(items or [])

    def _take(self, x):
        if isinstance(x, (bytes, bytearray)):
            return list(x)
        if isinstance(x, ABytes):
            return list(x.items)
        if isinstance(x, (list, tuple)):
            return list(x)
        if isinstance(x, VarByte):
            return [x]
        return None

    def a_method(self, interp, name, args, kwargs, node):
        if name == "append" and len(args) == 1:
            self.items.append(args[0])
            return None
        if name == "extend" and len(args) == 1:
            t = self._take(args[0])
            if t is None:
                raise CannotDecide("bytearray.extend(%r)" % (args[0],))
            self.items.extend(t)
            return None
        return NotImplemented

    def a_binop(self, interp, op, other, reflected, node):
        if op is ast.Add and not reflected:
            t = self._take(other)
            if t is not None:
                return ABuf(self.delta, self.items + t)
        return NotImplemented

    def emitted(self):
        self.delta.uses += 1
        if all(isinstance(x, int) and not isinstance(x, bool) for x in self.items):
            try:
                return Emitted(self.delta, Chunk.of(bytes(self.items)))
            except ValueError:
                raise RaiseEx("ValueError", None)
        return Emitted(self.delta, Chunk.of(ABytes(self.items)))

    def __repr__(self):
        return "ABuf(%r, %r)" % (self.delta, self.items)


class Chunk:
    """Concatenation of bytes-like parts."""

    def __init__(self, parts):
        self.parts = []
        for p in parts:
            if isinstance(p, Chunk):
                self.parts.extend(p.parts)
            else:
                self.parts.append(p)

    @staticmethod
    def of(x):
        return x if isinstance(x, Chunk) else Chunk([x])

    def items(self):
        out = []
        for p in self.parts:
            if isinstance(p, (bytes, bytearray)):
                out.extend(p)
            elif isinstance(p, ABytes):
                out.extend(p.items)
            elif isinstance(p, VarByte):
                out.append(p)
            else:
                out.append(p)
        return out

    def a_binop(self, interp, op, other, reflected, node):
        if op is ast.Add and isinstance(other, (bytes, ABytes, VarByte, Chunk)):
            return Chunk([other, self] if reflected else [self, other])
        return NotImplemented


def _abytes_binop(self, interp, op, other, reflected, node):
    if op is ast.Add and isinstance(other, (bytes, ABytes, VarByte, Chunk)):
        return Chunk([other, self] if reflected else [self, other])
    return NotImplemented


ABytes.a_binop = _abytes_binop
VarByte.a_binop = _abytes_binop


class Emitted:
    def __init__(self, delta, payload):
        self.delta = delta
        self.payload = payload

    def a_binop(self, interp, op, other, reflected, node):
        if op is ast.Add:
            if isinstance(other, (bytes, ABytes, VarByte, Chunk)) and not reflected:
                # event + more payload bytes
                return Emitted(self.delta, Chunk([self.payload, other]))
            if isinstance(other, (bytes, bytearray)) and reflected:
                return EvSeq(([bytes(other)] if other else []) + [self])
            if isinstance(other, EvSeq):
                return EvSeq(other.items + [self]) if reflected else EvSeq([self] + other.items)
            if isinstance(other, Emitted):
                return EvSeq([other, self] if reflected else [self, other])
        return NotImplemented

    def __repr__(self):
        return "Emitted(%r, %r)" % (self.delta, self.payload.items())


class EvSeq:
    def __init__(self, items):
        self.items = list(items)

    def a_binop(self, interp, op, other, reflected, node):
        if op is ast.Add:
            o = [other] if isinstance(other, (Emitted, bytes)) else (other.items if isinstance(other, EvSeq) else None)
            if o is None:
                return NotImplemented
            if isinstance(other, bytes) and not other:
                o = []
            return EvSeq(o + self.items) if reflected else EvSeq(self.items + o)
        return NotImplemented

    def a_compare(self, interp, op, other, reflected, node):
        if op in (ast.Eq, ast.NotEq) and isinstance(other, (bytes, str)):
            eq = isinstance(other, bytes) and not other and not self.items
            return eq if op is ast.Eq else not eq
        return NotImplemented

    def a_len(self, interp):
        return Opaque("len(track_data)")


def decode_vlq(b):
    v = 0
    for i, x in enumerate(b):
        v = (v << 7) | (x & 0x7F)
        if not x & 0x80:
            if i != len(b) - 1:
                raise ValueError("trailing bytes after a variable-length quantity: %r" % (b,))
            return v
    raise ValueError("unterminated variable-length quantity: %r" % (b,))


def install(interp, track_obj_pred=None):
    """Hook an interpreter: delta_time stores become Delta objects, bytes()/pack/a2b_hex/round builtins understood."""
    orig_builtin = interp.call_builtin
    ticks = interp.__dict__.setdefault("tick_syms", {})

    def cb(name, args, kwargs, node=None):
        if name == "bytearray" and len(args) == 1 and isinstance(args[0], Delta):
            return ABuf(args[0])
        if name == "bytes" and len(args) == 1 and isinstance(args[0], ABuf):
            return args[0].emitted()
        if name == "bytes" and len(args) == 1 and isinstance(args[0], list):
            if all(isinstance(x, int) and not isinstance(x, bool) for x in args[0]):
                try:
                    return bytes(args[0])
                except ValueError:
                    raise RaiseEx("ValueError", node)
            return ABytes(args[0])
        if name in ("a2b_hex", "ext:binascii.a2b_hex") and args and isinstance(args[0], str):
            try:
                return binascii.a2b_hex(args[0])
            except (binascii.Error, ValueError):
                raise RaiseEx("binascii.Error", node)
        if name == "pack" and args and isinstance(args[0], str) and all(isinstance(a, int) for a in args[1:]):
            try:
                return struct.pack(args[0], *args[1:])
            except struct.error:
                raise RaiseEx("struct.error", node)
        if name == "round" and args and isinstance(args[0], RatFun):
            key = repr(args[0])
            if key not in ticks:
                ticks[key] = (Sym("ticks(%s)" % (len(ticks)), 0, INF), args[0])
            return Lin.of(ticks[key][0])
        if name == "int" and args and isinstance(args[0], RatFun):
            # truncation, not rounding: a different tick count than round()
            key = "floor:" + repr(args[0])
            if key not in ticks:
                ticks[key] = (Sym("floor_ticks(%s)" % (len(ticks)), 0, INF), None)
            return Lin.of(ticks[key][0])
        return orig_builtin(name, args, kwargs, node)
    interp.call_builtin = cb
    interp.delta_log = []

    def on_setattr(base, attr, value, node):
        if attr == "delta_time" and isinstance(base, AObj):
            prev = base.attrs.get("delta_time")
            if isinstance(prev, Delta) and prev.uses == 0 and not prev.known_zero():
                interp.delta_log.append(("lost", prev, node))
            return Delta(value, node)
        return value
    interp.setattr_hook = on_setattr


def varbyte_summary(repo):
    """MidiTrack.int_to_varbyte: real code for concrete integers, VarByte for symbolic ones (encoder checked by R-C16-7)."""
    fi = repo.mod("mingus.midi.midi_track").cls("MidiTrack").methods["int_to_varbyte"]

    def f(it, args, kwargs, node):
        v = args[1]
        if isinstance(v, Lin):
            return VarByte(v)
        return it.call_function(fi, args, kwargs, node)
    return {"mingus.midi.midi_track.MidiTrack.int_to_varbyte": f}


class AFile:
    """A file opened for binary reading over known bytes."""

    def __init__(self, data):
        self.data = bytes(data)
        self.pos = 0

    def a_method(self, interp, name, args, kwargs, node):
        if name == "read":
            n = args[0] if args else None
            if n is None:
                out, self.pos = self.data[self.pos:], len(self.data)
                return out
            if not isinstance(n, int):
                raise CannotDecide("read(%r)" % (n,))
            out = self.data[self.pos:self.pos + n]
            self.pos += len(out)
            return out
        if name == "close":
            return None
        return NotImplemented
