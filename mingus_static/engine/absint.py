"""Abstract evaluator for the Python subset used by mingus.

It never runs the analysed code: it interprets the AST over abstract values
(engine/absval.py).  Undecidable branches fork; forks are explored by re-evaluation
with a recorded decision prefix (``explore``).  Anything outside the supported
subset raises CannotDecide, which the caller turns into an ANALYSIS-ERROR.
"""
from __future__ import annotations

import ast
import os
import time
import copy
import itertools
from fractions import Fraction as _Fraction

from .absval import (Sel, AIter, RepList, ASuper, Lin, Sym, Opaque, Ch, Run, Rep, AbsStr, AObj, AFunc, AModule, AClass, ABuiltin,
                     ABound, simplify_str, INF, UnknownStr)
from .loader import AnalysisError, norm, short, FuncInfo


class AStrIter:
    """iter(<abstract text>): what is left of the text; next() takes its first character, a for loop walks the rest."""

    def __init__(self, rest):
        self.rest = rest
        self.broken = False  # left in the middle by a break: where it stands is not known


class AMethodCaller:
    """operator.methodcaller(name, *args, **kwargs)."""

    def __init__(self, name, args, kwargs):
        self.name, self.args, self.kwargs = name, args, kwargs


class CannotDecide(AnalysisError):
    pass


class ReturnEx(Exception):
    def __init__(self, value):
        self.value = value


class RaiseEx(Exception):
    def __init__(self, exc, node=None, args=()):
        self.exc = exc
        self.node = node
        self.args_ = args


class BreakEx(Exception):
    pass


class ContinueEx(Exception):
    pass


class Chooser:
    def __init__(self, prefix=()):
        self.prefix = list(prefix)
        self.trace = []
        self.pending = []

    def choose(self, label, options=(True, False)):
        i = len(self.trace)
        if i < len(self.prefix):
            v = self.prefix[i]
        else:
            v = options[0]
            for alt in options[1:]:
                self.pending.append([t[1] for t in self.trace] + [alt])
        self.trace.append((label, v))
        return v


STEP_BUDGET = int(os.environ.get("MINGUS_STATIC_STEP_BUDGET", "3000000"))
TIME_BUDGET = int(os.environ.get("MINGUS_STATIC_TIME_BUDGET", "240"))


class Path:
    def __init__(self, trace, kind, value, interp):
        self.trace = trace  # [(label, choice)]
        self.kind = kind  # 'return' | 'raise' | 'fallthrough'
        self.value = value
        self.interp = interp

    def cond(self):
        return [(l, v) for l, v in self.trace]

    def __repr__(self):
        return "Path(%s %r | %s)" % (self.kind, self.value, self.trace)


def explore(make_interp, run, max_paths=4000):
    """run(interp) is executed once per decision prefix; returns list of Path."""
    paths = []
    stack = [[]]
    t0 = time.monotonic()
    while stack:
        if time.monotonic() - t0 > TIME_BUDGET:
            from collections import Counter
            top = Counter(lab for p_ in paths[-200:] for lab, _v in p_.trace).most_common(3)
            raise CannotDecide("the exploration did not finish within %d seconds (%d paths so far); most frequent case splits: %s" % (
                TIME_BUDGET, len(paths), "; ".join("%s (x%d)" % (short(l, 70), c) for l, c in top)))
        prefix = stack.pop()
        ch = Chooser(prefix)
        it = make_interp(ch)
        try:
            v = run(it)
            paths.append(Path(ch.trace, "return", v, it))
        except ReturnEx as r:
            paths.append(Path(ch.trace, "return", r.value, it))
        except RaiseEx as r:
            paths.append(Path(ch.trace, "raise", r.exc, it))
        stack.extend(ch.pending)
        if len(paths) > max_paths:
            from collections import Counter
            top = Counter(lab for p_ in paths[-200:] for lab, _v in p_.trace).most_common(3)
            raise CannotDecide("path explosion (> %d paths); most frequent case splits: %s" % (
                max_paths, "; ".join("%s (x%d)" % (short(l, 70), c) for l, c in top)))
    return paths


class _BoundFI:
    """A specific function bound to a receiver (super().m)."""

    def __init__(self, fi, obj):
        self.fi, self.obj = fi, obj


class _AbsKey:
    """Dictionary key that is an abstract value (hashable wrapper, equal only to itself)."""

    def __init__(self, value):
        self.value = value


class _ModuleDict:
    """module.__dict__ as a read-only mapping name -> entity."""

    def __init__(self, interp, mod):
        self.interp, self.mod = interp, mod

    def a_index(self, interp, idx, node):
        idx = simplify_str(idx)
        if isinstance(idx, AbsStr) and idx.is_concrete():
            idx = idx.concrete()
        if not isinstance(idx, str):
            raise CannotDecide("module dictionary lookup with %r" % (idx,))
        r = interp.repo.resolve_name(self.mod, idx)
        if r is None:
            raise RaiseEx("KeyError", node)
        return interp.entity_value(r)


class Frame:
    def __init__(self, fi, locals_=None, mod=None, cls=None):
        self.fi = fi
        self.mod = mod or (fi.module if fi else None)
        self.cls = cls if cls is not None else (fi.cls if fi else None)
        self.locals = locals_ if locals_ is not None else {}
        self.parent = None


_EXC_NAMES = None


class Interp:
    def __init__(self, repo, chooser=None, summaries=None, inline=True, max_depth=12, max_iter=64,
                 on_call=None, attr_hook=None):
        self.repo = repo
        self.chooser = chooser or Chooser()
        self.summaries = summaries or {}  # 'module.qualname' -> fn(interp, args, kwargs, node)
        self.inline = inline
        self.max_depth = max_depth
        self.max_iter = max_iter
        self.allow_uninterpreted = False
        self.depth = 0
        self.refine = {}  # Lin shape -> (lo, hi) for the non-constant part
        self.mods = {}
        self.divs = {}
        self.events = []  # (kind, name, args, node) for opaque / observed calls
        self.on_call = on_call
        self.attr_hook = attr_hook
        self.stores = []  # (target description, value, node) for attribute / subscript stores on abstract objects
        self.global_cache = {}
        self.instantiate = True
        self.sorted_ids = set()
        self.sort_keys = {}
        self.subst = {}  # Sym -> Lin (after unfolding a Run)
        self.excluded = {}  # Lin shape -> set of excluded values of the non-constant part
        self.unfolded = {}  # Run -> replacement atoms

    # ------------------------------------------------------------------ utils
    def fork(self, label):
        return self.chooser.choose(label)

    def opaque_fork(self, label, *vals):
        """Fork on an unknown value -- unless the value is the result of a call the interpreter could not model:
        that result is a definite function of its arguments, and exploring both answers would judge the code on
        behaviours it does not have (a false alarm on, say, a correct regular expression)."""
        for v in vals:
            u = _uninterpreted(v)
            if u is not None and not self.allow_uninterpreted:
                raise CannotDecide("the outcome of `%s` depends on %s, which the analysis does not model" % (label, u.tag))
        return self.chooser.choose(label)

    def resolve(self, lin, _d=0):
        """Apply the substitutions introduced by unfolding runs."""
        if not self.subst or not any(s_ in self.subst for s_ in lin.terms):
            return lin
        out = Lin({}, lin.const)
        for s_, c in lin.terms.items():
            if s_ in self.subst and _d < 50:
                out = out + self.resolve(self.subst[s_], _d + 1).scale(c)
            else:
                out = out + Lin({s_: c}, 0)
        return out

    def lin_interval(self, lin):
        lin = self.resolve(lin)
        lo, hi = lin.interval(self.refine)
        if self.excluded and lin.terms:
            sh, sign = lin.canon()
            ex = {sign * v + lin.const for v in self.excluded.get(sh, ())}
            while lo in ex and lo <= hi:
                lo += 1
            while hi in ex and hi >= lo:
                hi -= 1
        return (lo, hi)

    def excludes(self, lin, value):
        """True if a recorded disequality rules out lin == value on this path."""
        lin = self.resolve(Lin.of(lin))
        lo, hi = self.lin_interval(lin)
        if value < lo or value > hi:
            return True
        if not lin.terms:
            return lin.const != value
        sh, sign = lin.canon()
        return (sign * (value - lin.const)) in self.excluded.get(sh, ())

    def norm_str(self, v):
        if not self.unfolded or not isinstance(v, AbsStr):
            return v
        changed = True
        rounds = 0
        while changed:
            rounds += 1
            if rounds > 200:
                raise CannotDecide("unfolding of %r does not come to an end" % (v,))
            changed = False
            atoms = []
            for a in v.atoms:
                if (isinstance(a, Run) or _is_rep(a)) and a in self.unfolded:
                    atoms.extend(self.unfolded[a])
                    changed = True
                else:
                    atoms.append(a)
            v = AbsStr(atoms)
        return v

    def expose(self, v, k, from_end):
        """Unfold runs until the last (first) k units of v are single characters (forks)."""
        for _ in range(40):
            v = self.norm_str(v)
            u = v.units()
            probe = (u[-k:] if from_end else u[:k]) if k else []
            seq = reversed(probe) if from_end else probe
            blocker = None
            n_seen = 0
            for x in seq:
                if isinstance(x, Run) or (_is_rep(x) and isinstance(x.lit, str) and len(x.lit) >= 1):
                    blocker = x
                    break
                if _is_rep(x) or type(x).__name__ == "Blob":
                    raise CannotDecide("cannot look inside %r" % (x,))
                n_seen += 1
            if blocker is None:
                return v
            if _is_rep(blocker):
                # lit * count: either there is no repetition at all, or one copy can be split off at this end
                if self.compare_lin(ast.Gt, blocker.count, Lin.of(0)):
                    rest = Rep(blocker.lit, blocker.count - 1)
                    self.unfolded[blocker] = [rest, blocker.lit] if from_end else [blocker.lit, rest]
                else:
                    self.unfolded[blocker] = []
                continue
            opts = ["<empty>"] + [c.name for c in blocker.classes]
            choice = self.chooser.choose("%s character of run %s" % ("last" if from_end else "first", blocker.name), opts)
            if choice == "<empty>":
                for sym in blocker.count.values():
                    self._refine(Lin.of(sym), hi=0)
                self.unfolded[blocker] = []
            else:
                cls = [c for c in blocker.classes if c.name == choice][0]
                rest = Run(blocker.name + "'", blocker.classes)
                for c in blocker.classes:
                    self.subst[blocker.count[c.name]] = Lin.of(rest.count[c.name]) + (1 if c is cls else 0)
                one = next(iter(cls.members)) if cls.members is not None and len(cls.members) == 1 else cls
                self.unfolded[blocker] = [rest, one] if from_end else [one, rest]
        raise CannotDecide("unfolding did not converge for %r" % (v,))

    def _refine(self, lin, lo=None, hi=None):
        lin = self.resolve(lin)
        if not lin.terms:
            return
        sh, sign = lin.canon()
        nl, nh = self.refine.get(sh, (-INF, INF))
        # bounds on the non-constant part P = lin - const; canonical part Q = sign * P
        plo = lo - lin.const if lo is not None else -INF
        phi = hi - lin.const if hi is not None else INF
        qlo, qhi = (plo, phi) if sign > 0 else (-phi, -plo)
        self.refine[sh] = (max(nl, qlo), min(nh, qhi))
        # the canonical non-constant part itself, for rules that want to use an equation (lo == hi) by substitution
        self.__dict__.setdefault("refine_src", {})[sh] = (lin - Lin({}, lin.const)).scale(sign)

    def compare_lin(self, op, a, b, node=None):
        d = self.resolve(Lin.of(a) - Lin.of(b))
        lo, hi = self.lin_interval(d)
        label = "%s %s %s" % (a, _OPNAME[op], b)

        def decide(true_if, false_if, on_true, on_false):
            if true_if:
                return True
            if false_if:
                return False
            r = self.fork(label)
            (on_true if r else on_false)()
            return r
        if op is ast.Lt:
            return decide(hi < 0, lo >= 0, lambda: self._refine(d, hi=-1), lambda: self._refine(d, lo=0))
        if op is ast.LtE:
            return decide(hi <= 0, lo > 0, lambda: self._refine(d, hi=0), lambda: self._refine(d, lo=1))
        if op is ast.Gt:
            return decide(lo > 0, hi <= 0, lambda: self._refine(d, lo=1), lambda: self._refine(d, hi=0))
        if op is ast.GtE:
            return decide(lo >= 0, hi < 0, lambda: self._refine(d, lo=0), lambda: self._refine(d, hi=-1))
        if op is ast.Eq or op is ast.NotEq:
            def ne():
                sh, sign = d.canon()
                self.excluded.setdefault(sh, set()).add(sign * -d.const)
            r = decide(lo == hi == 0, lo > 0 or hi < 0, lambda: self._refine(d, lo=0, hi=0), ne)
            return r if op is ast.Eq else (not r)
        raise CannotDecide("comparison %s on linear forms" % op)

    def mod_lin(self, lin, m):
        lo, hi = self.lin_interval(lin)
        if m > 0 and lo > -INF and hi < INF:
            k = lo // m
            if hi < (k + 1) * m:
                return lin - Lin.of(k * m)
        if m < 0 and lo > -INF and hi < INF:
            # result in (m, 0]
            k = -((-hi) // (-m))  # smallest multiple of |m| that is >= hi ... in units
            k = -(-hi // -m)
            base = k * (-m)  # multiple of |m| >= hi
            if lo > base + m:
                return lin - Lin.of(base)
        key = (lin.key(), m)
        if key not in self.mods:
            rng = (0, m - 1) if m > 0 else (m + 1, 0)
            self.mods[key] = Sym("mod(%s,%d)" % (lin, m), rng[0], rng[1], meta=("mod", lin, m))
        return Lin({self.mods[key]: 1}, 0)

    def floordiv_lin(self, lin, m):
        lo, hi = self.lin_interval(lin)
        if lo > -INF and hi < INF and lo // m == hi // m:
            return Lin({}, int(lo // m))
        key = (lin.key(), m)
        if key in self.divs:
            return Lin({self.divs[key]: 1}, 0)
        r = self.mod_lin(lin, m)  # remainder symbol (or folded form)
        qlo = lo // m if lo > -INF and m > 0 else (-INF)
        qhi = hi // m if hi < INF and m > 0 else INF
        q = Sym("(%s)//%d" % (lin, m), qlo, qhi, meta=("div", lin, m))
        self.divs[key] = q
        if len(r.terms) == 1 and r.const == 0:
            rs = next(iter(r.terms))
            if rs.meta and rs.meta[0] == "mod":
                # lin == m*q + r  =>  r := lin - m*q, with 0 <= r < m
                self.subst[rs] = lin - Lin({q: m}, 0)
                self._refine(lin - Lin({q: m}, 0), lo=0, hi=m - 1)
        return Lin({q: 1}, 0)

    # ------------------------------------------------------------------ truth
    def truth(self, v, node=None):
        if isinstance(v, (bool, int, float, str, list, tuple, dict, set, bytes)) or v is None:
            return bool(v)
        if isinstance(v, Lin):
            if v.is_const():
                return bool(v.const)
            return self.compare_lin(ast.NotEq, v, 0, node)
        if isinstance(v, AbsStr):
            if any(not isinstance(a, Run) for a in v.atoms):
                return True
            raise CannotDecide("truth of %r" % v)
        if isinstance(v, AObj) and v.cls is not None:
            for dn in ("__bool__", "__len__"):
                if self.repo.find_method(v.cls, dn) is not None:
                    r = self.call_method(v, dn, [], {}, node)
                    return self.truth(r, node) if dn == "__bool__" else self.compare(ast.NotEq, r, 0, node)
            return True
        if hasattr(v, "a_truth"):
            return v.a_truth(self)
        if isinstance(v, (Ch, AObj, AFunc, AClass, AModule)):
            return True
        if isinstance(v, Opaque) and getattr(v, "nonnull", False):
            return True
        if isinstance(v, Opaque):
            return self.opaque_fork("truth(%s)" % (short(node) if node is not None else v.tag), v)
        raise CannotDecide("truth of %r" % (v,))

    # ------------------------------------------------------------------ names
    def lookup(self, name, frame):
        f = frame
        while f is not None:
            if name in f.locals:
                return f.locals[name]
            f = f.parent
        if frame.fi is not None and name in _local_names(frame.fi):
            raise RaiseEx("UnboundLocalError", None)
        return self.lookup_global(name, frame.mod)

    def lookup_global(self, name, mod):
        key = (mod.name, name)
        if key in self.global_cache:
            return self.global_cache[key]
        r = self.repo.resolve_name(mod, name)
        if r is None:
            if name in _BUILTINS:
                return ABuiltin(name)
            if name in ("True", "False", "None"):
                return {"True": True, "False": False, "None": None}[name]
            if name in _exc_names():
                return ABuiltin(name)
            raise CannotDecide("unresolved name %s in %s" % (name, mod.name))
        v = self.entity_value(r)
        self.global_cache[key] = v
        return v

    def _module_init(self, mod):
        """A module whose tables are filled by statements after the assignment (a loop, TABLE[k] = v, TABLE += ...): its
        top-level assignments and loops are executed once, in order, so that the tables hold what they hold after import.
        Values a rule has put in place beforehand stay as the rule set them."""
        done = self.__dict__.setdefault("_modules_initialised", set())
        if mod.name in done:
            return
        done.add(mod.name)
        tree = getattr(mod, "tree", None)
        body = list(getattr(tree, "body", []) or [])
        def fills(n):
            if isinstance(n, (ast.For, ast.While, ast.AugAssign)):
                return True
            return isinstance(n, ast.Assign) and any(isinstance(t_, ast.Subscript) for t_ in n.targets)
        if not any(fills(n) for n in body):
            return
        preset = {k: v for k, v in self.global_cache.items() if k[0] == mod.name}
        names = set()
        for n in body:
            for x in ast.walk(n) if isinstance(n, (ast.Assign, ast.AugAssign, ast.For, ast.While, ast.If, ast.Delete)) else ():
                if isinstance(x, ast.Name) and isinstance(x.ctx, (ast.Store, ast.Del)):
                    names.add(x.id)
        fr = Frame(None, {}, mod=mod)
        fr.globals_ = set(names)
        for n in body:
            if not isinstance(n, (ast.Assign, ast.AugAssign, ast.For, ast.While, ast.Delete)):
                continue
            try:
                self.exec_block([n], fr)
            except (CannotDecide, RaiseEx):
                # what cannot be evaluated here is evaluated the plain way when it is asked for
                for x in ast.walk(n):
                    if isinstance(x, ast.Name) and isinstance(x.ctx, ast.Store):
                        self.global_cache.pop((mod.name, x.id), None)
        self.global_cache.update(preset)

    def entity_value(self, r):
        if r[0] == "func":
            return AFunc(r[1])
        if r[0] == "class":
            return AClass(r[1])
        if r[0] == "module":
            return AModule(r[1])
        if r[0] == "global":
            mod, name = r[1], r[2]
            key = (mod.name, name)
            if key in self.global_cache:
                return self.global_cache[key]
            self._module_init(mod)
            if key in self.global_cache:
                return self.global_cache[key]
            fr = Frame(None, {}, mod=mod)
            v = self.eval(mod.globals[name], fr)
            self.global_cache[key] = v
            return v
        if r[0] == "external":
            base = r[1].split(".")[-1]
            if base in _BUILTINS:
                return ABuiltin(base)
            return ABuiltin("ext:" + r[1])
        if r[0] == "classattr":
            fr = Frame(None, {}, mod=r[1].module)
            return self.eval(r[1].attrs[r[2]], fr)
        raise CannotDecide("entity %r" % (r,))

    # ------------------------------------------------------------------ eval
    def eval(self, node, frame):
        n = self.__dict__.get("_evals", 0) + 1
        self.__dict__["_evals"] = n
        if n % 5000 == 0 and time.monotonic() - self.__dict__.setdefault("_t0", time.monotonic()) > TIME_BUDGET:
            raise CannotDecide("the evaluation did not finish within %d seconds (at %s)" % (TIME_BUDGET, short(node)))
        m = getattr(self, "e_" + type(node).__name__, None)
        if m is None:
            raise CannotDecide("expression %s not supported: %s" % (type(node).__name__, short(node)))
        return m(node, frame)

    def e_Constant(self, node, frame):
        return node.value

    def e_Name(self, node, frame):
        return self.lookup(node.id, frame)

    def e_List(self, node, frame):
        return [self.eval(e, frame) for e in node.elts]

    def e_Tuple(self, node, frame):
        return tuple(self.eval(e, frame) for e in node.elts)

    def e_Dict(self, node, frame):
        return {self.eval(k, frame): self.eval(v, frame) for k, v in zip(node.keys, node.values)}

    def e_Yield(self, node, frame):
        f = frame
        while f is not None and not hasattr(f, "yields"):
            f = f.parent
        if f is None:
            raise CannotDecide("yield outside a generator frame")
        f.yields.append(self.eval(node.value, frame) if node.value is not None else None)
        return None

    def e_JoinedStr(self, node, frame):
        parts = []
        for v in node.values:
            if isinstance(v, ast.Constant):
                parts.append(v.value)
            elif isinstance(v, ast.FormattedValue):
                x = _unlin(self.eval(v.value, frame))
                if v.format_spec is not None or v.conversion not in (-1, 115):
                    if _has_abs(x):
                        return Opaque("fstring", [x])
                    spec = self.eval(v.format_spec, frame) if v.format_spec is not None else ""
                    x = format(x if v.conversion == -1 else (repr(x) if v.conversion == 114 else str(x)), spec if isinstance(spec, str) else "")
                if isinstance(x, (AbsStr, Ch)) or hasattr(x, "a_len"):
                    parts.append(x)
                elif _has_abs(x):
                    return Opaque("fstring", [x])
                else:
                    parts.append(str(x))
        if all(isinstance(p_, str) for p_ in parts):
            return "".join(parts)
        return simplify_str(AbsStr(parts))

    def e_DictComp(self, node, frame):
        out = {}

        def rec(gi, fr):
            if gi == len(node.generators):
                out[self.eval(node.key, fr)] = self.eval(node.value, fr)
                return
            g = node.generators[gi]
            for item in self.iterate(self.eval(g.iter, fr), g.iter):
                fr2 = Frame(fr.fi, {}, mod=fr.mod, cls=fr.cls)
                fr2.parent = fr
                self.assign(g.target, item, fr2)
                if all(self.truth(self.eval(c, fr2), c) for c in g.ifs):
                    rec(gi + 1, fr2)
        rec(0, frame)
        return out

    def e_SetComp(self, node, frame):
        items = self.e_ListComp(node, frame)
        try:
            return set(items)
        except TypeError:
            return Opaque("set", items)

    def e_Set(self, node, frame):
        items = [self.eval(e, frame) for e in node.elts]
        try:
            return set(items)
        except TypeError:
            return Opaque("set", items)

    def e_NamedExpr(self, node, frame):
        v = self.eval(node.value, frame)
        self.assign(node.target, v, frame)
        return v

    def e_Starred(self, node, frame):
        raise CannotDecide("starred expression outside a call")

    def e_Lambda(self, node, frame):
        fi = FuncInfo(frame.mod, "<lambda>@%d" % node.lineno, node)
        # the lambda sees the names of the function it is written in, wherever it is called later
        if not hasattr(self, "_closure_frames"):
            self._closure_frames = {}
        self._closure_frames[id(node)] = frame
        return AFunc(fi)

    def e_IfExp(self, node, frame):
        if self.truth(self.eval(node.test, frame), node.test):
            return self.eval(node.body, frame)
        return self.eval(node.orelse, frame)

    def e_BoolOp(self, node, frame):
        v = None
        for sub in node.values:
            v = self.eval(sub, frame)
            t = self.truth(v, sub)
            definite = not isinstance(v, (Lin, Opaque)) or getattr(v, "nonnull", False)
            if isinstance(node.op, ast.And) and not t:
                return v if definite else False
            if isinstance(node.op, ast.Or) and t:
                return v if definite else True
        if isinstance(v, (Lin, Opaque)) and not getattr(v, "nonnull", False):
            return isinstance(node.op, ast.And)
        return v

    def e_UnaryOp(self, node, frame):
        v = self.eval(node.operand, frame)
        if isinstance(node.op, ast.Not):
            return not self.truth(v, node.operand)
        if isinstance(node.op, ast.USub):
            if isinstance(v, Lin):
                return -v
            if isinstance(v, (int, float)):
                return -v
        if isinstance(node.op, ast.UAdd) and isinstance(v, (int, float, Lin)):
            return v
        if isinstance(v, Opaque):
            return Opaque("unary", [v])
        raise CannotDecide("unary %s on %r" % (type(node.op).__name__, v))

    def e_BinOp(self, node, frame):
        a = self.eval(node.left, frame)
        b = self.eval(node.right, frame)
        return self.binop(type(node.op), a, b, node)

    def binop(self, op, a, b, node=None):
        a = _unlin(a)
        b = _unlin(b)
        for x, y, refl in ((a, b, False), (b, a, True)):
            if hasattr(x, "a_binop"):
                r = x.a_binop(self, op, y, refl, node)
                if r is not NotImplemented:
                    return r
        if isinstance(a, AObj) and a.cls is not None and op in _BINDUNDER:
            for dn in _BINDUNDER[op]:
                if self.repo.find_method(a.cls, dn) is not None:
                    return self.call_method(a, dn, [b], {}, node)
        if op is ast.Add and ((isinstance(a, (str, AbsStr, Ch)) and b is None) or (a is None and isinstance(b, (str, AbsStr, Ch)))):
            raise RaiseEx("TypeError", node)
        if op is ast.Mod and isinstance(a, str) and a.count("%s") == a.count("%") and a.count("%s") >= 1:
            vals = list(b) if isinstance(b, tuple) else [b]
            if len(vals) == a.count("%s") and all(isinstance(v, (str, AbsStr, Ch)) or hasattr(v, "a_len") for v in vals) \
                    and any(_has_abs(v) for v in vals):
                parts = a.split("%s")
                atoms = []
                for i, part in enumerate(parts):
                    atoms.append(part)
                    if i < len(vals):
                        atoms.append(vals[i])
                return simplify_str(AbsStr(atoms))
        conc = (int, float, str, list, tuple, bytes, bool, _Fraction)
        if isinstance(a, conc) and isinstance(b, conc) and not _has_abs(a) and not _has_abs(b):
            try:
                return _PYBIN[op](a, b)
            except ZeroDivisionError:
                raise RaiseEx("ZeroDivisionError", node)
            except TypeError:
                raise RaiseEx("TypeError", node)
            except OverflowError:
                raise RaiseEx("OverflowError", node)
            except ValueError:
                raise RaiseEx("ValueError", node)
        if isinstance(a, list) and isinstance(b, list) and op is ast.Add:
            return a + b
        if isinstance(a, list) and isinstance(b, int) and op is ast.Mult:
            return a * b
        if isinstance(a, list) and isinstance(b, Lin) and op is ast.Mult:
            return RepList([], a, b, [])
        if isinstance(a, RepList) and isinstance(b, list) and op is ast.Add:
            return RepList(a.head, a.period, a.count, a.tail + b)
        if isinstance(a, list) and isinstance(b, RepList) and op is ast.Add:
            return RepList(a + b.head, b.period, b.count, b.tail)
        if isinstance(a, tuple) and isinstance(b, tuple) and op is ast.Add:
            return a + b
        la, lb = Lin.of(a), Lin.of(b)
        if la is not None and lb is not None and not isinstance(a, str) and not isinstance(b, str):
            if op is ast.Add:
                return _norm_lin(la + lb)
            if op is ast.Sub:
                return _norm_lin(la - lb)
            if op is ast.Mult:
                if la.is_const():
                    return _norm_lin(lb.scale(la.const))
                if lb.is_const():
                    return _norm_lin(la.scale(lb.const))
            if op is ast.Mod and lb.is_const() and isinstance(lb.const, int) and lb.const != 0:
                return _norm_lin(self.mod_lin(la, lb.const))
            if op is ast.FloorDiv and lb.is_const() and isinstance(lb.const, int) and lb.const > 0:
                return _norm_lin(self.floordiv_lin(la, lb.const))
            return Opaque("arith", [a, b])
        # strings
        sa, sb = _as_absstr(a), _as_absstr(b)
        if op is ast.Add and sa is not None and sb is not None:
            return simplify_str(AbsStr([sa, sb]))
        if op is ast.Mult and isinstance(a, str) and isinstance(b, Lin):
            return AbsStr([Rep(a, b)])
        if op is ast.Mod and isinstance(a, str):
            # the text is not modelled, the arity error is: "...%s..." % (x, y) raises TypeError
            import re as _re
            nspec = len(_re.findall(r"%(?!%)", a.replace("%%", "")))
            named = bool(_re.search(r"%\(", a))
            if not named and isinstance(b, tuple) and len(b) != nspec:
                raise RaiseEx("TypeError", node)
            if not named and not isinstance(b, tuple) and nspec != 1 and not isinstance(b, (dict, Opaque)):
                raise RaiseEx("TypeError", node)
            return Opaque("format", [b])
        if isinstance(a, Opaque) or isinstance(b, Opaque):
            return Opaque("binop", [a, b])
        if a is None or b is None:
            raise RaiseEx("TypeError", node)
        raise CannotDecide("binop %s on %r, %r at %s" % (op.__name__, a, b, short(node) if node is not None else ""))

    def e_Compare(self, node, frame):
        left = self.eval(node.left, frame)
        for op, c in zip(node.ops, node.comparators):
            right = self.eval(c, frame)
            if not self.compare(type(op), left, right, node):
                return False
            left = right
        return True

    def compare(self, op, a, b, node=None):
        a, b = _unlin(a), _unlin(b)
        for x, y, refl in ((a, b, False), (b, a, True)):
            if hasattr(x, "a_compare"):
                r = x.a_compare(self, op, y, refl, node)
                if r is not NotImplemented:
                    return r
        if isinstance(a, (set, frozenset)) and isinstance(b, (set, frozenset)) and op in _PYCMP:
            return _PYCMP[op](a, b)
        if op in _DUNDER and isinstance(a, AObj) and a.cls is not None \
                and self.repo.find_method(a.cls, _DUNDER[op]) is not None:
            r = self.call_method(a, _DUNDER[op], [b], {}, node)
            return self.truth(r, node)
        if op in _DUNDER and isinstance(b, AObj) and b.cls is not None and not isinstance(a, AObj) \
                and self.repo.find_method(b.cls, _DUNDER[_REFLECT[op]]) is not None:
            r = self.call_method(b, _DUNDER[_REFLECT[op]], [a], {}, node)
            return self.truth(r, node)
        a, b = simplify_str(a), simplify_str(b)
        if op in (ast.Eq, ast.NotEq) and (a is None or b is None) and (getattr(a, "nonnull", False) or getattr(b, "nonnull", False)):
            return op is ast.NotEq
        if op in (ast.Is, ast.IsNot):
            if a is None or b is None:
                r = (a is None and b is None)
                if (isinstance(a, Opaque) or isinstance(b, Opaque)) and not (getattr(a, "nonnull", False) or getattr(b, "nonnull", False)):
                    r = self.opaque_fork("is None: %s" % short(node), a, b)
                return r if op is ast.Is else not r
            r = a is b or (isinstance(a, AClass) and isinstance(b, AClass) and a.ci is b.ci) \
                or (isinstance(a, ABuiltin) and isinstance(b, ABuiltin) and a.name == b.name)
            if not r and (isinstance(a, Opaque) or isinstance(b, Opaque)):
                r = self.opaque_fork("is: %s" % short(node), a, b)
            return r if op is ast.Is else not r
        if op in (ast.In, ast.NotIn):
            r = self.contains(b, a, node)
            return r if op is ast.In else not r
        if not _has_abs(a) and not _has_abs(b):
            try:
                return _PYCMP[op](a, b)
            except TypeError:
                raise RaiseEx("TypeError", node)
        la, lb = Lin.of(a), Lin.of(b)
        if la is not None and lb is not None and not isinstance(a, str) and not isinstance(b, str):
            return self.compare_lin(op, la, lb, node)
        if op in (ast.Eq, ast.NotEq):
            r = self.equal(a, b, node)
            return r if op is ast.Eq else not r
        if isinstance(a, Opaque) or isinstance(b, Opaque):
            return self.opaque_fork("cmp: %s" % short(node), a, b)
        raise CannotDecide("compare %s on %r, %r" % (op.__name__, a, b))

    def equal(self, a, b, node=None):
        if not _has_abs(a) and not _has_abs(b):
            return a == b
        for x, y in ((a, b), (b, a)):
            if hasattr(x, "a_eq"):
                r = x.a_eq(self, y)
                if r is None:
                    return self.fork("eq: %s" % (short(node) if node is not None else "?"))
                return r
        if isinstance(a, Ch) and isinstance(b, str):
            a, b = b, a
        if isinstance(a, str) and isinstance(b, Ch):
            if len(a) != 1:
                return False
            r = b.contains_only([a])
            if r is None:
                if b.members is not None and len(b.members) > 1:
                    raise CannotDecide("partition too coarse: %r == %r" % (b, a))
                raise CannotDecide("partition too coarse: %r == %r" % (b, a))
            return r
        if isinstance(a, Ch) and isinstance(b, Ch):
            if a is b and a.members is not None and len(a.members) == 1:
                return True
            if a.members is not None and b.members is not None and not (a.members & b.members):
                return False
            if a is b:
                return True
            raise CannotDecide("Ch == Ch: %r %r" % (a, b))
        if isinstance(a, (AbsStr, str)) and isinstance(b, (AbsStr, str)):
            ua, ub = _as_absstr(a).units(), _as_absstr(b).units()
            if not any(isinstance(u, Run) or _is_rep(u) for u in ua + ub):
                if len(ua) != len(ub):
                    return False
                res = True
                for x, y in zip(ua, ub):
                    if not self.equal(x, y, node):
                        res = False
                        break
                return res
            if any(isinstance(u, UnknownStr) for u in ua + ub):
                return self.fork("eq-unknown-string: %s" % (short(node) if node is not None else "?"))
            for x_, y_ in ((a, b), (b, a)):
                if isinstance(y_, str) or (isinstance(y_, AbsStr) and y_.is_concrete()):
                    kk = y_ if isinstance(y_, str) else y_.concrete()
                    m = self._match_str(self.norm_str(_as_absstr(x_)), kk)
                    if m is not None:
                        return m
                    # undetermined: split on whether the runs are empty and look again
                    runs = [u_ for u_ in self.norm_str(_as_absstr(x_)).units() if isinstance(u_, Run)]
                    if runs and all(isinstance(u_, (str, Ch, Run)) for u_ in self.norm_str(_as_absstr(x_)).units()):
                        total = Lin({}, 0)
                        for r_ in runs:
                            for sy in r_.count.values():
                                total = total + Lin.of(sy)
                        lo_, hi_ = self.lin_interval(total)
                        if lo_ <= 0 < hi_:
                            self.compare_lin(ast.Eq, total, 0)
                            m = self._match_str(self.norm_str(_as_absstr(x_)), kk)
                            if m is not None:
                                return m
            # two texts that begin with different known characters are different, whatever follows
            ha, hb = (ua[0] if ua else None), (ub[0] if ub else None)
            if isinstance(ha, str) and isinstance(hb, str) and ha and hb and ha[0] != hb[0]:
                return False
            raise CannotDecide("string equality with runs: %r == %r" % (a, b))
        if type(a) in (int, bool, float, type(None)) and isinstance(b, (Ch, AbsStr)):
            return False
        if type(b) in (int, bool, float, type(None)) and isinstance(a, (Ch, AbsStr)):
            return False
        if isinstance(a, (list, tuple)) and isinstance(b, (list, tuple)):
            if len(a) != len(b):
                return False
            return all(self.equal(x, y, node) for x, y in zip(a, b))
        if isinstance(a, Opaque) or isinstance(b, Opaque):
            return self.opaque_fork("eq: %s" % (short(node) if node is not None else "?"), a, b)
        if isinstance(a, (AObj, AFunc)) or isinstance(b, (AObj, AFunc)):
            if a is b:
                return True
            for x_ in (a, b):
                if isinstance(x_, AObj) and x_.cls is not None and self.repo.find_method(x_.cls, "__eq__") is not None:
                    return self.compare(ast.Eq, a, b, node)
            return False
        return False if type(a) is not type(b) else (a == b)

    def contains(self, container, item, node=None):
        item = simplify_str(_unlin(item))
        if isinstance(container, AObj) and container.cls is not None:
            if self.repo.find_method(container.cls, "__contains__") is not None:
                return self.truth(self.call_method(container, "__contains__", [item], {}, node), node)
            return self.contains(self.iterate(container, node), item, node)
        if isinstance(container, dict):
            container = list(container.keys())
        if isinstance(container, (list, tuple, set, frozenset, range)):
            if isinstance(item, Ch):
                keys = [k for k in container if isinstance(k, str)]
                r = item.contains_only([k for k in keys if len(k) == 1])
                if r is None:
                    raise CannotDecide("partition too coarse: %r in %s" % (item, short(node)))
                return r
            if isinstance(item, Lin):
                if all(isinstance(k, int) for k in container):
                    lo, hi = self.lin_interval(item)
                    ks = set(container)
                    if lo > -INF and hi < INF and all(x in ks for x in range(int(lo), int(hi) + 1)):
                        return True
                    if all(k < lo or k > hi for k in ks):
                        return False
                    return self.fork("in: %s" % short(node))
                return False
            if isinstance(item, Opaque):
                return self.fork("in: %s" % short(node))
            if isinstance(item, AbsStr):
                item = self.norm_str(item)
                maybe = False
                for k in container:
                    if not isinstance(k, str):
                        continue
                    m = self._match_str(item, k)
                    if m is True:
                        return True
                    if m is None:
                        maybe = True
                if not maybe:
                    return False
                for k in container:
                    if isinstance(k, str) and self._match_str(self.norm_str(item), k) is not False:
                        try:
                            if self.equal(item, k, node):
                                return True
                        except CannotDecide:
                            return self.fork("in: %s" % short(node))
                return False
            if isinstance(item, AObj) or any(isinstance(k, AObj) for k in container):
                self.events.append(("in", container, item, node))
                for k in container:
                    if k is item:
                        return True
                for k in container:
                    if isinstance(k, AObj) or isinstance(item, AObj):
                        if self.compare(ast.Eq, k, item, node):
                            return True
                    elif not _has_abs(k) and not _has_abs(item) and k == item:
                        return True
                return False
            for k in container:
                if isinstance(k, (Opaque,)):
                    return self.fork("in: %s" % short(node))
                if not _has_abs(k) and not _has_abs(item):
                    if k == item and type(k) is type(item) or (isinstance(k, (int, float)) and isinstance(item, (int, float)) and k == item):
                        return True
                elif isinstance(k, (Ch, AbsStr)) and isinstance(item, str):
                    if self.equal(k, item, node):
                        return True
            return False
        if isinstance(container, str):
            if isinstance(item, str):
                return item in container
            if isinstance(item, Ch):
                r = item.contains_only(list(container))
                if r is None:
                    raise CannotDecide("partition too coarse: %r in %r" % (item, container))
                return r
            if isinstance(item, AbsStr) and len(container) <= 64:
                # substring test: the text is one of the (finitely many) substrings of the container, the empty one included
                subs = sorted({container[i:j] for i in range(len(container) + 1) for j in range(i, len(container) + 1)})
                return self.contains(subs, item, node)
        if isinstance(container, AbsStr) and isinstance(item, str) and len(item) == 1:
            sure = False
            maybe = False
            for u in container.units():
                if isinstance(u, str):
                    if u == item:
                        sure = True
                elif isinstance(u, Ch):
                    r = u.contains_only([item])
                    if r:
                        sure = True
                    elif r is None:
                        maybe = True
                elif isinstance(u, Run):
                    if any(c.contains_only([item]) is not False for c in u.classes):
                        maybe = True
                else:
                    maybe = True
            if sure:
                return True
            if not maybe:
                return False
            return self.fork("in: %s" % short(node))
        if isinstance(container, Opaque) or isinstance(item, Opaque):
            return self.fork("in: %s" % short(node))
        raise CannotDecide("membership %r in %r" % (item, container))

    def _match_str(self, abss, k):
        """True: abss == k for sure; False: never; None: possible."""
        u = abss.units()

        def unit_match(x, c):
            if isinstance(x, str):
                return x == c
            if isinstance(x, Ch):
                return x.contains_only([c])
            return None
        flex = [i for i, x in enumerate(u) if isinstance(x, Run) or _is_rep(x) or not isinstance(x, (str, Ch))]
        if not flex:
            if len(u) != len(k):
                return False
            res = True
            for x, c in zip(u, k):
                m = unit_match(x, c)
                if m is False:
                    return False
                if m is None:
                    res = None
            return res
        pre, post = u[:flex[0]], u[flex[-1] + 1:]
        fixed = sum(1 for x in u if isinstance(x, (str, Ch)))
        if fixed > len(k):
            return False
        if all(isinstance(u[i], Run) for i in flex) and not self._possible_match(u, k):
            return False
        if fixed == len(k) and len(pre) + len(post) == fixed and all(isinstance(u[i], Run) for i in flex) \
                and all(unit_match(x, c) is True for x, c in zip(pre + post, k)):
            # every character of k is accounted for by the fixed pieces: equal iff all runs are empty
            total = Lin({}, 0)
            for i in flex:
                for sy in u[i].count.values():
                    total = total + Lin.of(sy)
            return self.compare_lin(ast.Eq, total, 0)
        for x, c in zip(pre, k):
            if unit_match(x, c) is False:
                return False
        if post:
            for x, c in zip(reversed(post), reversed(k)):
                if unit_match(x, c) is False:
                    return False
        return None

    def _possible_match(self, units, k):
        """Can some concretisation of units (literal chars, Ch, Run) equal the concrete string k?  (Runs: any number
        >= their known minimum of characters from their classes.)"""
        def ch_can(x, c):
            if isinstance(x, str):
                return x == c
            return x.contains_only([c]) is not False
        states = {0}
        for x in units:
            nxt = set()
            if isinstance(x, Run):
                lo = 0
                for sy in x.count.values():
                    l_, _h = self.lin_interval(Lin.of(sy))
                    lo += max(0, int(l_)) if l_ > -INF else 0
                for p0 in states:
                    q, n = p0, 0
                    if lo == 0:
                        nxt.add(q)
                    while q < len(k) and any(ch_can(cl, k[q]) for cl in x.classes):
                        q += 1
                        n += 1
                        if n >= lo:
                            nxt.add(q)
            else:
                for p0 in states:
                    if p0 < len(k) and ch_can(x, k[p0]):
                        nxt.add(p0 + 1)
            states = nxt
            if not states:
                return False
        return len(k) in states

    def _maybe_equal_str(self, abss, k):
        return self._match_str(abss, k) is not False

    # ---------------------------------------------------------------- subscripts
    def e_Subscript(self, node, frame):
        v = self.eval(node.value, frame)
        if isinstance(node.slice, ast.Slice):
            lo = self.eval(node.slice.lower, frame) if node.slice.lower else None
            hi = self.eval(node.slice.upper, frame) if node.slice.upper else None
            st = self.eval(node.slice.step, frame) if node.slice.step else None
            return self.slice(v, _unlin(lo), _unlin(hi), _unlin(st), node)
        idx = _unlin(self.eval(node.slice, frame))
        return self.index(v, idx, node)

    def index(self, v, idx, node=None):
        idx = simplify_str(idx)
        if hasattr(v, "a_index"):
            return v.a_index(self, idx, node)
        if isinstance(v, AObj) and v.cls is not None and self.repo.find_method(v.cls, "__getitem__") is not None:
            return self.call_method(v, "__getitem__", [idx], {}, node)
        if isinstance(v, Sel) and isinstance(idx, int) and not isinstance(idx, bool) and v.table \
                and all(isinstance(r, (tuple, list, str)) and -len(r) <= idx < len(r) for r in v.table):
            # a column of the row picked by the symbolic index: the same pick from that column
            return Sel([r[idx] for r in v.table], v.index)
        if isinstance(idx, slice) and isinstance(v, (list, tuple, str, bytes)):
            return v[idx]
        if isinstance(v, (bytes, bytearray)) and isinstance(idx, int):
            try:
                return v[idx]
            except IndexError:
                raise RaiseEx("IndexError", node)
        if isinstance(v, AIter):
            raise RaiseEx("TypeError", node)  # iterators are not subscriptable
        if isinstance(v, RepList) and isinstance(idx, int):
            if idx >= 0 and idx < len(v.head):
                return v.head[idx]
            if idx < 0 and -idx <= len(v.tail):
                return v.tail[idx]
            lo, hi = self.lin_interval(v.count)
            if idx >= 0 and not v.head and v.period and lo >= 1 and idx < len(v.period):
                return v.period[idx]
            raise CannotDecide("index %d into %r" % (idx, v))
        if isinstance(v, (list, tuple)):
            if isinstance(idx, int):
                try:
                    return v[idx]
                except IndexError:
                    raise RaiseEx("IndexError", node)
            if isinstance(idx, Lin):
                lo, hi = self.lin_interval(idx)
                if lo >= -len(v) and hi < len(v):
                    return Sel(list(v), idx)
            if idx is None or isinstance(idx, (float, str, list, tuple, dict, _Fraction)):
                raise RaiseEx("TypeError", node)  # list indices must be integers or slices
            return Opaque("index", [v, idx])
        if isinstance(v, str):
            v = AbsStr([v])
        if isinstance(v, Ch) and idx in (0, -1):
            return v
        if isinstance(v, AbsStr) and isinstance(idx, int):
            v = self.expose(v, idx + 1 if idx >= 0 else -idx, from_end=idx < 0)
            u = v.units()
            probe = u[: idx + 1] if idx >= 0 else u[idx:]
            if any(isinstance(x, Run) or _is_rep(x) for x in probe) or (idx >= len(u) or -idx > len(u)):
                if any(isinstance(x, Run) or _is_rep(x) for x in u):
                    raise CannotDecide("index %d into %r" % (idx, v))
                raise RaiseEx("IndexError", node)
            return u[idx]
        if isinstance(v, dict):
            if isinstance(idx, Ch):
                if idx.members is not None and len(idx.members) == 1:
                    idx = next(iter(idx.members))
                elif idx.members is None and all(isinstance(k, str) and len(k) == 1 and k in idx.excluded for k in v):
                    raise RaiseEx("KeyError", node)  # a character that is none of the keys
                elif idx.members is not None and not any(k in idx.members for k in v if isinstance(k, str)):
                    raise RaiseEx("KeyError", node)
                else:
                    raise CannotDecide("dict lookup with %r" % idx)
            if isinstance(idx, AbsStr):
                idx2 = self.norm_str(idx)
                if idx2.is_concrete():
                    idx = idx2.concrete()
                else:
                    for k in v:
                        if isinstance(k, str) and self._match_str(idx2, k) is not False and self.equal(idx, k, node):
                            return v[k]
                    raise RaiseEx("KeyError", node)
            if _has_abs(idx):
                return Opaque("dictget", [idx])
            if idx in v:
                return v[idx]
            raise RaiseEx("KeyError", node)
        if isinstance(v, Opaque):
            return Opaque("index", [v, idx])
        raise CannotDecide("subscript %r[%r]" % (v, idx))

    def slice(self, v, lo, hi, st, node=None):
        if isinstance(v, AIter):
            raise RaiseEx("TypeError", node)
        if isinstance(v, AObj) and v.cls is not None and self.repo.find_method(v.cls, "__getitem__") is not None \
                and all(x is None or isinstance(x, int) for x in (lo, hi, st)):
            return self.call_method(v, "__getitem__", [slice(lo, hi, st)], {}, node)
        if isinstance(v, (bytes, bytearray)) and all(x is None or isinstance(x, int) for x in (lo, hi, st)):
            return v[lo:hi:st]
        if isinstance(v, RepList):
            if lo is None and st is None and isinstance(hi, int) and hi < 0 and -hi <= len(v.tail):
                return RepList(v.head, v.period, v.count, v.tail[:hi])
            if hi is None and st is None and isinstance(lo, int) and 0 <= lo <= len(v.head):
                return RepList(v.head[lo:], v.period, v.count, v.tail)
            if lo is None and hi is None and st is None:
                return RepList(v.head, v.period, v.count, v.tail)
            if lo is None and hi is None and st == -1:
                return v.reversed()
            raise CannotDecide("slice [%r:%r] of %r" % (lo, hi, v))
        if isinstance(v, (list, tuple)) and all(x is None or isinstance(x, int) for x in (lo, hi, st)):
            return v[lo:hi:st]
        if isinstance(v, str):
            v = AbsStr([v])
        if isinstance(v, Ch):
            v = AbsStr([v])
        if isinstance(v, AbsStr) and st is None and all(x is None or isinstance(x, int) for x in (lo, hi)):
            for k in (lo, hi):
                if k:
                    v = self.expose(v, abs(k), from_end=k < 0)
            v = self.norm_str(v)
            u = v.units()

            def cut_ok(k):
                if k is None:
                    return True
                probe = u[:k] if k >= 0 else u[k:]
                return not any(isinstance(x, Run) or _is_rep(x) for x in probe) and abs(k) <= len(u)
            if cut_ok(lo) and cut_ok(hi):
                return simplify_str(AbsStr(u[lo:hi]))
            if not any(isinstance(x, Run) or _is_rep(x) for x in u):
                return simplify_str(AbsStr(u[lo:hi]))
            raise CannotDecide("slice [%r:%r] of %r" % (lo, hi, v))
        if isinstance(v, AbsStr) and st is None and (isinstance(lo, Lin) or isinstance(hi, Lin)):
            v = self.norm_str(v)
            cut_lo = self._cut(v, lo) if lo is not None else 0
            cut_hi = self._cut(v, hi) if hi is not None else None
            if cut_lo is not None and (hi is None or cut_hi is not None):
                u = self._split_units(v)
                return simplify_str(AbsStr(u[cut_lo:cut_hi]))
            if cut_lo is None and hi is None:
                # the start is a length unrelated to this string's own pieces: case split on where it falls
                cut_lo = self._cut(v, lo, fork=True)
                if cut_lo is not None:
                    return simplify_str(AbsStr(self._split_units(v)[cut_lo:]))
                return AbsStr([UnknownStr("tail of %s from %s" % (short(repr(v), 40), lo))])
            raise CannotDecide("slice [%r:%r] of %r" % (lo, hi, v))
        if isinstance(v, Opaque):
            return Opaque("slice", [v])
        raise CannotDecide("slice of %r" % (v,))

    def _split_units(self, v):
        return v.units()

    def _cut(self, v, pos, fork=False):
        """Index into v.units() at which the prefix has length ``pos`` (int or Lin), or None.
        With fork=True an undetermined ``pos == boundary`` question is split into two paths."""
        u = v.units()
        total = Lin({}, 0)
        want = Lin.of(pos)
        for i in range(len(u) + 1):
            lo, hi = self.lin_interval(want - total)
            if lo == hi == 0:
                return i
            if fork and lo <= 0 <= hi and (i == len(u) or not isinstance(u[i], Run) or i == 0 or not isinstance(u[i - 1], Run)):
                if self.compare_lin(ast.Eq, want, total):
                    return i
            if i == len(u):
                break
            a = u[i]
            if isinstance(a, (str, Ch)):
                total = total + 1
            elif isinstance(a, Run):
                for sy in a.count.values():
                    total = total + Lin.of(sy)
            elif _is_rep(a):
                total = total + a.count.scale(len(a.lit))
            elif hasattr(a, "a_len"):
                total = total + Lin.of(a.a_len(self))
            else:
                return None
        return None

    # ---------------------------------------------------------------- attributes
    def e_Attribute(self, node, frame):
        v = self.eval(node.value, frame)
        return self.getattr(v, node.attr, node, frame)

    def getattr(self, v, name, node=None, frame=None):
        if isinstance(v, _Fraction) and name in ("numerator", "denominator"):
            return getattr(v, name)
        if hasattr(v, "a_getattr"):
            r_ = v.a_getattr(self, name, node)
            if r_ is not NotImplemented:
                return r_
            if hasattr(v, "a_method"):
                return ABound(v, name)
        if isinstance(v, ASuper):
            mro = self.repo.mro(v.obj.cls) if v.obj.cls is not None else []
            after = mro[mro.index(v.ci) + 1:] if v.ci in mro else []
            for c in after:
                if name in c.methods:
                    return _BoundFI(c.methods[name], v.obj)
            if name == "__init__":
                return ABuiltin("object.__init__")
            raise CannotDecide("super().%s not found" % name)
        if isinstance(v, AModule) and name == "__dict__":
            return _ModuleDict(self, v.mod)
        if isinstance(v, AModule):
            r = self.repo.resolve_name(v.mod, name)
            if r is None:
                sub = v.mod.name + "." + name
                if sub in self.repo.modules:
                    return AModule(self.repo.modules[sub])
                raise CannotDecide("no attribute %s in module %s" % (name, v.mod.name))
            return self.entity_value(r)
        if isinstance(v, AObj):
            if name in v.attrs:
                return v.attrs[name]
            if v.cls is not None:
                m = self.repo.find_method(v.cls, name)
                if m is not None:
                    if any(norm(d) == "property" for d in m.node.decorator_list):
                        return self.call_method(v, name, [], {}, node)
                    return ABound(v, name)
                for c in self.repo.mro(v.cls):
                    if name in c.attrs:
                        return self.eval(c.attrs[name], Frame(None, {}, mod=c.module))
            if self.attr_hook:
                return self.attr_hook(self, v, name, node)
            if v.cls is not None and not name.startswith("__"):
                # an object of a known class that has no such attribute, method or class attribute: hasattr() says False
                # for it, and reading it raises (try / except AttributeError is the other way of asking)
                raise RaiseEx("AttributeError", node)
            return Opaque("attr:%s.%s" % (v.name, name), [v])
        if isinstance(v, AClass):
            m = self.repo.find_method(v.ci, name)
            if m is not None:
                return AFunc(m)
            for c in self.repo.mro(v.ci):
                if name in c.attrs:
                    return self.eval(c.attrs[name], Frame(None, {}, mod=c.module))
        if isinstance(v, ABuiltin) and v.name == "ext:os" and name == "linesep":
            return "\n"
        if isinstance(v, ABuiltin) and v.name == "ext:re":
            from . import regexdom
            r = regexdom.attribute(name)
            if r is not NotImplemented:
                return r
        if isinstance(v, ABuiltin) and v.name == "ext:sys.float_info" and name in ("epsilon", "max", "min", "dig", "mant_dig"):
            import sys as _sys
            return getattr(_sys.float_info, name)
        if isinstance(v, ABuiltin) and v.name == "ext:sys" and name == "maxsize":
            import sys as _sys
            return _sys.maxsize
        if isinstance(v, ABuiltin) and v.name == "ext:math" and name in ("pi", "e", "inf", "nan"):
            import math as _math
            return getattr(_math, name)
        if isinstance(v, ABuiltin) and v.name.startswith("ext:"):
            return ABuiltin(v.name + "." + name)
        if isinstance(v, ABuiltin) and v.name == "str" and name in ("lower", "upper"):
            return ABuiltin("str." + name)
        if isinstance(v, Opaque):
            return Opaque("attr:%s" % name, [v])
        if v is None or isinstance(v, (int, float, str, bytes, list, dict, tuple, set, bool)):
            if not hasattr(v, name):
                raise RaiseEx("AttributeError", node)
        return ABound(v, name)

    # ---------------------------------------------------------------- calls
    def e_Call(self, node, frame):
        fn = self.eval(node.func, frame)
        args = []
        for a in node.args:
            if isinstance(a, ast.Starred):
                args.extend(self.eval(a.value, frame))
            else:
                args.append(self.eval(a, frame))
        kwargs = {k.arg: self.eval(k.value, frame) for k in node.keywords}
        return self.call(fn, args, kwargs, node, frame)

    def call(self, fn, args, kwargs, node=None, frame=None):
        if self.on_call is not None:
            r = self.on_call(self, fn, args, kwargs, node)
            if r is not NotImplemented:
                return r
        if isinstance(fn, AFunc):
            key = "%s.%s" % (fn.fi.module.name, fn.fi.qualname)
            if key in self.summaries:
                return self.summaries[key](self, args, kwargs, node)
            if not self.inline:
                self.events.append(("call", key, args, node))
                return Opaque("call:" + key, args)
            return self.call_function(fn.fi, args, kwargs, node)
        if isinstance(fn, _BoundFI):
            key = "%s.%s" % (fn.fi.module.name, fn.fi.qualname)
            if key in self.summaries:
                return self.summaries[key](self, [fn.obj] + list(args), kwargs, node)
            return self.call_function(fn.fi, [fn.obj] + list(args), kwargs, node)
        if isinstance(fn, ABound):
            return self.call_method(fn.recv, fn.name, args, kwargs, node)
        if isinstance(fn, AMethodCaller):
            if len(args) != 1 or kwargs:
                raise RaiseEx("TypeError", node)
            return self.call_method(args[0], fn.name, list(fn.args), dict(fn.kwargs), node)
        if isinstance(fn, ABuiltin):
            return self.call_builtin(fn.name, args, kwargs, node)
        if isinstance(fn, AClass):
            key = "%s.%s" % (fn.ci.module.name, fn.ci.name)
            if key in self.summaries:
                return self.summaries[key](self, args, kwargs, node)
            if fn.ci.name.endswith("Error") or fn.ci.name.endswith("Exception"):
                return AObj(fn.ci, {"args": args}, name=fn.ci.name)
            if self.instantiate:
                obj = AObj(fn.ci, {}, name=fn.ci.name)
                init = self.repo.find_method(fn.ci, "__init__")
                if init is not None:
                    ikey = "%s.%s" % (init.module.name, init.qualname)
                    if ikey in self.summaries:
                        self.summaries[ikey](self, [obj] + list(args), kwargs, node)
                    else:
                        self.call_function(init, [obj] + list(args), kwargs, node)
                return obj
            self.events.append(("new", key, args, node))
            return Opaque("new:" + key, args)
        if isinstance(fn, Opaque):
            self.events.append(("call", "?" + fn.tag, args, node))
            return Opaque("call:?", [fn] + list(args))
        raise CannotDecide("call of %r at %s" % (fn, short(node) if node is not None else ""))

    def call_function(self, fi, args, kwargs, node=None, self_obj=None):
        if self.depth >= self.max_depth:
            raise CannotDecide("inlining depth exceeded at %s" % fi.qualname)
        fr = Frame(fi, {})
        params = fi.params
        a = fi.node.args
        allargs = list(args)
        positional = [x.arg for x in list(getattr(a, "posonlyargs", [])) + list(a.args)]
        if a.vararg:
            # def f(x, *rest): what does not fit the positional parameters is the tuple 'rest'
            fr.locals[a.vararg.arg] = tuple(allargs[len(positional):])
            allargs = allargs[:len(positional)]
        if len(allargs) > len(positional):
            raise RaiseEx("TypeError", node)
        for p, v in zip(positional, allargs):
            fr.locals[p] = v
        extra = {}
        for k, v in kwargs.items():
            if k not in params or k in fr.locals:
                if a.kwarg and k not in params:
                    extra[k] = v
                    continue
                raise RaiseEx("TypeError", node)
            fr.locals[k] = v
        if a.kwarg:
            fr.locals[a.kwarg.arg] = extra
        for p, d in fi.defaults.items():
            if p not in fr.locals:
                fr.locals[p] = self.eval(d, Frame(None, {}, mod=fi.module))
        for p in params:
            if p not in fr.locals:
                raise RaiseEx("TypeError", node)
        if hasattr(self, "_closure_frames") and (fi.parent is not None or isinstance(fi.node, ast.Lambda) or id(fi.node) in self._closure_frames):
            fr.parent = self._closure_frames.get(id(fi.node))
        is_gen = _is_generator(fi)
        if is_gen:
            fr.yields = []
        self.depth += 1
        try:
            self.exec_block(fi.body, fr)
        except ReturnEx as r:
            if is_gen:
                return AIter(fr.yields)
            return r.value
        finally:
            self.depth -= 1
        if is_gen:
            return AIter(fr.yields)
        return None

    def _sortable_objects(self, items):
        """Objects with concrete state and a real (not summarised) __lt__: they can be sorted the way Python would."""
        if not items:
            return False
        for x in items:
            if not (isinstance(x, AObj) and x.cls is not None):
                return False
            m = self.repo.find_method(x.cls, "__lt__")
            if m is None or "%s.%s" % (m.module.name, m.qualname) in self.summaries or _has_abs(list(x.attrs.values())):
                return False
        return True

    def _sorted_objects(self, items, node):
        out = []
        for x in items:  # stable insertion by '<'
            k = len(out)
            while k > 0 and self.truth(self.call_method(x, "__lt__", [out[k - 1]], {}, node), node):
                k -= 1
            out.insert(k, x)
        return out

    def call_method(self, recv, name, args, kwargs, node=None):
        recv = _unlin(recv)
        if hasattr(recv, "a_method"):
            r = recv.a_method(self, name, args, kwargs, node)
            if r is not NotImplemented:
                return r
        if recv is None:
            raise RaiseEx("AttributeError", node)
        if isinstance(recv, _Fraction) and name == "limit_denominator" and all(isinstance(a, int) for a in args):
            return recv.limit_denominator(*args)
        if isinstance(recv, AClass) and name == "__subclasses__":
            return [AClass(c) for c in self.repo.subclasses(recv.ci)]
        if isinstance(recv, (set, frozenset)) and name in ("issubset", "issuperset", "union", "intersection") \
                and args and isinstance(args[0], (set, frozenset, list, tuple)):
            return getattr(recv, name)(set(args[0]))
        if isinstance(recv, str) and name == "join" and args and isinstance(args[0], (list, tuple)) and _has_abs(args[0]):
            return Opaque("join", args)
        if isinstance(recv, str) and name == "format" and (_has_abs(args) or _has_abs(list(kwargs.values()))):
            return Opaque("format", list(args))
        if isinstance(recv, AObj) and recv.cls is not None:
            m = self.repo.find_method(recv.cls, name)
            if m is not None:
                key = "%s.%s" % (m.module.name, m.qualname)
                decos = {d.id for d in getattr(m.node, "decorator_list", []) if isinstance(d, ast.Name)}
                # a static method gets no receiver, a class method gets the class
                first = [] if "staticmethod" in decos else ([AClass(recv.cls)] if "classmethod" in decos else [recv])
                if key in self.summaries:
                    return self.summaries[key](self, first + list(args), kwargs, node)
                if self.inline:
                    return self.call_function(m, first + list(args), kwargs, node)
            self.events.append(("method", "%s.%s" % (recv.name, name), args, node))
            return Opaque("method:%s" % name, [recv] + list(args))
        if isinstance(recv, list):
            if name in ("append", "extend", "insert", "reverse", "pop", "remove"):
                self.sorted_ids.discard(id(recv))
                self.events.append(("mutate:" + name, recv, list(args), node))
            if name == "append":
                recv.append(args[0]); return None
            if name == "extend":
                recv.extend(args[0]); return None
            if name == "insert" and isinstance(args[0], int):
                recv.insert(args[0], args[1]); return None
            if name == "reverse":
                recv.reverse(); return None
            if name == "pop":
                return recv.pop(*[a for a in args if isinstance(a, int)])
            def _same(x, y):
                if x is y:
                    return True
                if isinstance(x, AObj) or isinstance(y, AObj):
                    return self.compare(ast.Eq, x, y, node)
                return self.equal(x, y, node)
            if name == "index":
                for i, x in enumerate(recv):
                    if _same(x, args[0]):
                        return i
                raise RaiseEx("ValueError", node)
            if name == "count":
                return sum(1 for x in recv if _same(x, args[0]))
            if name == "remove":
                for i, x in enumerate(recv):
                    if _same(x, args[0]):
                        del recv[i]
                        return None
                raise RaiseEx("ValueError", node)
            if name == "copy":
                return list(recv)
            if name == "clear":
                del recv[:]
                return None
            if name == "sort" and not _has_abs(recv):
                recv.sort(**kwargs) if not kwargs else recv.sort(); self.sorted_ids.add(id(recv)); return None
            if name == "sort" and not kwargs and self._sortable_objects(recv):
                recv[:] = self._sorted_objects(recv, node)
                self.events.append(("sort", recv, None, node))
                self.sorted_ids.add(id(recv))
                return None
            if name == "sort":
                if kwargs.get("key") is not None:
                    keys = [self.call(kwargs["key"], [x], {}, node) for x in recv]
                    self.events.append(("sort-key", recv, keys, node))
                    self.sort_keys[id(recv)] = keys
                else:
                    self.events.append(("sort", recv, None, node))
                self.sorted_ids.add(id(recv))
                return None
        if isinstance(recv, dict):
            if name == "keys":
                return list(recv.keys())
            if name == "values":
                return list(recv.values())
            if name == "items":
                return [tuple(kv) for kv in recv.items()]
            if name in ("get", "setdefault", "pop"):
                k = simplify_str(args[0])
                if isinstance(k, AbsStr) and k.is_concrete():
                    k = k.concrete()
                if not _has_abs(k):
                    if name == "get":
                        return recv.get(k, args[1] if len(args) > 1 else None)
                    if name == "setdefault":
                        return recv.setdefault(k, args[1] if len(args) > 1 else None)
                    if k in recv:
                        return recv.pop(k)
                    if len(args) > 1:
                        return args[1]
                    raise RaiseEx("KeyError", node)
                if name == "get" and isinstance(k, (AbsStr, Ch)) and all(isinstance(kk, str) for kk in recv):
                    # an abstract text as key: it is one of the entries it can be equal to, or none of them
                    for kk in list(recv):
                        if self.equal(k, kk, node):
                            return recv[kk]
                    return args[1] if len(args) > 1 else None
                if name == "get" and Lin.of(k) is not None and all(isinstance(kk, int) and not isinstance(kk, bool) for kk in recv):
                    # a symbolic integer key: one path per entry it can be, one for "none of them"
                    for kk in sorted(recv):
                        lo_, hi_ = self.lin_interval(Lin.of(k))
                        if lo_ <= kk <= hi_ and self.compare_lin(ast.Eq, Lin.of(k), kk):
                            return recv[kk]
                    return args[1] if len(args) > 1 else None
                if name == "setdefault":
                    # abstract key (e.g. a malformed-input class): remember the entry under the abstract value's identity
                    for kk in list(recv):
                        if kk is k:
                            return recv[kk]
                    recv[_AbsKey(k)] = args[1] if len(args) > 1 else None
                    return recv[[kk for kk in recv if isinstance(kk, _AbsKey) and kk.value is k][0]]
            if name == "update" and args and isinstance(args[0], dict):
                recv.update(args[0]); return None
            if name == "copy":
                return dict(recv)
            if name == "clear":
                recv.clear(); return None
        if isinstance(recv, set) and not _has_abs(list(recv)) and not _has_abs(args) and name in (
                "add", "discard", "remove", "update", "clear", "copy", "pop", "union", "intersection", "difference", "issubset", "issuperset", "isdisjoint"):
            try:
                hash(tuple(args)) if name in ("add", "discard", "remove") else None
                return getattr(recv, name)(*args)
            except KeyError:
                raise RaiseEx("KeyError", node)
            except TypeError:
                raise RaiseEx("TypeError", node)
        if isinstance(recv, (bytes, str)) and name == "join" and len(args) == 1 and isinstance(args[0], (list, tuple)) \
                and any(not isinstance(x_, (bytes, bytearray, str)) for x_ in args[0]) and not isinstance(recv, AbsStr) \
                and (isinstance(recv, bytes) or not _has_abs(list(args[0])) or True):
            # sep.join(parts) with abstract parts: the parts added up, the separator between them
            parts = list(args[0])
            acc = parts[0] if parts else recv[:0]
            for x_ in parts[1:]:
                if len(recv):
                    acc = self.binop(ast.Add, acc, recv, node)
                acc = self.binop(ast.Add, acc, x_, node)
            return acc
        if isinstance(recv, (bytes, bytearray)) and not _has_abs(args) and name in (
                "join", "decode", "hex", "startswith", "endswith", "find", "index", "count", "replace", "split", "strip"):
            try:
                return getattr(recv, name)(*args)
            except (ValueError, TypeError) as e:
                raise RaiseEx(type(e).__name__, node)
        if isinstance(recv, str) and not _has_abs(args):
            try:
                return getattr(recv, name)(*args)
            except AttributeError:
                raise RaiseEx("AttributeError", node)
            except (ValueError, TypeError) as e:
                raise RaiseEx(type(e).__name__, node)
        if isinstance(recv, (Ch, AbsStr)):
            return self.str_method(recv, name, args, node)
        if isinstance(recv, int) and not isinstance(recv, bool) and name in ("bit_length", "to_bytes", "bit_count", "conjugate") and not _has_abs(args):
            try:
                return getattr(recv, name)(*args, **kwargs)
            except (ValueError, TypeError, OverflowError) as e:
                raise RaiseEx(type(e).__name__, node)
        if isinstance(recv, Opaque):
            self.events.append(("method", "?." + name, args, node))
            return Opaque("method:%s" % name, [recv] + list(args))
        if isinstance(recv, (list, dict, tuple, str, int, float, bytes, set)) and not hasattr(type(recv), name):
            raise RaiseEx("AttributeError", node)
        if isinstance(recv, AObj) and recv.cls is not None and self.repo.find_method(recv.cls, name) is None and name not in recv.attrs:
            raise RaiseEx("AttributeError", node)
        raise CannotDecide("method %s on %r" % (name, recv))

    def _find_in_absstr(self, recv, pat, last):
        """Position (int or Lin) of the first / last occurrence of the literal ``pat`` in an abstract string, or -1; the
        abstract pieces must be known not to contain any character of the pattern (else CannotDecide)."""
        v = self.norm_str(recv if isinstance(recv, AbsStr) else AbsStr([recv]))
        pset = set(pat)
        pos = Lin({}, 0)
        found = None
        for a in v.atoms:
            if isinstance(a, str):
                j = a.rfind(pat) if last else a.find(pat)
                if j != -1 and (found is None or last):
                    found = pos + j
                    if not last:
                        break
                pos = pos + len(a)
                continue
            if isinstance(a, Ch):
                r = a.contains_only(sorted(pset))
                if r is not False:
                    if r is True and len(pat) == 1:
                        if found is None or last:
                            found = pos
                        if not last:
                            break
                        pos = pos + 1
                        continue
                    raise CannotDecide("find(%r) over %r" % (pat, a))
                pos = pos + 1
                continue
            if isinstance(a, Run):
                for c in a.classes:
                    if c.contains_only(sorted(pset)) is not False:
                        raise CannotDecide("find(%r) may match inside %r" % (pat, a))
                    pos = pos + Lin.of(a.count[c.name])
                continue
            if _is_rep(a):
                if set(a.lit) & pset:
                    raise CannotDecide("find(%r) may match inside %r" % (pat, a))
                pos = pos + a.count.scale(len(a.lit))
                continue
            raise CannotDecide("find(%r) over %r" % (pat, a))
        if found is None:
            return -1
        return int(found.const) if found.is_const() else _norm_lin(found)

    def str_method(self, recv, name, args, node):
        if name in ("find", "rfind", "index", "rindex") and len(args) == 1 and isinstance(args[0], str) and args[0]:
            r = self._find_in_absstr(recv, args[0], last=name.startswith("r"))
            if r == -1 and isinstance(r, int) and name.endswith("index"):
                raise RaiseEx("ValueError", node)
            return r
        if name in ("partition", "rpartition") and len(args) == 1 and isinstance(args[0], str) and len(args[0]) == 1:
            sep = args[0]
            units = list(self.norm_str(recv if isinstance(recv, AbsStr) else AbsStr([recv])).units())
            order = range(len(units)) if name == "partition" else range(len(units) - 1, -1, -1)
            for k in order:
                a = units[k]
                if isinstance(a, str):
                    hit = (a == sep)
                elif isinstance(a, Ch):
                    hit = a.contains_only([sep])
                elif isinstance(a, Run):
                    rs = [c.contains_only([sep]) for c in a.classes]
                    hit = False if all(r is False for r in rs) else None
                elif _is_rep(a):
                    hit = False if sep not in a.lit else None
                else:
                    hit = None
                if hit is None:
                    raise CannotDecide("%s(%r) at %r" % (name, sep, a))
                if hit:
                    before, after = units[:k], units[k + 1:]
                    mk_ = lambda xs: (simplify_str(AbsStr(xs)) if xs else "")
                    return (mk_(before), sep, mk_(after))
            whole = simplify_str(recv) if isinstance(recv, AbsStr) else recv
            return (whole, "", "") if name == "partition" else ("", "", whole)
        if name in ("strip", "lstrip", "rstrip") and len(args) == 1 and isinstance(args[0], str) and args[0]:
            # characters of a known set are taken off the ends: an atom goes when all it can be is in the set, the walk
            # stops at an atom none of whose characters is in it; anything in between cannot be decided
            chars = set(args[0])
            atoms = list(self.norm_str(recv if isinstance(recv, AbsStr) else AbsStr([recv])).units())
            fresh = [0]

            def eat(seq):
                out = list(seq)
                while out:
                    a = out[0]
                    if isinstance(a, str):
                        if a in chars:
                            out.pop(0)
                            continue
                        return out
                    if isinstance(a, Ch):
                        r = a.contains_only(chars)
                        if r is True:
                            out.pop(0)
                            continue
                        if r is False:
                            return out
                        raise CannotDecide("%s(%r) at %r" % (name, args[0], a))
                    if isinstance(a, Run):
                        rs = [c.contains_only(chars) for c in a.classes]
                        if all(r is True for r in rs):
                            out.pop(0)
                            continue
                        if all(r is False for r in rs):
                            # the run stays if it is not empty; if it is empty the walk goes on behind it
                            total = Lin({}, 0)
                            for sy in a.count.values():
                                total = total + Lin.of(sy)
                            if self.compare_lin(ast.Eq, total, 0):
                                out.pop(0)
                                continue
                            return out
                        outs = [c for c, r in zip(a.classes, rs) if r is False]
                        if all(r is not None for r in rs) and len(outs) == 1:
                            # characters of the set and one class outside it, in any order: nothing but the set's
                            # characters (then the run goes), or the walk stops at the first character of that class
                            # and what follows it is again any mixture (a new run; its counts are not related back)
                            if self.compare_lin(ast.Eq, Lin.of(a.count[outs[0].name]), 0):
                                out.pop(0)
                                continue
                            fresh[0] += 1
                            return [outs[0], Run("%s~%d" % (a.name, fresh[0]), a.classes)] + out[1:]
                        raise CannotDecide("%s(%r) at %r" % (name, args[0], a))
                    raise CannotDecide("%s(%r) at %r" % (name, args[0], a))
                return out
            if name in ("strip", "lstrip"):
                atoms = eat(atoms)
            if name in ("strip", "rstrip"):
                atoms = list(reversed(eat(list(reversed(atoms)))))
            return simplify_str(AbsStr(atoms)) if atoms else ""
        if isinstance(recv, Ch) and name in ("lower", "upper", "islower", "isupper") and recv.members is not None:
            if name in ("islower", "isupper"):
                vals = {getattr(c, name)() for c in recv.members}
                if len(vals) == 1:
                    return vals.pop()
                raise CannotDecide("partition too coarse: %r.%s()" % (recv, name))
            mapped = frozenset(getattr(c, name)() for c in recv.members)
            if len(recv.members) == 1:
                return next(iter(mapped))
            return Ch("%s.%s" % (recv.name, name), mapped)
        if isinstance(recv, Ch) and name in ("islower", "isupper") and recv.members is None:
            # a complement class (everything but finitely many characters) has members of both kinds
            return self.fork("%s.%s()" % (recv.name, name))
        if isinstance(recv, Ch) and name in ("lower", "upper") and recv.members is None:
            E = recv.excluded
            if all(c.upper() in E and c.lower() in E for c in E):
                return recv
        if name == "count" and len(args) in (2, 3) and isinstance(args[0], str) and len(args[0]) == 1 \
                and all(a is None or (isinstance(a, int) and not isinstance(a, bool)) for a in args[1:]):
            # s.count(c, start[, end]) == s[start:end].count(c)
            part = self.slice(recv, args[1], args[2] if len(args) == 3 else None, None, node)
            if isinstance(part, str):
                return part.count(args[0])
            return self.str_method(part, "count", [args[0]], node)
        if name == "count" and len(args) == 1 and isinstance(args[0], str) and len(args[0]) == 1:
            c, total = args[0], Lin({}, 0)
            recv2 = self.norm_str(recv if isinstance(recv, AbsStr) else AbsStr([recv]))
            for a in recv2.atoms:
                if isinstance(a, str):
                    total = total + a.count(c)
                elif isinstance(a, Ch):
                    r = a.contains_only([c])
                    if r is None:
                        raise CannotDecide("count(%r) over %r" % (c, a))
                    total = total + (1 if r else 0)
                elif isinstance(a, Run):
                    for cl in a.classes:
                        r = cl.contains_only([c])
                        if r is None:
                            raise CannotDecide("count(%r) over %r" % (c, a))
                        if r:
                            total = total + Lin.of(a.count[cl.name])
                elif _is_rep(a):
                    total = total + a.count.scale(a.lit.count(c))
                else:
                    raise CannotDecide("count(%r) over %r" % (c, a))
            return total.const if total.is_const() else total
        if name in ("endswith", "startswith") and len(args) == 1 and isinstance(args[0], str) and len(args[0]) == 1:
            recv2 = recv if isinstance(recv, AbsStr) else AbsStr([recv])
            if not any(isinstance(a, (str, Ch)) for a in recv2.atoms):
                n = self.call_builtin("len", [recv2], {}, node)
                if not self.compare(ast.GtE, n, 1, node):
                    return False
            return self.equal(self.index(recv2, -1 if name == "endswith" else 0, node), args[0], node)
        if name in ("endswith", "startswith") and len(args) == 1 and isinstance(args[0], tuple) and all(isinstance(x, str) and len(x) == 1 for x in args[0]):
            recv2 = recv if isinstance(recv, AbsStr) else AbsStr([recv])
            if not any(isinstance(a, (str, Ch)) for a in recv2.atoms):
                n = self.call_builtin("len", [recv2], {}, node)
                if not self.compare(ast.GtE, n, 1, node):
                    return False
            ch = self.index(recv2, -1 if name == "endswith" else 0, node)
            return any(self.equal(ch, x, node) for x in args[0])
        if name == "split" and len(args) == 1 and isinstance(args[0], str) and len(args[0]) == 1:
            sep = args[0]
            recv2 = self.norm_str(recv if isinstance(recv, AbsStr) else AbsStr([recv]))
            parts, cur = [], []
            for a in recv2.atoms:
                if isinstance(a, str):
                    segs = a.split(sep)
                    cur.append(segs[0])
                    for sg in segs[1:]:
                        parts.append(cur)
                        cur = [sg]
                    continue
                if isinstance(a, Ch) and a.contains_only([sep]) is not False:
                    raise CannotDecide("split(%r) over %r" % (sep, a))
                if isinstance(a, Run) and any(c.contains_only([sep]) is not False for c in a.classes):
                    raise CannotDecide("split(%r) over %r" % (sep, a))
                if _is_rep(a) and sep in a.lit:
                    raise CannotDecide("split(%r) over %r" % (sep, a))
                cur.append(a)
            parts.append(cur)
            return [simplify_str(AbsStr(p_)) if not AbsStr(p_).is_concrete() else AbsStr(p_).concrete() for p_ in parts]
        if name in ("islower", "isupper") and isinstance(recv, AbsStr):
            u = self.norm_str(recv).units()
            defs = [x for x in u if isinstance(x, str)]
            if name == "islower" and any(c.isupper() for c in defs):
                return False
            if name == "isupper" and any(c.islower() for c in defs):
                return False
            raise CannotDecide("%s() of %r" % (name, recv))
        if name == "replace" and len(args) in (2, 3) and isinstance(args[0], str) and isinstance(args[1], str) and args[0] \
                and (len(args) == 2 or (isinstance(args[2], int) and not isinstance(args[2], bool))):
            recv2 = recv if isinstance(recv, AbsStr) else AbsStr([recv])
            pat = set(args[0])
            left = args[2] if len(args) == 3 and args[2] >= 0 else None  # occurrences still to be replaced (None: all)
            out = []
            for a in recv2.atoms:
                if isinstance(a, str):
                    if left is None:
                        out.append(a.replace(args[0], args[1]))
                    else:
                        out.append(a.replace(args[0], args[1], left))
                        left -= min(left, a.count(args[0]))
                    continue
                chars = set()
                if isinstance(a, Ch):
                    if a.members is None:
                        if not pat <= a.excluded:
                            raise CannotDecide("replace(%r) over %r" % (args[0], a))
                    else:
                        chars = set(a.members)
                elif isinstance(a, Run):
                    for c in a.classes:
                        if c.members is None:
                            if not pat <= c.excluded:
                                raise CannotDecide("replace(%r) over %r" % (args[0], a))
                        else:
                            chars |= set(c.members)
                elif _is_rep(a):
                    chars = set(a.lit)
                else:
                    raise CannotDecide("replace over %r" % (a,))
                if chars & pat:
                    raise CannotDecide("replace(%r) may match inside %r" % (args[0], a))
                out.append(a)
            return simplify_str(AbsStr(out))
        if name == "capitalize":
            u = (recv if isinstance(recv, AbsStr) else AbsStr([recv])).units()
            if u and not any(isinstance(x, (Run, Rep)) for x in u):
                first = self.str_method(u[0], "upper", [], node) if isinstance(u[0], Ch) else u[0].upper()
                rest = [self.str_method(x, "lower", [], node) if isinstance(x, Ch) else x.lower() for x in u[1:]]
                return simplify_str(AbsStr([first] + rest))
        if isinstance(recv, AbsStr) and name in ("lower", "upper"):
            out = []
            for a in recv.atoms:
                if isinstance(a, str):
                    out.append(getattr(a, name)())
                elif isinstance(a, Ch):
                    out.append(self.str_method(a, name, args, node))
                elif isinstance(a, Run) and all(c.members is not None and all(getattr(m_, name)() == m_ for m_ in c.members) for c in a.classes):
                    out.append(a)
                elif _is_rep(a) and getattr(a.lit, name)() == a.lit:
                    out.append(a)
                elif _is_rep(a):
                    out.append(Rep(getattr(a.lit, name)(), a.count))
                elif isinstance(a, Run) and all(c.members is not None and len(c.members) == 1 for c in a.classes):
                    # every character of the run rendered through the case mapping, in order
                    from .absval import MappedRun
                    out.append(MappedRun(a, {c.name: getattr(next(iter(c.members)), name)() for c in a.classes}))
                else:
                    raise CannotDecide("string method %s on %r" % (name, recv))
            return simplify_str(AbsStr(out))
        raise CannotDecide("string method %s on %r" % (name, recv))

    def call_builtin(self, name, args, kwargs, node=None):
        args = [_unlin(a) for a in args]
        if name in ("text_type", "ext:six.text_type"):
            name = "str"
        if name in ("enumerate", "zip", "list", "tuple", "sorted", "reversed", "any", "all", "sum", "min", "max") \
                and any(isinstance(a, AObj) and a.cls is not None and (self.repo.find_method(a.cls, "__getitem__") or self.repo.find_method(a.cls, "__iter__")) for a in args):
            args = [self.iterate(a, node) if (isinstance(a, AObj) and a.cls is not None and (self.repo.find_method(a.cls, "__getitem__") or self.repo.find_method(a.cls, "__iter__"))) else a for a in args]
        if name == "object.__init__":
            return None
        if args and isinstance(args[0], LazyComp):
            lc = args[0]
            acc = ast.Name(id="__acc", ctx=ast.Load())
            if name == "sum":
                start = args[1] if len(args) > 1 else kwargs.get("start", 0)
                return lc.run(self, start, lambda elt: [_acc_assign(ast.BinOp(left=acc, op=ast.Add(), right=elt))])
            if name == "len":
                return lc.run(self, 0, lambda elt: [ast.Expr(value=elt), _acc_assign(ast.BinOp(left=acc, op=ast.Add(), right=ast.Constant(value=1)))])
            if name in ("list", "tuple") and len(args) == 1:
                return lc
            if name == "all":
                return lc.run(self, True, lambda elt: [ast.If(test=ast.UnaryOp(op=ast.Not(), operand=elt),
                                                               body=[_acc_assign(ast.Constant(value=False)), ast.Break()], orelse=[])])
            if name == "any":
                return lc.run(self, False, lambda elt: [ast.If(test=elt, body=[_acc_assign(ast.Constant(value=True)), ast.Break()], orelse=[])])
            if name in ("set", "frozenset"):
                return ACharSet(lc.run(self, "", lambda elt: [_acc_assign(ast.BinOp(left=acc, op=ast.Add(), right=elt))]))
            raise CannotDecide("%s() of a comprehension over a string of unknown length" % name)
        if name in ("set", "frozenset") and len(args) == 1 and isinstance(simplify_str(args[0]), (AbsStr, Ch)):
            return ACharSet(simplify_str(args[0]))
        if name.startswith("ext:re."):
            from . import regexdom
            r = regexdom.builtin(self, name, args, kwargs, node)
            if r is not NotImplemented:
                return r
        if name in ("ext:six.iteritems", "iteritems") and args and isinstance(args[0], dict):
            return [tuple(kv) for kv in args[0].items()]
        if name in ("ext:six.itervalues", "itervalues") and args and isinstance(args[0], dict):
            return list(args[0].values())
        if name in ("ext:six.iterkeys", "iterkeys") and args and isinstance(args[0], dict):
            return list(args[0].keys())
        if name in ("int", "float") and args and isinstance(args[0], (list, dict, tuple)) or (name in ("int", "float") and args and args[0] is None):
            raise RaiseEx("TypeError", node)
        if name in ("ext:fractions.Fraction", "Fraction") and args and all(isinstance(a, (int, float, str, _Fraction)) and not isinstance(a, bool) for a in args):
            try:
                return _Fraction(*args)
            except (ValueError, ZeroDivisionError, TypeError) as e:
                raise RaiseEx(type(e).__name__, node)
        if name in ("reduce", "ext:functools.reduce") and len(args) >= 2 and isinstance(args[1], (list, tuple)):
            seq = list(args[1])
            if len(args) > 2:
                seq = [args[2]] + seq
            if not seq:
                raise RaiseEx("TypeError", node)
            acc = seq[0]
            for x in seq[1:]:
                acc = self.call(args[0], [acc, x], {}, node)
            return acc
        if name == "id" and args:
            return id(args[0])
        if name == "print":
            return None
        if name in ("ext:binascii.b2a_hex", "b2a_hex") and args and isinstance(args[0], (bytes, bytearray)):
            import binascii as _b
            return _b.b2a_hex(args[0])
        if name == "int" and len(args) == 2 and isinstance(args[0], (str, bytes)) and isinstance(args[1], int):
            try:
                return int(args[0], args[1])
            except ValueError:
                raise RaiseEx("ValueError", node)
        if name in ("ext:copy.deepcopy", "ext:copy.copy", "deepcopy") and args:
            deep = not name.endswith(".copy")

            memo = {}

            def cp(v, top=True):
                if id(v) in memo:
                    return memo[id(v)]
                if isinstance(v, list):
                    r = memo[id(v)] = []
                    r.extend(cp(x, False) if deep else x for x in v)
                    return r
                if isinstance(v, dict):
                    r = memo[id(v)] = {}
                    r.update({k: (cp(x, False) if deep else x) for k, x in v.items()})
                    return r
                if isinstance(v, set):
                    return set(v)
                if isinstance(v, tuple):
                    return tuple(cp(x, False) if deep else x for x in v)
                if isinstance(v, AObj) and (top or deep):
                    # a new object of the same class; its attributes are copied too for a deep copy
                    r = memo[id(v)] = AObj(v.cls, {}, name=v.name)
                    r.attrs.update({k: (cp(x, False) if deep else x) for k, x in v.attrs.items()})
                    return r
                return v
            return cp(args[0])
        if name == "len":
            v = args[0]
            if v is None or isinstance(v, (int, float)) and not isinstance(v, bool):
                raise RaiseEx("TypeError", node)
            if hasattr(v, "a_len"):
                return v.a_len(self)
            if isinstance(v, AObj) and v.cls is not None and self.repo.find_method(v.cls, "__len__") is not None:
                return self.call_method(v, "__len__", [], {}, node)
            if isinstance(v, AObj) and v.cls is not None and not self.repo.find_method(v.cls, "__getattr__"):
                raise RaiseEx("TypeError", node)  # object of this class has no len()
            if isinstance(v, (list, tuple, dict, str, bytes, bytearray, set, frozenset)):
                return len(v)
            if isinstance(v, Ch):
                return 1
            if isinstance(v, AbsStr):
                total = Lin({}, 0)
                for a in v.atoms:
                    if isinstance(a, str):
                        total = total + len(a)
                    elif isinstance(a, Ch):
                        total = total + 1
                    elif isinstance(a, Run):
                        for s in a.count.values():
                            total = total + Lin.of(s)
                    elif _is_rep(a):
                        total = total + a.count.scale(len(a.lit))
                    elif hasattr(a, "a_len"):
                        total = total + Lin.of(a.a_len(self))
                    else:
                        return Opaque("len", args)
                return _norm_lin(total)
            return Opaque("len", args)
        if name == "range":
            if any(isinstance(a, float) for a in args):
                raise RaiseEx("TypeError", node)  # 'float' object cannot be interpreted as an integer
            if all(isinstance(a, int) for a in args):
                return list(range(*args))
            lins = [Lin.of(a) if not isinstance(a, (str, bool)) else None for a in args]
            if 1 <= len(args) <= 2 and all(l is not None for l in lins):
                return ARange(Lin({}, 0) if len(args) == 1 else lins[0], lins[-1])
            return Opaque("range", args)
        if name in ("list", "tuple"):
            if not args:
                return [] if name == "list" else ()
            v = args[0]
            if isinstance(v, (list, tuple)):
                return list(v) if name == "list" else tuple(v)
            if isinstance(v, dict):
                return list(v.keys())
            if isinstance(v, str):
                return list(v)
            if isinstance(v, AIter):
                it = v.items
                if isinstance(it, RepList):
                    return it
                out = list(it) if name == "list" else tuple(it)
                del it[:]  # consumed
                return out
            if isinstance(v, RepList):
                return RepList(v.head, v.period, v.count, v.tail)
            if isinstance(v, (set, frozenset)):
                return sorted(v, key=repr)
            if isinstance(v, ABuiltin) and v.name.split(".")[-1] in ("string_types", "integer_types", "binary_type", "text_type"):
                # six's tuples of types: kept as the one name isinstance() knows
                return (v,) if name == "tuple" else [v]
            return Opaque(name, args)
        if name in ("any", "all") and args and isinstance(args[0], (list, tuple)):
            for x in args[0]:
                t = self.truth(x, node)
                if name == "any" and t:
                    return True
                if name == "all" and not t:
                    return False
            return name == "all"
        if name in ("enumerate", "zip", "map", "filter"):
            # normalise finite iterables (strings, dicts, sets, iterators with known items, abstract strings without runs)
            first = 0 if name in ("enumerate", "zip") else 1
            conv = list(args)
            for i in range(first, len(conv) if name in ("zip", "map") else min(len(conv), first + 1)):
                v = simplify_str(conv[i])
                if isinstance(v, (str, dict, set, frozenset, Ch)) or (isinstance(v, AIter) and isinstance(v.items, list)) \
                        or (isinstance(v, AbsStr) and not (v.has_run() or any(_is_rep(a) for a in v.atoms))) \
                        or (isinstance(v, AObj) and v.cls is not None and (self.repo.find_method(v.cls, "__iter__") or self.repo.find_method(v.cls, "__getitem__"))):
                    conv[i] = self.iterate(v, node)
                elif name == "enumerate" and isinstance(v, AbsStr):
                    start = args[1] if len(args) > 1 else kwargs.get("start", 0)
                    return AEnumerate(self.norm_str(v), start)
            args = conv
        if name == "type" and len(args) == 1:
            v = args[0]
            if isinstance(v, AObj) and v.cls is not None:
                return AClass(v.cls)
            for pyt in (bool, int, float, str, list, tuple, dict, set, frozenset, bytes, type(None)):
                if type(v) is pyt:
                    return ABuiltin(pyt.__name__ if pyt is not type(None) else "NoneType")
            if isinstance(v, Lin):
                return ABuiltin("int")
            if isinstance(v, (AbsStr, Ch)):
                return ABuiltin("str")
        if name == "bool" and len(args) == 1 and _has_abs(args[0]):
            return self.truth(args[0], node)
        if name == "dict":
            out = {}
            if args:
                src = args[0]
                if isinstance(src, AIter) and isinstance(src.items, list):
                    src = src.items
                if isinstance(src, dict):
                    out.update(src)
                elif isinstance(src, (list, tuple)) and all(isinstance(p_, (list, tuple)) and len(p_) == 2 for p_ in src):
                    for k_, v_ in src:
                        k_ = _unlin(simplify_str(k_))
                        if isinstance(k_, AbsStr) and k_.is_concrete():
                            k_ = k_.concrete()
                        try:
                            hash(k_)
                        except TypeError:
                            raise RaiseEx("TypeError", node)
                        out[k_] = v_
                else:
                    return Opaque("builtin:dict", args)
            out.update(kwargs)
            return out
        if name == "enumerate" and isinstance(args[0], (list, tuple)):
            start = args[1] if len(args) > 1 and isinstance(args[1], int) else kwargs.get("start", 0)
            return [(i + start, x) for i, x in enumerate(args[0])]
        if name == "zip" and all(isinstance(a, (list, tuple)) for a in args):
            return [tuple(t) for t in zip(*args)]
        if name == "map" and len(args) == 2 and isinstance(args[1], (list, tuple)):
            return [self.call(args[0], [x], {}, node) for x in args[1]]
        if name == "filter" and len(args) == 2 and isinstance(args[1], (list, tuple)):
            return [x for x in args[1] if (self.truth(x, node) if args[0] is None else self.truth(self.call(args[0], [x], {}, node), node))]
        if name == "getattr" and len(args) >= 2 and isinstance(args[1], str):
            try:
                return self.getattr(args[0], args[1], node)
            except RaiseEx:
                if len(args) == 3:
                    return args[2]
                raise
        if name in ("sorted", "min", "max") and args and isinstance(args[0], (list, tuple)) and "key" in kwargs and not _has_abs(args[0]):
            keyed = [(self.call(kwargs["key"], [x], {}, node), x) for x in args[0]]
            if not _has_abs([k_ for k_, _x in keyed]):
                if name == "sorted":
                    return [x for k_, x in sorted(keyed, key=lambda kv: kv[0], reverse=bool(kwargs.get("reverse", False)))]
                return (min if name == "min" else max)(keyed, key=lambda kv: kv[0])[1]
        if name == "sorted" and args and isinstance(args[0], (list, tuple)) and not _has_abs(args[0]) and set(kwargs) <= {"reverse"}:
            return sorted(args[0], reverse=bool(kwargs.get("reverse", False)))
        if name == "divmod" and len(args) == 2 and _has_abs(args) and all(Lin.of(x) is not None for x in args):
            return (self.binop(ast.FloorDiv, args[0], args[1], node), self.binop(ast.Mod, args[0], args[1], node))
        if name in ("combinations", "ext:itertools.combinations") and len(args) == 2 and isinstance(args[0], (list, tuple)) and isinstance(args[1], int):
            import itertools as _it
            return AIter([tuple(c) for c in _it.combinations(list(args[0]), args[1])])
        if name in ("chain", "ext:itertools.chain", "ext:itertools.chain.from_iterable", "from_iterable"):
            parts = list(args) if name in ("chain", "ext:itertools.chain") else (self.iterate(args[0], node) if args else [])
            out_ = []
            for p_ in parts:
                out_.extend(self.iterate(p_, node))
            return AIter(out_)
        if name in ("bisect_left", "bisect_right", "bisect", "ext:bisect.bisect_left", "ext:bisect.bisect_right", "ext:bisect.bisect") \
                and len(args) >= 2 and isinstance(args[0], (list, tuple)) and not _has_abs(list(args[0])):
            # position in a sorted concrete list: the number of leading entries below (not above) the value -- one
            # comparison per entry, each decided (or split) by the value's own domain
            seq, x = list(args[0]), args[1]
            lo_ = args[2] if len(args) > 2 else 0
            hi_ = args[3] if len(args) > 3 else len(seq)
            if not (isinstance(lo_, int) and isinstance(hi_, int)):
                raise CannotDecide("bisect bounds %r %r" % (lo_, hi_))
            op_ = ast.Lt if name.endswith("bisect_left") else ast.LtE
            pos = lo_
            while pos < hi_ and self.compare(op_, seq[pos], x, node):
                pos += 1
            return pos
        if name == "object" and not args:
            return AObj(None, {}, name="object()")
        if name in ("groupby", "ext:itertools.groupby") and args and isinstance(args[0], (list, tuple, AIter)):
            src = args[0]
            if isinstance(src, AIter):
                if not isinstance(src.items, list):
                    raise CannotDecide("groupby over %r" % (src,))
                items = list(src.items)
                del src.items[:]
            else:
                items = list(src)
            kf = args[1] if len(args) > 1 else kwargs.get("key")
            groups = []
            for x in items:
                kx = self.call(kf, [x], {}, node) if kf is not None else x
                if _has_abs(kx):
                    raise CannotDecide("groupby key %r" % (kx,))
                if groups and groups[-1][0] == kx:
                    groups[-1][1].append(x)
                else:
                    groups.append((kx, [x]))
            return AIter([(k_, AIter(g_)) for k_, g_ in groups])
        if name in ("methodcaller", "ext:operator.methodcaller") and args and isinstance(args[0], str):
            return AMethodCaller(args[0], list(args[1:]), dict(kwargs))
        if name in ("tuple", "list") and len(args) == 1 and isinstance(args[0], ABuiltin) and args[0].name.split(".")[-1] in ("string_types", "integer_types"):
            return (args[0],) if name == "tuple" else [args[0]]
        if name == "divmod" and len(args) == 2 and not _has_abs(args):
            return divmod(*args)
        if name == "reversed" and isinstance(args[0], (list, tuple)):
            return AIter(list(reversed(args[0])))
        if name == "reversed" and isinstance(args[0], RepList):
            return AIter(args[0].reversed())
        if name == "iter" and isinstance(args[0], (list, tuple)):
            return AIter(list(args[0]))
        if name == "iter" and isinstance(args[0], str):
            return AIter(list(args[0]))
        if name == "iter" and isinstance(args[0], AIter):
            return args[0]
        if name == "iter" and isinstance(args[0], AbsStr) and all(isinstance(u, (str, Ch)) for u in self.norm_str(args[0]).units()):
            return AIter(list(self.norm_str(args[0]).units()))
        if name == "iter" and isinstance(args[0], AbsStr):
            return AStrIter(args[0])
        if name == "next" and args and isinstance(args[0], AStrIter) and not kwargs:
            it_ = args[0]
            if it_.broken:
                raise CannotDecide("next() on a text iterator a loop was broken out of")
            units = list(self.norm_str(it_.rest).units()) if isinstance(it_.rest, AbsStr) else list(it_.rest)
            if not units:
                if len(args) > 1:
                    return args[1]
                raise RaiseEx("StopIteration", node)
            if isinstance(units[0], (str, Ch)):
                it_.rest = simplify_str(AbsStr(units[1:])) if units[1:] else ""
                return units[0]
            raise CannotDecide("next() at %r" % (units[0],))
        if name in ("list", "tuple") and args and isinstance(args[0], AIter):
            it = args[0].items
            if isinstance(it, RepList):
                return it
            out = list(it) if name == "list" else tuple(it)
            del it[:]  # consumed
            return out
        if name == "list" and args and isinstance(args[0], RepList):
            a0 = args[0]
            return RepList(a0.head, a0.period, a0.count, a0.tail)
        if name in ("set", "frozenset") and (not args or isinstance(args[0], (list, tuple, set, frozenset, str, dict))):
            try:
                return set(args[0]) if args else set()
            except TypeError:
                return Opaque("set", args)
        if name == "super":
            if len(args) == 2 and isinstance(args[0], AClass) and isinstance(args[1], AObj):
                return ASuper(args[0].ci, args[1])
            raise CannotDecide("super() form")
        if name == "sorted" and isinstance(args[0], (list, tuple)) and not _has_abs(args[0]) and not kwargs:
            return sorted(args[0])
        if name == "sorted" and isinstance(args[0], (list, tuple)) and not kwargs and self._sortable_objects(list(args[0])):
            r = self._sorted_objects(list(args[0]), node)
            self.events.append(("sort", r, None, node))
            self.sorted_ids.add(id(r))
            return r
        if name == "sorted" and isinstance(args[0], (list, tuple)):
            r = list(args[0])
            self.events.append(("sort", r, None, node))
            self.sorted_ids.add(id(r))
            return r
        if name == "isinstance":
            return self.isinstance_(args[0], args[1], node)
        if name == "next" and args and isinstance(args[0], (list, tuple, AIter)) and not kwargs:
            # next(<generator expression>, default): generator expressions are evaluated to lists here, so the first
            # element is the answer (only right for an iterator that has not been advanced before -- the only use made of
            # it in this code base: next((x for ...), default))
            items = args[0].items if isinstance(args[0], AIter) else args[0]
            if isinstance(items, list) or isinstance(items, tuple):
                if len(items) > 0:
                    if isinstance(args[0], AIter) and isinstance(items, list):
                        return items.pop(0)  # the iterator moves on
                    return items[0]
                if len(args) > 1:
                    return args[1]
                raise RaiseEx("StopIteration", node)
        if name == "sum" and args and isinstance(args[0], (list, tuple)) and _has_abs(list(args[0]) + list(args[1:])) and not kwargs:
            # a fold with '+': the elements' own arithmetic decides
            acc = args[1] if len(args) > 1 else 0
            for x in args[0]:
                acc = self.binop(ast.Add, acc, x, node)
            return acc
        if name in ("ext:fractions.Fraction", "Fraction") and len(args) == 1 and hasattr(args[0], "a_fraction"):
            return args[0].a_fraction(self, node)
        if name in ("ext:fractions.Fraction", "Fraction") and len(args) == 2:
            from .numdom import ratpart_fraction
            r_ = ratpart_fraction(args)
            if r_ is not NotImplemented:
                return r_
        if name in ("min", "max") and not kwargs and args and (len(args) > 1 or isinstance(args[0], (list, tuple))) \
                and _has_abs(list(args[0]) if len(args) == 1 else list(args)):
            # the smallest / largest by the elements' own '<' (objects with __lt__, symbolic numbers): the first such one
            seq = list(args[0]) if len(args) == 1 else list(args)
            if not seq:
                raise RaiseEx("ValueError", node)
            best = seq[0]
            for x_ in seq[1:]:
                if (self.compare(ast.Lt, x_, best, node) if name == "min" else self.compare(ast.Gt, x_, best, node)):
                    best = x_
            return best
        if name in ("int", "float", "str", "abs", "bool", "min", "max", "sum", "round", "ord", "chr") \
                and not _has_abs(args) and not kwargs:
            try:
                return {"int": int, "float": float, "str": str, "abs": abs, "bool": bool, "min": min,
                        "max": max, "sum": sum, "round": round, "ord": ord, "chr": chr}[name](*args)
            except (ValueError, TypeError, OverflowError) as e:
                raise RaiseEx(type(e).__name__, node)
        if name == "int" and isinstance(args[0], Lin):
            return args[0]
        if name in ("max", "min") and len(args) == 2 and not kwargs and all(Lin.of(a) is not None and not isinstance(a, (str, float)) for a in args) \
                and any(isinstance(a, Lin) for a in args):
            ge = self.compare_lin(ast.GtE, Lin.of(args[0]), Lin.of(args[1]), node)
            first_wins = ge if name == "max" else not ge
            return args[0] if first_wins else args[1]
        if name in ("int", "len", "str", "repr", "float") and args and isinstance(args[0], AObj) and args[0].cls is not None:
            dn = {"int": "__int__", "len": "__len__", "str": "__str__", "repr": "__repr__", "float": "__float__"}[name]
            if self.repo.find_method(args[0].cls, dn) is not None:
                return self.call_method(args[0], dn, [], {}, node)
        if name == "log" and args and all(isinstance(a, (int, float)) for a in args):
            import math
            try:
                return math.log(*args)
            except (ValueError, ZeroDivisionError) as e:
                raise RaiseEx(type(e).__name__, node)
        if name in ("str.lower", "str.upper") and args:
            return self.call_method(args[0], name.split(".")[1], list(args[1:]), {}, node)
        if name == "abs" and isinstance(args[0], Lin):
            lo, hi = self.lin_interval(args[0])
            if lo >= 0:
                return args[0]
            if hi <= 0:
                return -args[0]
            return args[0] if self.compare_lin(ast.GtE, args[0], 0, node) else -args[0]
        if name == "str" and isinstance(args[0], (Ch, AbsStr)):
            return args[0]
        if name == "cycle" and isinstance(args[0], (list, tuple)):
            return ("<cycle>", list(args[0]))
        if name == "islice" and isinstance(args[0], tuple) and args[0] and args[0][0] == "<cycle>" \
                and all(isinstance(a, int) for a in args[1:]) and len(args) == 3:
            base = args[0][1]
            if not base:
                return []
            return [base[i % len(base)] for i in range(args[1], args[2])]
        if name == "islice" and isinstance(args[0], (list, tuple)) and all(isinstance(a, int) for a in args[1:]):
            return list(args[0])[slice(*args[1:])]
        if name == "hasattr" and len(args) == 2 and isinstance(args[1], str):
            o = args[0]
            if isinstance(o, AObj):
                if args[1] in o.attrs:
                    return True
                if o.cls is not None:
                    return any(args[1] in c.methods or args[1] in c.attrs for c in self.repo.mro(o.cls))
                return self.fork("hasattr: %s" % short(node))
            if isinstance(o, (str, int, float, list, tuple, dict, Lin, AbsStr, Ch)) or o is None:
                v0 = {Lin: 0, AbsStr: "", Ch: ""}.get(type(o), o)
                return hasattr(v0, args[1])
            return self.fork("hasattr: %s" % short(node))
        if name == "hasattr":
            return self.fork("hasattr: %s" % short(node))
        if name in _exc_names():
            return AObj(None, {"args": args}, name=name)
        self.events.append(("builtin", name, args, node))
        return Opaque("builtin:" + name, args)

    def isinstance_(self, v, klass, node):
        kinds = klass if isinstance(klass, tuple) else (klass,)
        res = []
        for k in kinds:
            kn = k.name if isinstance(k, ABuiltin) else (k.ci.name if isinstance(k, AClass) else None)
            if kn is None:
                raise CannotDecide("isinstance against %r" % (k,))
            kn = kn.split(".")[-1]
            if kn in ("binary_type", "bytes", "bytearray"):
                res.append(isinstance(v, (bytes, bytearray)) if not isinstance(v, Opaque) else None)
            elif kn in ("string_types", "str", "text_type", "basestring"):
                res.append(isinstance(v, (str, Ch, AbsStr)) if not isinstance(v, Opaque) else None)
            elif kn in ("list", "tuple", "dict", "int", "float", "bool"):
                pyt = {"list": list, "tuple": tuple, "dict": dict, "int": int, "float": float, "bool": bool}[kn]
                if isinstance(v, Opaque):
                    res.append(None)
                elif isinstance(v, Lin):
                    res.append(kn == "int")
                else:
                    res.append(isinstance(v, pyt) and not (kn == "int" and isinstance(v, bool) and False))
            elif isinstance(k, AClass):
                if isinstance(v, AObj) and v.cls is not None:
                    res.append(k.ci in self.repo.mro(v.cls))
                elif isinstance(v, Opaque):
                    res.append(None)
                else:
                    res.append(False)
            else:
                res.append(None)
        if any(r is True for r in res):
            return True
        if all(r is False for r in res):
            return False
        return self.fork("isinstance: %s" % short(node))

    # ---------------------------------------------------------------- comprehensions
    def e_ListComp(self, node, frame):
        if len(node.generators) == 1 and not isinstance(node, ast.DictComp):
            itv = simplify_str(self.eval(node.generators[0].iter, frame))
            if isinstance(itv, AbsStr) and any(isinstance(a, Run) or _is_rep(a) for a in self.norm_str(itv).atoms):
                return LazyComp(node, frame, self.norm_str(itv), isinstance(node, ast.ListComp))
        out = []

        def rec(gi, fr):
            if gi == len(node.generators):
                out.append(self.eval(node.elt, fr))
                return
            g = node.generators[gi]
            it = self.eval(g.iter, fr)
            for item in self.iterate(it, g.iter):
                fr2 = Frame(fr.fi, {}, mod=fr.mod, cls=fr.cls)
                fr2.parent = fr
                self.assign(g.target, item, fr2)
                if all(self.truth(self.eval(c, fr2), c) for c in g.ifs):
                    rec(gi + 1, fr2)
        rec(0, frame)
        return out

    e_GeneratorExp = e_ListComp

    def iterate(self, it, node=None):
        it = _unlin(it)
        if isinstance(it, AObj) and it.cls is not None:
            if self.repo.find_method(it.cls, "__iter__") is not None:
                return self.iterate(self.call_method(it, "__iter__", [], {}, node), node)
            if self.repo.find_method(it.cls, "__getitem__") is not None:
                out = []
                for i in range(self.max_iter):
                    try:
                        out.append(self.call_method(it, "__getitem__", [i], {}, node))
                    except RaiseEx as r:
                        if r.exc == "IndexError":
                            return out
                        raise
                raise CannotDecide("sequence protocol iteration does not end")
        if isinstance(it, AIter) and isinstance(it.items, list):
            out = list(it.items)
            del it.items[:]  # consumed
            return out
        if isinstance(it, (set, frozenset)):
            return sorted(it, key=repr)
        if isinstance(it, (list, tuple)):
            return list(it)
        if isinstance(it, str):
            return list(it)
        if isinstance(it, dict):
            return list(it.keys())
        if isinstance(it, Ch):
            return [it]
        if isinstance(it, AbsStr) and not it.has_run() and not any(_is_rep(a) for a in it.atoms):
            return it.units()
        raise CannotDecide("iteration over %r at %s" % (it, short(node) if node is not None else ""))

    # ---------------------------------------------------------------- statements
    def exec_block(self, stmts, frame):
        for st in stmts:
            self.exec(st, frame)

    def exec(self, st, frame):
        # a budget per evaluation: an analysis that does not come to an end says so (exit 2), it does not hang
        n = self.__dict__.get("_steps", 0) + 1
        self.__dict__["_steps"] = n
        if n > STEP_BUDGET:
            raise CannotDecide("the evaluation did not finish within %d statements (at %s)" % (STEP_BUDGET, short(st)))
        if n % 2000 == 0 and time.monotonic() - self.__dict__.setdefault("_t0", time.monotonic()) > TIME_BUDGET:
            raise CannotDecide("the evaluation did not finish within %d seconds (at %s)" % (TIME_BUDGET, short(st)))
        m = getattr(self, "s_" + type(st).__name__, None)
        if m is None:
            raise CannotDecide("statement %s not supported: %s" % (type(st).__name__, short(st)))
        return m(st, frame)

    def s_Expr(self, st, frame):
        self.eval(st.value, frame)

    def s_Pass(self, st, frame):
        pass

    def s_Assign(self, st, frame):
        v = self.eval(st.value, frame)
        for t in st.targets:
            self.assign(t, v, frame)

    def s_AnnAssign(self, st, frame):
        if st.value is not None:
            self.assign(st.target, self.eval(st.value, frame), frame)

    def s_AugAssign(self, st, frame):
        load = copy.copy(st.target)
        load.ctx = ast.Load()
        cur = self.eval(load, frame)
        v = self.eval(st.value, frame)
        if isinstance(cur, list) and isinstance(st.op, ast.Add) and isinstance(v, list):
            cur.extend(v)
            return
        self.assign(st.target, self.binop(type(st.op), cur, v, st), frame)

    def assign(self, target, v, frame):
        if isinstance(target, ast.Name):
            if target.id in getattr(frame, "globals_", ()):
                self.global_cache[(frame.mod.name, target.id)] = v
                return
            if target.id in getattr(frame, "nonlocals_", ()):
                f = frame.parent
                while f is not None:
                    if target.id in f.locals:
                        f.locals[target.id] = v
                        return
                    f = f.parent
            frame.locals[target.id] = v
        elif isinstance(target, (ast.Tuple, ast.List)):
            vals = self.iterate(v, target)
            if len(vals) != len(target.elts):
                raise RaiseEx("ValueError", target)
            for t, x in zip(target.elts, vals):
                self.assign(t, x, frame)
        elif isinstance(target, ast.Subscript):
            base = self.eval(target.value, frame)
            if isinstance(target.slice, ast.Slice):
                sl = target.slice
                parts = [None if x is None else _unlin(self.eval(x, frame)) for x in (sl.lower, sl.upper, sl.step)]
                if isinstance(base, list) and all(x is None or (isinstance(x, int) and not isinstance(x, bool)) for x in parts):
                    # a concrete list and concrete bounds: the list is changed in place, as in Python
                    try:
                        base[slice(*parts)] = self.iterate(v, target)
                    except ValueError:
                        raise RaiseEx("ValueError", target)
                    return
                raise CannotDecide("slice store")
            idx = _unlin(self.eval(target.slice, frame))
            if isinstance(base, list) and isinstance(idx, int):
                try:
                    base[idx] = v
                except IndexError:
                    raise RaiseEx("IndexError", target)
            elif isinstance(base, dict) and not _has_abs(idx):
                base[idx] = v
            else:
                self.stores.append(("subscript", base, idx, v, target))
        elif isinstance(target, ast.Attribute):
            base = self.eval(target.value, frame)
            hook = getattr(self, "setattr_hook", None)
            if hook is not None:
                v = hook(base, target.attr, v, target)
            if isinstance(base, AObj):
                base.attrs[target.attr] = v
                self.stores.append(("attr", base, target.attr, v, target))
            else:
                self.stores.append(("attr", base, target.attr, v, target))
        else:
            raise CannotDecide("assignment target %s" % short(target))

    def s_Return(self, st, frame):
        raise ReturnEx(self.eval(st.value, frame) if st.value is not None else None)

    def s_Raise(self, st, frame):
        if st.exc is None:
            raise RaiseEx("reraise", st)
        e = st.exc
        name = None
        if isinstance(e, ast.Call):
            name = norm(e.func).split(".")[-1]
            # building the message runs before the raise: a formatting error there is what the caller sees
            for a in list(e.args) + [k.value for k in e.keywords]:
                try:
                    self.eval(a, frame)
                except CannotDecide:
                    pass  # the text of the message is not modelled
        else:
            name = norm(e).split(".")[-1]
        raise RaiseEx(name, st)

    def s_If(self, st, frame):
        if self.truth(self.eval(st.test, frame), st.test):
            self.exec_block(st.body, frame)
        else:
            self.exec_block(st.orelse, frame)

    def s_Break(self, st, frame):
        raise BreakEx()

    def s_Continue(self, st, frame):
        raise ContinueEx()

    def s_FunctionDef(self, st, frame):
        qn = None
        for q, fi in frame.mod.functions.items():
            if fi.node is st:
                qn = fi
        if qn is None:
            qn = FuncInfo(frame.mod, "<local %s>@%d" % (st.name, st.lineno), st)
        if not hasattr(self, "_closure_frames"):
            self._closure_frames = {}
        self._closure_frames[id(st)] = frame
        frame.locals[st.name] = AFunc(qn)

    def s_Global(self, st, frame):
        frame.__dict__.setdefault("globals_", set()).update(st.names)

    def s_Nonlocal(self, st, frame):
        frame.__dict__.setdefault("nonlocals_", set()).update(st.names)

    def s_With(self, st, frame):
        for item in st.items:
            v = self.eval(item.context_expr, frame)
            if item.optional_vars is not None:
                self.assign(item.optional_vars, v, frame)
        self.exec_block(st.body, frame)

    def s_Import(self, st, frame):
        pass

    s_ImportFrom = s_Import

    def s_Assert(self, st, frame):
        pass

    def s_Delete(self, st, frame):
        for t in st.targets:
            if isinstance(t, ast.Subscript):
                base = self.eval(t.value, frame)
                idx = _unlin(self.eval(t.slice, frame)) if not isinstance(t.slice, ast.Slice) else None
                if isinstance(base, (list, dict)) and idx is not None and not _has_abs(idx):
                    del base[idx]
                    continue
            raise CannotDecide("del %s" % short(t))

    def s_Try(self, st, frame):
        try:
            self.exec_block(st.body, frame)
        except RaiseEx as r:
            for h in st.handlers:
                names = []
                if h.type is not None:
                    ts = h.type.elts if isinstance(h.type, ast.Tuple) else [h.type]
                    names = [norm(t).split(".")[-1] for t in ts]
                if h.type is None or r.exc in names or "Exception" in names or "BaseException" in names:
                    self.exec_block(h.body, frame)
                    break
            else:
                self.exec_block(st.finalbody, frame)
                raise
        else:
            self.exec_block(st.orelse, frame)
        self.exec_block(st.finalbody, frame)

    def s_For(self, st, frame):
        from . import absloops
        it = _unlin(self.eval(st.iter, frame))
        if isinstance(it, AStrIter):
            if it.broken:
                raise CannotDecide("loop over a text iterator an earlier loop was broken out of")
            src = it
            it = it.rest
            src.rest = ""
            if any(isinstance(n, ast.Break) for b in st.body for n in ast.walk(b)):
                src.broken = True
            if isinstance(it, str):
                it = list(it)
            elif isinstance(it, AbsStr) and not (it.has_run() or any(_is_rep(a) for a in it.atoms)):
                it = list(self.norm_str(it).units())
        if isinstance(it, AbsStr) and (it.has_run() or any(_is_rep(a) for a in it.atoms)):
            broke = absloops.for_over_absstr(self, st, it, frame)
        elif isinstance(it, AEnumerate) and isinstance(st.target, ast.Tuple) and len(st.target.elts) == 2:
            # for i, c in enumerate(s)  ==  i = start - 1; for c in s: i += 1; body
            # (i keeps start - 1 after an empty loop where Python would leave it unbound: only matters for code that
            #  reads the index after a loop that may not have run)
            idx = st.target.elts[0]
            if not isinstance(idx, ast.Name):
                raise CannotDecide("enumerate target %s" % short(idx))
            start = Lin.of(it.start)
            if start is None:
                raise CannotDecide("enumerate start %r" % (it.start,))
            frame.locals[idx.id] = _norm_lin(start - 1)
            loop = ast.For(target=st.target.elts[1], iter=st.iter, orelse=[], body=[
                ast.AugAssign(target=ast.Name(id=idx.id, ctx=ast.Store()), op=ast.Add(), value=ast.Constant(value=1))] + list(st.body))
            ast.copy_location(loop, st)
            ast.fix_missing_locations(loop)
            broke = absloops.for_over_absstr(self, loop, it.text, frame)
        elif isinstance(it, ARange):
            # for x in range(lo, hi) with a symbolic bound  ==  n = hi - lo; while n > 0: x = hi - n; body; n -= 1
            if any(isinstance(n, (ast.Break, ast.Continue)) for b in st.body for n in ast.walk(b)):
                raise CannotDecide("break / continue in a loop over a symbolic range at %s" % short(st.iter))
            uid = next(_range_ids)
            nn, hn = "__n%d" % uid, "__hi%d" % uid
            frame.locals[nn] = _norm_lin(it.hi - it.lo)
            frame.locals[hn] = it.hi
            uses_target = any(isinstance(n, ast.Name) and isinstance(n.ctx, ast.Load) and n.id in {x.id for x in ast.walk(st.target) if isinstance(x, ast.Name)}
                              for b in st.body for n in ast.walk(b))
            body = list(st.body)
            if uses_target:
                body = [ast.Assign(targets=[st.target], value=ast.BinOp(left=ast.Name(id=hn, ctx=ast.Load()), op=ast.Sub(), right=ast.Name(id=nn, ctx=ast.Load())))] + body
            body = body + [ast.AugAssign(target=ast.Name(id=nn, ctx=ast.Store()), op=ast.Sub(), value=ast.Constant(value=1))]
            loop = ast.While(test=ast.Compare(left=ast.Name(id=nn, ctx=ast.Load()), ops=[ast.Gt()], comparators=[ast.Constant(value=0)]), body=body, orelse=[])
            ast.copy_location(loop, st)
            ast.fix_missing_locations(loop)
            absloops.while_loop(self, loop, frame)
            frame.locals.pop(nn, None)
            frame.locals.pop(hn, None)
            broke = False
        elif isinstance(it, AObj) and it.cls is not None and self.repo.find_method(it.cls, "__iter__") is None \
                and self.repo.find_method(it.cls, "__getitem__") is not None:
            # old-style sequence protocol: __getitem__(0), (1), ... until IndexError, re-evaluated against the object's
            # current state at every step (so a body that shrinks the container makes the walk skip elements)
            broke = False
            i = 0
            while True:
                try:
                    item = self.call_method(it, "__getitem__", [i], {}, st.iter)
                except RaiseEx as r:
                    if r.exc == "IndexError":
                        break
                    raise
                i += 1
                if i > 10000:
                    raise CannotDecide("sequence iteration does not end")
                self.assign(st.target, item, frame)
                try:
                    self.exec_block(st.body, frame)
                except BreakEx:
                    broke = True
                    break
                except ContinueEx:
                    continue
        elif isinstance(it, AIter) and isinstance(it.items, list):
            # an iterator object is consumed as it is walked: what a loop leaves behind (after break) is what the next
            # loop over the same object, or next(), sees
            broke = False
            n_ = 0
            while it.items:
                item = it.items.pop(0)
                n_ += 1
                if n_ > 10000:
                    raise CannotDecide("iterator does not end")
                self.assign(st.target, item, frame)
                try:
                    self.exec_block(st.body, frame)
                except BreakEx:
                    broke = True
                    break
                except ContinueEx:
                    continue
        elif isinstance(it, list):
            # Python's list iterator: index-based, sees mutations of the list made by the body
            broke = False
            i = 0
            while i < len(it):
                item = it[i]
                i += 1
                if i > 10000:
                    raise CannotDecide("list iteration does not end")
                self.assign(st.target, item, frame)
                try:
                    self.exec_block(st.body, frame)
                except BreakEx:
                    broke = True
                    break
                except ContinueEx:
                    continue
        else:
            items = self.iterate(it, st.iter)
            broke = False
            for item in items:
                self.assign(st.target, item, frame)
                try:
                    self.exec_block(st.body, frame)
                except BreakEx:
                    broke = True
                    break
                except ContinueEx:
                    continue
        if not broke:
            self.exec_block(st.orelse, frame)

    def s_While(self, st, frame):
        from . import absloops
        absloops.while_loop(self, st, frame)


_BINDUNDER = {ast.Add: ["__add__"], ast.Sub: ["__sub__"], ast.Mult: ["__mul__"]}
_DUNDER = {ast.Lt: "__lt__", ast.LtE: "__le__", ast.Gt: "__gt__", ast.GtE: "__ge__", ast.Eq: "__eq__", ast.NotEq: "__ne__"}
_REFLECT = {ast.Lt: ast.Gt, ast.LtE: ast.GtE, ast.Gt: ast.Lt, ast.GtE: ast.LtE, ast.Eq: ast.Eq, ast.NotEq: ast.NotEq}
_OPNAME = {ast.Lt: "<", ast.LtE: "<=", ast.Gt: ">", ast.GtE: ">=", ast.Eq: "==", ast.NotEq: "!=",
           ast.In: "in", ast.NotIn: "not in", ast.Is: "is", ast.IsNot: "is not"}

_PYBIN = {
    ast.Add: lambda a, b: a + b, ast.Sub: lambda a, b: a - b, ast.Mult: lambda a, b: a * b,
    ast.Div: lambda a, b: a / b, ast.FloorDiv: lambda a, b: a // b, ast.Mod: lambda a, b: a % b,
    ast.Pow: lambda a, b: a ** b, ast.LShift: lambda a, b: a << b, ast.RShift: lambda a, b: a >> b,
    ast.BitOr: lambda a, b: a | b, ast.BitAnd: lambda a, b: a & b, ast.BitXor: lambda a, b: a ^ b,
}
_PYCMP = {
    ast.Eq: lambda a, b: a == b, ast.NotEq: lambda a, b: a != b, ast.Lt: lambda a, b: a < b,
    ast.LtE: lambda a, b: a <= b, ast.Gt: lambda a, b: a > b, ast.GtE: lambda a, b: a >= b,
}
_BUILTINS = {"len", "range", "list", "tuple", "dict", "set", "sorted", "reversed", "min", "max", "sum",
             "abs", "int", "float", "str", "bool", "enumerate", "zip", "isinstance", "hasattr", "getattr",
             "round", "ord", "chr", "print", "type", "iter", "next", "map", "filter", "open", "bytes",
             "bytearray", "object", "super", "divmod", "pow", "any", "all", "repr", "id", "hex",
             "string_types", "integer_types", "binary_type", "text_type", "cycle", "islice", "log", "pack",
             "a2b_hex", "reduce"}


_GEN_CACHE = {}


class AEnumerate:
    """enumerate(<abstract string of unknown length>, start)."""

    def __init__(self, text, start):
        self.text, self.start = text, start


class ARange:
    """range(lo, hi) with symbolic bounds."""

    def __init__(self, lo, hi):
        self.lo, self.hi = lo, hi

    def a_len(self, interp):
        return _norm_lin(self.hi - self.lo)

    def __repr__(self):
        return "range(%s, %s)" % (self.lo, self.hi)


_range_ids = itertools.count(1)


class ACharSet:
    """set(<abstract string>): only inclusion in / equality with concrete sets of characters is decided."""

    def __init__(self, text):
        self.text = text

    def _subset(self, interp, other, node):
        if not isinstance(other, (set, frozenset)) or not all(isinstance(x, str) and len(x) == 1 for x in other):
            raise CannotDecide("set of characters compared with %r" % (other,))
        t = interp.norm_str(self.text if isinstance(self.text, AbsStr) else AbsStr([self.text]))
        for a in t.atoms:
            if isinstance(a, str):
                if not set(a) <= other:
                    return False
            elif isinstance(a, Ch):
                r = a.contains_only(other)
                if r is None:
                    raise CannotDecide("partition too coarse: %r in %r" % (a, other))
                if not r:
                    return False
            elif isinstance(a, Run):
                for cl in a.classes:
                    r = cl.contains_only(other)
                    if r is None:
                        raise CannotDecide("partition too coarse: %r in %r" % (cl, other))
                    if not r and not interp.compare_lin(ast.Eq, Lin.of(a.count[cl.name]), 0):
                        return False
            elif _is_rep(a):
                if not set(a.lit) <= other and not interp.compare_lin(ast.Eq, a.count, 0):
                    return False
            else:
                raise CannotDecide("set() of %r" % (a,))
        return True

    def a_compare(self, interp, op, other, reflected, node):
        if (op is ast.LtE and not reflected) or (op is ast.GtE and reflected):
            return self._subset(interp, other, node)
        return NotImplemented

    def a_method(self, interp, name, args, kwargs, node):
        if name == "issubset" and len(args) == 1:
            return self._subset(interp, set(args[0]) if isinstance(args[0], (set, frozenset, list, tuple, str)) else args[0], node)
        return NotImplemented

    def __repr__(self):
        return "ACharSet(%r)" % (self.text,)


class LazyComp:
    """A comprehension / generator over an abstract string of unknown length; consumed by sum / all / any / join /
    set-inclusion through a synthetic ``for`` loop that the fold summariser (absloops) handles."""

    def __init__(self, node, frame, iterable, is_list):
        self.node, self.frame, self.iterable, self.is_list = node, frame, iterable, is_list

    def run(self, interp, init, body_of, result_name="__acc"):
        """body_of(elt_expr) -> list of statements using the name __acc; returns the final __acc."""
        from . import absloops
        g = self.node.generators[0]
        body = body_of(self.node.elt)
        for c in reversed(g.ifs):
            body = [ast.If(test=c, body=body, orelse=[])]
        loop = ast.For(target=g.target, iter=g.iter, body=body, orelse=[])
        ast.copy_location(loop, self.node)
        ast.fix_missing_locations(loop)
        fr = Frame(self.frame.fi, {result_name: init}, mod=self.frame.mod, cls=self.frame.cls)
        fr.parent = self.frame
        absloops.for_over_absstr(interp, loop, self.iterable, fr)
        return fr.locals[result_name]

    def __repr__(self):
        return "LazyComp(%s)" % short(self.node, 40)


def _acc_assign(value_expr):
    return ast.Assign(targets=[ast.Name(id="__acc", ctx=ast.Store())], value=value_expr)


def _uninterpreted(v, _d=0):
    if isinstance(v, Opaque) and _d < 6:
        if v.tag.startswith("builtin:") and not getattr(v, "nonnull", False):
            return v
        for d in v.deps:
            u = _uninterpreted(d, _d + 1)
            if u is not None:
                return u
    return None


def _is_generator(fi):
    k = id(fi.node)
    if k not in _GEN_CACHE:
        from .loader import walk_no_nested
        _GEN_CACHE[k] = any(isinstance(n, (ast.Yield, ast.YieldFrom)) for n in walk_no_nested(fi.node))
    return _GEN_CACHE[k]


_LOCALS_CACHE = {}


def _local_names(fi):
    k = id(fi.node)
    if k not in _LOCALS_CACHE:
        names = set(fi.params)
        for n in ast.walk(fi.node):
            if isinstance(n, ast.Name) and isinstance(n.ctx, ast.Store):
                names.add(n.id)
        for n in ast.walk(fi.node):
            if isinstance(n, ast.Global):
                names -= set(n.names)
        _LOCALS_CACHE[k] = names
    return _LOCALS_CACHE[k]


def _exc_names():
    global _EXC_NAMES
    if _EXC_NAMES is None:
        import builtins
        _EXC_NAMES = {n for n in dir(builtins) if n.endswith("Error") or n.endswith("Exception") or n == "StopIteration"}
    return _EXC_NAMES


def _is_rep(a):
    return isinstance(a, Rep)


def _unlin(v):
    if isinstance(v, Lin) and v.is_const():
        return v.const
    return v


def _norm_lin(l):
    if isinstance(l, Lin) and l.is_const():
        return l.const
    return l


def _as_absstr(v):
    if isinstance(v, AbsStr):
        return v
    if isinstance(v, str):
        return AbsStr([v])
    if isinstance(v, Ch):
        return AbsStr([v])
    return None


def _has_abs(v, _d=0):
    if isinstance(v, (AIter, RepList, ASuper)):
        return True
    if hasattr(v, "a_index") or hasattr(v, "a_eq") or hasattr(v, "a_compare") or hasattr(v, "a_method"):
        return True
    if isinstance(v, (Lin, Opaque, Ch, Run, AbsStr, AObj, AFunc, AClass, AModule, ABuiltin, ABound)):
        return True
    if _d < 4 and isinstance(v, (list, tuple)):
        return any(_has_abs(x, _d + 1) for x in v)
    if _d < 4 and isinstance(v, dict):
        return any(_has_abs(x, _d + 1) for x in v.values())
    return False
