"""E5 -- effect / alias helpers (syntactic dataflow over one function)."""
from __future__ import annotations

import ast

from .loader import walk_no_nested, norm, short

MUTATORS = {"append", "extend", "insert", "remove", "pop", "sort", "reverse", "clear", "update", "setdefault",
            "popitem", "add", "discard", "__setitem__", "__delitem__"}
FRESH_CALLS = {"list", "dict", "set", "tuple", "sorted", "copy", "deepcopy", "str", "int", "float"}


def is_mutable_display(node):
    if isinstance(node, (ast.List, ast.Dict, ast.Set, ast.ListComp, ast.DictComp, ast.SetComp)):
        return True
    if isinstance(node, ast.Call) and isinstance(node.func, ast.Name) and node.func.id in ("list", "dict", "set", "bytearray") :
        return True
    return False


def is_fresh_expr(node):
    """Expression that certainly denotes a new object (not an alias of an existing container)."""
    if isinstance(node, (ast.List, ast.Dict, ast.Set, ast.Tuple, ast.ListComp, ast.DictComp, ast.SetComp, ast.Constant, ast.JoinedStr)):
        return True
    if isinstance(node, ast.Call):
        f = node.func
        if isinstance(f, ast.Name) and f.id in FRESH_CALLS:
            return True
        return False
    if isinstance(node, ast.Subscript) and isinstance(node.slice, ast.Slice):
        return True
    if isinstance(node, ast.BinOp) and isinstance(node.op, (ast.Add, ast.Mult)):
        return True
    if isinstance(node, ast.IfExp):
        return is_fresh_expr(node.body) and is_fresh_expr(node.orelse)
    if isinstance(node, ast.Call) and isinstance(node.func, ast.Attribute) and node.func.attr in ("copy", "deepcopy"):
        return True
    return False


def root_name(node):
    """x, x[...], x.attr... -> 'x' (None for other roots)."""
    while isinstance(node, (ast.Subscript, ast.Attribute)):
        node = node.value
    return node.id if isinstance(node, ast.Name) else None


def param_aliases(fi, params):
    """Names that may alias one of ``params`` through plain assignment ``a = p`` / ``a = p if .. else ..``."""
    alias = {p: p for p in params}
    changed = True
    body = list(walk_no_nested(fi.node))
    while changed:
        changed = False
        for n in body:
            if isinstance(n, ast.Assign) and len(n.targets) == 1 and isinstance(n.targets[0], ast.Name):
                srcs = []
                v = n.value
                if isinstance(v, ast.Name):
                    srcs = [v.id]
                elif isinstance(v, ast.IfExp):
                    srcs = [x.id for x in (v.body, v.orelse) if isinstance(x, ast.Name)]
                elif isinstance(v, ast.BoolOp):
                    srcs = [x.id for x in v.values if isinstance(x, ast.Name)]
                for s in srcs:
                    if s in alias and n.targets[0].id not in alias:
                        alias[n.targets[0].id] = alias[s]
                        changed = True
    return alias


def mutation_sites(fi, names):
    """In-place mutations of the objects bound to ``names`` (a dict alias -> parameter) inside fi (not nested defs).

    Direct mutations only: x.append(..), x[i] = .., del x[i], x += .. (on a bare name bound to a list-like), x.attr... is
    *not* followed (mutating an attribute of a parameter object is a method-level effect, judged elsewhere)."""
    out = []
    for n in walk_no_nested(fi.node):
        if isinstance(n, ast.Call) and isinstance(n.func, ast.Attribute) and n.func.attr in MUTATORS \
                and isinstance(n.func.value, ast.Name) and n.func.value.id in names:
            out.append((names[n.func.value.id], "call .%s()" % n.func.attr, n))
        elif isinstance(n, (ast.Assign, ast.AugAssign, ast.AnnAssign)):
            tg = n.targets if isinstance(n, ast.Assign) else [n.target]
            for t in tg:
                for x in ([t] if not isinstance(t, (ast.Tuple, ast.List)) else t.elts):
                    if isinstance(x, ast.Subscript) and isinstance(x.value, ast.Name) and x.value.id in names:
                        out.append((names[x.value.id], "item store", n))
            if isinstance(n, ast.AugAssign) and isinstance(n.target, ast.Name) and n.target.id in names \
                    and isinstance(n.op, (ast.Add, ast.Mult, ast.BitOr, ast.BitAnd)) \
                    and not (isinstance(n.value, ast.Constant) and isinstance(n.value.value, (int, float, str, bytes))):
                # ``x += [..]`` extends a list in place; ``x -= 1`` / ``x /= 2`` / ``x += 1`` rebind numbers
                out.append((names[n.target.id], "augmented assignment", n))
        elif isinstance(n, ast.Delete):
            for t in n.targets:
                if isinstance(t, ast.Subscript) and isinstance(t.value, ast.Name) and t.value.id in names:
                    out.append((names[t.value.id], "del item", n))
    return out


def rebinds_before(fi, name, site):
    """True if ``name`` is certainly rebound to a fresh object before ``site`` on the straight-line prefix of the body
    (handles ``x = list(x)`` / ``x = x[:]`` / ``x = dict(x)`` copies placed before the mutation)."""
    for st in fi.body:
        if st.lineno >= site.lineno:
            break
        if isinstance(st, ast.Assign) and len(st.targets) == 1 and isinstance(st.targets[0], ast.Name) \
                and st.targets[0].id == name and is_fresh_expr(st.value):
            return True
        if isinstance(st, ast.If):
            # ``if x is None: x = {}  else: x = dict(x)`` -- both arms rebind freshly
            def arm_rebinds(arm):
                return any(isinstance(s, ast.Assign) and len(s.targets) == 1 and isinstance(s.targets[0], ast.Name)
                           and s.targets[0].id == name and is_fresh_expr(s.value) for s in arm)
            if arm_rebinds(st.body) and st.orelse and arm_rebinds(st.orelse):
                return True
    return False


def must_assign_self_attr(repo, fi, attr, depth=0, seen=None):
    """Does every normal path through fi assign self.<attr> (directly or through self.m() calls)?"""
    seen = seen or set()
    if depth > 6 or id(fi.node) in seen:
        return False
    seen = seen | {id(fi.node)}

    def block(stmts):
        for st in stmts:
            if stmt(st):
                return True
        return False

    def stmt(st):
        if isinstance(st, (ast.Assign, ast.AnnAssign)):
            tg = st.targets if isinstance(st, ast.Assign) else [st.target]
            for t in tg:
                for x in ([t] if not isinstance(t, (ast.Tuple, ast.List)) else t.elts):
                    if isinstance(x, ast.Attribute) and isinstance(x.value, ast.Name) and x.value.id == "self" and x.attr == attr:
                        val = getattr(st, "value", None)
                        if isinstance(val, ast.Attribute) and val.attr == attr:
                            continue  # self.a = self.a / Class.a: the same object under the same name, nothing is replaced
                        return True
            return calls(st.value) if getattr(st, "value", None) is not None else False
        if isinstance(st, ast.Expr):
            return calls(st.value)
        if isinstance(st, ast.If):
            return block(st.body) and block(st.orelse)
        if isinstance(st, (ast.With,)):
            return block(st.body)
        if isinstance(st, ast.Try):
            return block(st.finalbody) or (block(st.body) and all(block(h.body) for h in st.handlers))
        if isinstance(st, ast.Return):
            return calls(st.value) if st.value is not None else False
        return False

    def calls(expr):
        for n in ast.walk(expr):
            if isinstance(n, ast.Call) and isinstance(n.func, ast.Attribute) and isinstance(n.func.value, ast.Name) \
                    and n.func.value.id == "self" and fi.cls is not None:
                m = repo.find_method(fi.cls if not hasattr(fi, "_recv_cls") else fi._recv_cls, n.func.attr)
                if m is not None and must_assign_self_attr(repo, m, attr, depth + 1, seen):
                    return True
            # Base.__init__(self, ...) / super().__init__()
            if isinstance(n, ast.Call) and isinstance(n.func, ast.Attribute) and n.func.attr == "__init__" and fi.cls is not None:
                for b in repo.mro(fi.cls)[1:]:
                    m = b.methods.get("__init__")
                    if m is not None and must_assign_self_attr(repo, m, attr, depth + 1, seen):
                        return True
        return False
    return block(fi.body)
