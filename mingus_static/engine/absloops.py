"""Loop summaries for the abstract evaluator.

* for_over_absstr -- E2 character-fold summariser: a ``for c in s`` loop over an abstract
  string is evaluated once per alphabet class per Run atom; the per-class effect on every
  accumulator must be a translation (``acc += const`` / ``s += literal``) or an exit
  (return / raise / break); the loop's total effect is then the closed form
  ``acc0 + sum(delta_k * n_k)`` in the symbolic class counts -- valid for runs of every length.
* while_loop -- count-down loops ``while v > 0: ...; v -= 1`` with a symbolic counter are
  summarised by one concrete first iteration plus one generic (induction) iteration.
"""
from __future__ import annotations

import ast
import itertools

from .absval import Lin, Sym, Opaque, Ch, Run, AbsStr, Rep, Blob, simplify_str, INF
from .loader import short

_ids = itertools.count()


def _assigned_names(stmts):
    out = []
    for st in stmts:
        for n in ast.walk(st):
            if isinstance(n, (ast.Assign, ast.AugAssign, ast.AnnAssign)):
                tg = n.targets if isinstance(n, ast.Assign) else [n.target]
                for t in tg:
                    for x in ast.walk(t):
                        if isinstance(x, ast.Name) and isinstance(x.ctx, ast.Store) and x.id not in out:
                            out.append(x.id)
            elif isinstance(n, ast.For):
                for x in ast.walk(n.target):
                    if isinstance(x, ast.Name) and x.id not in out:
                        out.append(x.id)
    return out


def _is_num(v):
    return isinstance(v, (int, Lin)) and not isinstance(v, bool)


def _is_strish(v):
    return isinstance(v, (str, AbsStr, Ch))


def _monotone(body, v):
    """+1 if every store to v in the loop body is `v += <non-negative constant>`, -1 if every one is `v -= ...`, else 0."""
    sign = None
    for st in body or []:
        for n in ast.walk(st):
            tgts = []
            if isinstance(n, ast.Assign):
                tgts = [t for t in n.targets for t in ast.walk(t)]
            elif isinstance(n, (ast.AnnAssign, ast.For)):
                tgts = list(ast.walk(n.target))
            elif isinstance(n, ast.AugAssign):
                if isinstance(n.target, ast.Name) and n.target.id == v:
                    if isinstance(n.op, (ast.Add, ast.Sub)) and isinstance(n.value, ast.Constant) and isinstance(n.value.value, int) \
                            and not isinstance(n.value.value, bool) and n.value.value >= 0:
                        s_ = 1 if isinstance(n.op, ast.Add) else -1
                        if sign not in (None, s_):
                            return 0
                        sign = s_
                        continue
                    return 0
            if any(isinstance(t, ast.Name) and t.id == v for t in tgts):
                return 0
    return sign or 0


def _genericise(interp, frame, names, str_suffix=None, body=None):
    """Replace accumulators by generic values; returns dict name -> ('lin', Sym) | ('str', Blob) | ('same', value)."""
    gen = {}
    for v in names:
        if v not in frame.locals:
            continue
        cur = frame.locals[v]
        if _is_num(cur):
            g = Sym("g%d_%s" % (next(_ids), v))
            # a counter that the body only ever raises (lowers) is, at the head of any iteration, at least (at most) what
            # it is now
            mono = _monotone(body, v) if body is not None and Lin.of(cur) is not None else 0
            if mono:
                lo, hi = interp.lin_interval(Lin.of(cur))
                if mono > 0 and lo != -INF:
                    g = Sym(g.name, lo, INF)
                elif mono < 0 and hi != INF:
                    g = Sym(g.name, -INF, hi)
            frame.locals[v] = Lin({g: 1}, 0)
            gen[v] = ("lin", g)
        elif _is_strish(cur):
            b = Blob("%s%d" % (v, next(_ids)))
            suffix = (str_suffix or {}).get(v, "")
            cu = (cur if isinstance(cur, AbsStr) else AbsStr([cur])).units()
            head = [cu[0]] if cu and isinstance(cu[0], (str, Ch)) else []
            frame.locals[v] = AbsStr(head + [b, suffix])
            gen[v] = ("str", b, suffix, head)
        else:
            gen[v] = ("same", cur)
    return gen


def _delta(interp, gen, frame, v):
    """Effect of one body evaluation on accumulator v: ('lin', c) | ('str', literal) | ('same',) or None."""
    kind = gen[v]
    new = frame.locals.get(v)
    if kind[0] == "lin":
        nl = Lin.of(new) if _is_num(new) else None
        if nl is None:
            return None
        d = nl - Lin({kind[1]: 1}, 0)
        if not d.is_const():
            return None
        return ("lin", d.const)
    if kind[0] == "str":
        ns = new if isinstance(new, AbsStr) else (AbsStr([new]) if isinstance(new, (str, Ch)) else None)
        if ns is None:
            return None
        atoms = list(ns.atoms)
        head = kind[3]
        if head:
            if not atoms:
                return None
            if isinstance(head[0], str):
                if not (isinstance(atoms[0], str) and atoms[0][0] == head[0]):
                    return None
                atoms[0] = atoms[0][1:]
                if not atoms[0]:
                    atoms.pop(0)
            else:
                if atoms[0] is not head[0]:
                    return None
                atoms.pop(0)
        if not atoms or atoms[0] is not kind[1]:
            return None
        rest = atoms[1:]
        if not all(isinstance(a, str) for a in rest):
            return None
        lit = "".join(rest)
        suffix = kind[2]
        if not lit.startswith(suffix):
            # the body consumed part of the previously appended text
            return None
        return ("str", lit[len(suffix):])
    if kind[0] == "same":
        return ("same",) if new is kind[1] else None
    return None


def _subst(value, mapping):
    """Substitute generic symbols / blobs in a value."""
    if isinstance(value, Lin):
        out = Lin({}, value.const)
        for s, c in value.terms.items():
            if s in mapping:
                out = out + Lin.of(mapping[s]).scale(c)
            else:
                out = out + Lin({s: c}, 0)
        return out.const if out.is_const() else out
    if isinstance(value, AbsStr):
        atoms = []
        for a in value.atoms:
            if isinstance(a, Blob) and a in mapping:
                atoms.append(mapping[a])
            else:
                atoms.append(a)
        return simplify_str(AbsStr(atoms))
    if isinstance(value, list):
        return [_subst(x, mapping) for x in value]
    if isinstance(value, tuple):
        return tuple(_subst(x, mapping) for x in value)
    return value


def _run_body_once(interp, st, frame):
    from .absint import BreakEx, ContinueEx, ReturnEx, RaiseEx
    try:
        interp.exec_block(st.body, frame)
        return ("normal", None)
    except ContinueEx:
        return ("normal", None)
    except BreakEx:
        return ("break", None)
    except ReturnEx as r:
        return ("return", r.value)
    except RaiseEx as r:
        return ("raise", r)


def _summarise_segment(interp, st, frame, classes, run_atom=None):
    """classes: list of (Ch, count Lin/Sym, label).  Returns True if the loop was left by ``break``."""
    from .absint import CannotDecide, ReturnEx
    names = [n for n in _assigned_names(st.body)]
    tnames = [x.id for x in ast.walk(st.target) if isinstance(x, ast.Name)]
    names = [n for n in names if n not in tnames]
    saved = dict(frame.locals)
    per_class = []
    for ch, cnt, label in classes:
        frame.locals = dict(saved)
        gen = _genericise(interp, frame, names, body=st.body)
        one = next(iter(ch.members)) if ch.members is not None and len(ch.members) == 1 else ch
        interp.assign(st.target, one, frame)
        n0 = len(interp.chooser.trace)
        outcome = _run_body_once(interp, st, frame)
        if len(interp.chooser.trace) != n0:
            raise CannotDecide("fold body at %s branches on something other than the character class (%s)"
                               % (short(st.iter), interp.chooser.trace[n0][0]))
        deltas = {}
        for v in gen:
            d = _delta(interp, gen, frame, v)
            if d is None and outcome[0] == "normal":
                raise CannotDecide("fold body effect on %r for class %s is not a translation: %r"
                                   % (v, ch.name, frame.locals.get(v)))
            deltas[v] = d
        newly = {v: frame.locals[v] for v in names if v not in gen and v in frame.locals}
        per_class.append((ch, cnt, label, outcome, deltas, gen, dict(frame.locals), newly))
    frame.locals = dict(saved)
    normal = [p for p in per_class if p[3][0] == "normal"]
    exits = [p for p in per_class if p[3][0] != "normal"]

    def state_with(counts):
        """locals after consuming counts[label] characters of each normal class."""
        out = {}
        for v in names:
            if v not in saved:
                continue
            cur = saved[v]
            if _is_num(cur):
                tot = Lin.of(cur)
                for ch, cnt, label, oc, deltas, gen, _, _n in normal:
                    d = deltas.get(v)
                    if d and d[0] == "lin" and d[1]:
                        tot = tot + Lin.of(counts[label]).scale(d[1])
                out[v] = tot.const if tot.is_const() else tot
            elif _is_strish(cur):
                apps = [(deltas[v][1], label) for ch, cnt, label, oc, deltas, gen, _, _n in normal
                        if deltas.get(v) and deltas[v][0] == "str" and deltas[v][1]]
                if len(apps) > 1:
                    # each class appends its own character: the accumulator receives a copy of the run
                    own = {}
                    for ch, cnt, label, oc, deltas, gen, _, _n in normal:
                        d = deltas.get(v)
                        if d and d[0] == "str" and d[1]:
                            own[label] = (ch.members is not None and len(ch.members) == 1 and d[1] == next(iter(ch.members)))
                    full = run_atom is not None and all(counts[l] is c_ for (c__, c_, l, *_r) in normal for _x in [0])
                    if all(own.values()) and len(own) == len(normal) and full:
                        out[v] = simplify_str(AbsStr([cur, run_atom]))
                        continue
                    if full:
                        # each class appends its own text: the accumulator receives the run rendered through a mapping
                        from .absval import MappedRun
                        mapping = {}
                        for ch, cnt, label, oc, deltas, gen, _, _n in normal:
                            d = deltas.get(v)
                            mapping[ch.name] = d[1] if d and d[0] == "str" else ""
                        out[v] = AbsStr([cur, MappedRun(run_atom, mapping)])
                        continue
                    raise CannotDecide("fold appends different text for several classes to %r" % v)
                if apps:
                    out[v] = simplify_str(AbsStr([cur, Rep(apps[0][0], counts[apps[0][1]])]))
                else:
                    out[v] = cur
        return out

    # exits first: "the first character of an exit class is k"
    for ch, cnt, label, outcome, deltas, gen, locs, newly in exits:
        lo, hi = interp.lin_interval(Lin.of(cnt))
        if hi <= 0:
            continue
        if lo >= 1 and len(exits) == 1:
            present = True
        else:
            present = interp.fork("run at %s contains a %s character" % (short(st.iter), ch.name))
        if not present:
            interp._refine(Lin.of(cnt), hi=0)
            continue
        interp._refine(Lin.of(cnt), lo=1)
        pre = {}
        for _ch, _cnt, _label, _oc, _d, _g, _l, _n in normal:
            pre[_label] = Sym("pre%d[%s]" % (next(_ids), _label), 0, INF)
        st8 = state_with(pre)
        mapping = {}
        for v, g in gen.items():
            if g[0] == "lin":
                mapping[g[1]] = st8.get(v, saved.get(v))
            elif g[0] == "str":
                whole = st8.get(v, saved.get(v))
                if g[3]:
                    wu = (whole if isinstance(whole, AbsStr) else AbsStr([whole])).units()
                    whole = AbsStr(wu[1:])
                mapping[g[1]] = whole
        # state at the exit = prefix state followed by the exit body's own effect
        for v in list(locs):
            frame.locals[v] = _subst(locs[v], mapping)
        if outcome[0] == "break":
            return True
        if outcome[0] == "return":
            raise ReturnEx(_subst(outcome[1], mapping))
        raise outcome[1]
    counts = {label: cnt for ch, cnt, label, oc, d, g, l, n in normal}
    frame.locals.update(state_with(counts))
    # loop variable / first-assigned names after the loop are unknown
    for ch, cnt, label, oc, d, g, l, newly in normal:
        for v, val in newly.items():
            if v not in frame.locals:
                frame.locals[v] = Opaque("loop-local:" + v)
    return False


def for_over_absstr(interp, st, it, frame):
    from .absint import BreakEx, ContinueEx, CannotDecide
    for atom in it.atoms:
        if isinstance(atom, str):
            for c in atom:
                interp.assign(st.target, c, frame)
                try:
                    interp.exec_block(st.body, frame)
                except BreakEx:
                    return True
                except ContinueEx:
                    continue
        elif isinstance(atom, Ch):
            interp.assign(st.target, atom, frame)
            try:
                interp.exec_block(st.body, frame)
            except BreakEx:
                return True
            except ContinueEx:
                continue
        elif isinstance(atom, Run):
            classes = [(c, Lin.of(atom.count[c.name]), "%s,%s" % (atom.name, c.name)) for c in atom.classes]
            if _summarise_segment(interp, st, frame, classes, run_atom=atom):
                return True
        elif isinstance(atom, Rep):
            if len(atom.lit) != 1:
                raise CannotDecide("iteration over repetition of %r" % atom.lit)
            c = Ch(atom.lit, {atom.lit})
            if _summarise_segment(interp, st, frame, [(c, atom.count, "rep,%s" % atom.lit)]):
                return True
        else:
            raise CannotDecide("iteration over %r" % (atom,))
    return False


# ----------------------------------------------------------------------------- while

def _scan_pattern(st):
    """`while k < len(S) and S[k] in <constants>: k += 1` (either order of the two tests; `==` for one constant).
    Returns (index name, string expression, set of characters) or None."""
    t = st.test
    if not (isinstance(t, ast.BoolOp) and isinstance(t.op, ast.And) and len(t.values) == 2 and not st.orelse and len(st.body) == 1):
        return None
    b = st.body[0]
    if not (isinstance(b, ast.AugAssign) and isinstance(b.op, ast.Add) and isinstance(b.target, ast.Name)
            and isinstance(b.value, ast.Constant) and b.value.value == 1):
        return None
    k = b.target.id
    bound = member = None
    for v in t.values:
        if isinstance(v, ast.Compare) and len(v.ops) == 1:
            l, op, r = v.left, v.ops[0], v.comparators[0]
            if isinstance(op, ast.Lt) and isinstance(l, ast.Name) and l.id == k and isinstance(r, ast.Call) and isinstance(r.func, ast.Name) \
                    and r.func.id == "len" and len(r.args) == 1:
                bound = r.args[0]
            elif isinstance(op, (ast.In, ast.Eq)) and isinstance(l, ast.Subscript) and isinstance(l.slice, ast.Name) and l.slice.id == k:
                chars = None
                if isinstance(op, ast.Eq) and isinstance(r, ast.Constant) and isinstance(r.value, str) and len(r.value) == 1:
                    chars = {r.value}
                elif isinstance(op, ast.In) and isinstance(r, ast.Constant) and isinstance(r.value, str):
                    chars = set(r.value)
                elif isinstance(op, ast.In) and isinstance(r, (ast.Tuple, ast.List, ast.Set)) and all(
                        isinstance(e, ast.Constant) and isinstance(e.value, str) and len(e.value) == 1 for e in r.elts):
                    chars = {e.value for e in r.elts}
                if chars:
                    member = (l.value, chars)
    if bound is None or member is None or ast.dump(bound) != ast.dump(member[0]):
        return None
    return k, bound, member[1]


def _summarise_scan(interp, st, frame):
    """An index that runs over the characters of an abstract string while they belong to a set of characters: the index
    ends at the first unit that does not belong (a whole run whose characters all belong is passed in one step)."""
    from .absint import CannotDecide
    pat = _scan_pattern(st)
    if pat is None:
        return False
    k, sexpr, chars = pat
    k0 = frame.locals.get(k)
    if not isinstance(k0, int) or isinstance(k0, bool) or k0 < 0:
        return False
    sval = interp.eval(sexpr, frame)
    if isinstance(sval, (str, Ch)):
        sval = AbsStr([sval])
    if not isinstance(sval, AbsStr):
        return False
    sval = interp.norm_str(sval)
    if not (sval.has_run() or any(isinstance(a, Rep) for a in sval.atoms)):
        return False  # a concrete string: the loop simply runs
    # position as a linear form; walk the atoms
    pos = Lin({}, 0)
    stopped = False
    units = []
    for a in sval.atoms:
        if isinstance(a, str):
            units.extend(list(a))
        else:
            units.append(a)
    i = 0
    while i < len(units) and (not pos.is_const() or pos.const < k0):
        # skip the (concrete) prefix before the start index
        u = units[i]
        if not isinstance(u, (str, Ch)) or not pos.is_const():
            return False
        pos = pos + 1
        i += 1
    for u in units[i:]:
        if isinstance(u, str):
            if u in chars:
                pos = pos + 1
                continue
            stopped = True
            break
        if isinstance(u, Ch):
            r = u.contains_only(sorted(chars))
            if r is True:
                pos = pos + 1
                continue
            if r is False:
                stopped = True
                break
            return False
        if isinstance(u, Run):
            rs = [c.contains_only(sorted(chars)) for c in u.classes]
            if all(r is True for r in rs):
                for c in u.classes:
                    pos = pos + Lin.of(u.count[c.name])
                continue
            if all(r is False for r in rs):
                # the run may be empty: then the scan goes on behind it -- not summarised
                return False
            return False
        if isinstance(u, Rep):
            if set(u.lit) <= chars:
                pos = pos + u.count.scale(len(u.lit))
                continue
            return False
        return False
    frame.locals[k] = pos if not pos.is_const() else int(pos.const)
    return True


def while_loop(interp, st, frame):
    from .absint import BreakEx, ContinueEx, CannotDecide
    if _summarise_scan(interp, st, frame):
        return
    iters = 0
    watched = sorted(set(_assigned_names(st.body)) | {n.id for n in ast.walk(st.test) if isinstance(n, ast.Name)})
    seen_states = set()
    while True:
        # a concrete loop state that comes back unchanged is a proof of non-termination (e.g. inf / 2 == inf)
        snap = tuple((n, type(frame.locals.get(n)).__name__, repr(frame.locals.get(n))) for n in watched if n in frame.locals)
        if snap and all(isinstance(frame.locals.get(n), (int, float, str, bool, type(None))) for n in watched if n in frame.locals):
            if snap in seen_states and not any(isinstance(x, ast.Call) for b_ in st.body for x in ast.walk(b_)):
                raise CannotDecide("the loop at `while %s` never terminates: its state %s repeats" % (short(st.test), dict((a, c) for a, b, c in snap)))
            seen_states.add(snap)
        n0 = len(interp.chooser.trace)
        saved_refine = dict(interp.refine)
        c = interp.truth(interp.eval(st.test, frame), st.test)
        forked = len(interp.chooser.trace) > n0
        if not c:
            interp.exec_block(st.orelse, frame)
            return
        if forked:
            if _summarise_step(interp, st, frame):
                return
            if _summarise_countdown(interp, st, frame):
                return
        try:
            interp.exec_block(st.body, frame)
        except BreakEx:
            return
        except ContinueEx:
            pass
        iters += 1
        if iters > interp.max_iter:
            raise CannotDecide("while loop at %s does not terminate within %d abstract iterations"
                               % (short(st.test), interp.max_iter))


_STEP_N = [0]


def _summarise_step(interp, st, frame):
    """``while x < T: x += c`` (and the mirrored forms) with the condition just decided True on a symbolic x:
    after the loop x = x0 + c*k for some k >= 1 and x lies in the first window of width |c| past the threshold."""
    if len(st.body) != 1 or st.orelse:
        return False
    b, t = st.body[0], st.test
    if not (isinstance(b, ast.AugAssign) and isinstance(b.target, ast.Name) and isinstance(b.op, (ast.Add, ast.Sub))):
        return False
    if not (isinstance(t, ast.Compare) and len(t.ops) == 1 and isinstance(t.left, ast.Name) and t.left.id == b.target.id):
        return False
    c, T = interp.eval(b.value, frame), interp.eval(t.comparators[0], frame)
    if not (isinstance(c, int) and isinstance(T, int)) or isinstance(c, bool) or c <= 0:
        return False
    step = c if isinstance(b.op, ast.Add) else -c
    op = type(t.ops[0])
    window = {(ast.Lt, True): (T, T + c - 1), (ast.LtE, True): (T + 1, T + c),
              (ast.Gt, False): (T - c + 1, T), (ast.GtE, False): (T - c, T - 1)}.get((op, step > 0))
    v = Lin.of(frame.locals.get(b.target.id))
    if window is None or v is None or isinstance(frame.locals.get(b.target.id), (str, bool)):
        return False
    _STEP_N[0] += 1
    k = Sym("iterations#%d(%s)" % (_STEP_N[0], short(st.test)), 1, INF)
    new = v + Lin.of(k).scale(step)
    frame.locals[b.target.id] = new
    interp._refine(interp.resolve(new), lo=window[0], hi=window[1])
    return True


def _summarise_countdown(interp, st, frame):
    """Condition just forked to True on a symbolic counter.  Try to summarise the whole loop."""
    from .absint import Chooser, CannotDecide
    names = _assigned_names(st.body)
    test_names = [n.id for n in ast.walk(st.test) if isinstance(n, ast.Name)]
    saved = dict(frame.locals)
    # iteration 1 from the actual state, on a private chooser (must not fork)
    real_chooser, real_refine = interp.chooser, dict(interp.refine)

    def restore():
        interp.chooser = real_chooser
        interp.refine = dict(real_refine)
        frame.locals = dict(saved)

    def one_iteration(prep):
        interp.chooser = Chooser()
        frame.locals = dict(saved)
        gen = prep()
        oc = _run_body_once(interp, st, frame)
        if interp.chooser.trace or oc[0] != "normal":
            return None, None
        return gen, dict(frame.locals)

    # first (concrete-state) iteration: learn candidate deltas
    def prep_first():
        return None
    _, after1 = one_iteration(prep_first)
    if after1 is None:
        restore()
        return False
    cand = {}
    for v in names:
        if v not in saved:
            restore()
            return False
        a, b = saved[v], after1.get(v)
        if _is_num(a) and _is_num(b):
            d = Lin.of(b) - Lin.of(a)
            if not d.is_const():
                restore()
                return False
            cand[v] = ("lin", d.const)
        elif _is_strish(a) and _is_strish(b):
            ua = (a if isinstance(a, AbsStr) else AbsStr([a])).atoms
            ub = (b if isinstance(b, AbsStr) else AbsStr([b])).atoms
            # b must be a + literal
            sa, sb = AbsStr(ua), AbsStr(ub)
            la, lb = sa.units(), sb.units()
            if len(lb) >= len(la) and not any(x is not y and x != y for x, y in zip(la, lb[:len(la)])) \
                    and all(isinstance(x, str) for x in lb[len(la):]):
                cand[v] = ("str", "".join(lb[len(la):]))
            elif len(lb) > len(la) and not any(x is not y and x != y for x, y in zip(la, lb[len(lb) - len(la):])) \
                    and all(isinstance(x, str) for x in lb[:len(lb) - len(la)]):
                cand[v] = ("pre", "".join(lb[:len(lb) - len(la)]))
            else:
                restore()
                return False
        else:
            restore()
            return False
    counters = [v for v in names if v in test_names and cand[v][0] == "lin" and cand[v][1] in (1, -1)]
    if len(counters) != 1:
        restore()
        return False
    cv = counters[0]
    dc = cand[cv][1]
    c0 = Lin.of(saved[cv])

    # exit point t: test(c = t) is False and test(c = t - dc*j) is True for every j >= 1
    consts = [n.value for n in ast.walk(st.test) if isinstance(n, ast.Constant) and isinstance(n.value, int)
              and not isinstance(n.value, bool)]
    t_found = None
    for base in consts or [0]:
        for t in (base, base + 1, base - 1):
            interp.chooser = Chooser()
            interp.refine = dict(real_refine)
            frame.locals = dict(saved)
            frame.locals[cv] = t
            try:
                r0 = interp.truth(interp.eval(st.test, frame), st.test)
            except CannotDecide:
                continue
            if interp.chooser.trace or r0:
                continue
            j = Sym("j%d" % next(_ids), 1, INF)
            frame.locals[cv] = Lin({j: -dc}, t)
            interp.chooser = Chooser()
            try:
                r1 = interp.truth(interp.eval(st.test, frame), st.test)
            except CannotDecide:
                continue
            if interp.chooser.trace or not r1:
                continue
            t_found = t
            break
        if t_found is not None:
            break
    if t_found is None:
        restore()
        return False
    k = (Lin.of(t_found) - c0).scale(dc)  # trip count

    # induction step from a generic state in which the condition holds
    def prep_generic():
        frame.locals[cv] = saved[cv]
        gen = _genericise(interp, frame, [v for v in names if v != cv and cand[v][0] != "pre"],
                          {v: cand[v][1] for v in names if cand[v][0] == "str"})
        for v in names:
            if cand[v][0] == "pre":
                b = Blob("%s%d" % (v, next(_ids)))
                frame.locals[v] = AbsStr([cand[v][1], b])
                gen[v] = ("pre", b, cand[v][1])
        j = Sym("j%d" % next(_ids), 1, INF)
        frame.locals[cv] = Lin({j: -dc}, t_found)
        gen[cv] = ("lin_j", frame.locals[cv])
        return gen
    interp.refine = dict(real_refine)
    gen, after = one_iteration(prep_generic)
    if after is None:
        restore()
        return False
    for v in names:
        if v == cv:
            d = Lin.of(after[cv]) - gen[cv][1] if _is_num(after.get(cv)) else None
            if d is None or not d.is_const() or d.const != dc:
                restore()
                return False
            continue
        frame.locals = after
        if gen[v][0] == "pre":
            nv = after.get(v)
            atoms = nv.atoms if isinstance(nv, AbsStr) else []
            if not (len(atoms) == 2 and atoms[1] is gen[v][1] and atoms[0] == gen[v][2] * 2):
                restore()
                return False
            continue
        d = _delta(interp, gen, frame, v)
        if d is None or (d[0] in ("lin", "str") and d[1] != cand[v][1]):
            restore()
            return False
    # apply closed form
    restore()
    for v in names:
        if v == cv:
            frame.locals[v] = t_found
        elif cand[v][0] == "lin":
            tot = Lin.of(saved[v]) + k.scale(cand[v][1])
            frame.locals[v] = tot.const if tot.is_const() else tot
        elif cand[v][0] == "pre":
            frame.locals[v] = simplify_str(AbsStr([Rep(cand[v][1], k), saved[v]]))
        elif cand[v][1]:
            frame.locals[v] = simplify_str(AbsStr([saved[v], Rep(cand[v][1], k)]))
    return True
