"""Order domain: values that the code only ever *compares*.

``OrdVal`` is an unknown number identified by a term name; ``MonoTable`` is a strictly increasing table of unknown
numbers indexed by linear integer forms (``T[i] < T[j]`` iff ``i < j``; by convention ``T[-1]`` is the constant 0 so that
"the entry below row 0" can be written uniformly).  A comparison that the facts gathered on the current path neither
entail nor refute splits the path and records the chosen fact; entailment is reachability in the graph of ``<=`` / ``<``
facts (a strict edge anywhere on the path makes the conclusion strict), closed under the table's monotonicity and
the numeric order of constants.  Since the code under analysis touches these values through comparisons only, the
finitely many orderings explored this way cover every concrete input.
"""
from __future__ import annotations

import ast
from fractions import Fraction

from .absval import Lin


class OrdVal:
    def __init__(self, name):
        self.name = name

    def key(self, interp):
        return self.name

    def a_compare(self, interp, op, other, reflected, node):
        return _compare(interp, self, op, other, reflected)

    def a_eq(self, interp, other):
        r = _compare(interp, self, ast.Eq, other, False)
        return None if r is NotImplemented else r

    def a_truth(self, interp):
        from .absint import CannotDecide
        raise CannotDecide("truth value of the unknown number %s" % self.name)

    def __repr__(self):
        return self.name


class TabVal(OrdVal):
    def __init__(self, table, index):
        self.table, self.index = table, Lin.of(index)
        self.name = "%s[%s]" % (table.name, index)

    def key(self, interp):
        idx = interp.resolve(self.index)
        lo, hi = interp.lin_interval(idx)
        if lo == hi:
            if int(lo) == -1:
                return "#0"
            return "%s[%d]" % (self.table.name, int(lo))
        return "%s[%s]" % (self.table.name, idx)


class MonoTable:
    """A strictly increasing list of ``size`` unknown positive numbers."""

    def __init__(self, name, size):
        self.name, self.size = name, size

    def at(self, index):
        return TabVal(self, Lin.of(index))

    def a_index(self, interp, idx, node):
        from .absint import CannotDecide, RaiseEx
        li = Lin.of(idx)
        if li is None or isinstance(idx, (str, bool)):
            raise CannotDecide("%s[%r]" % (self.name, idx))
        lo, hi = interp.lin_interval(interp.resolve(li))
        if hi < -self.size or lo >= self.size:
            raise RaiseEx("IndexError", node)
        if lo < 0 or hi >= self.size:
            interp.__dict__.setdefault("ord_log", []).append(("index-may-be-out-of-range", li, (lo, hi), node))
        v = TabVal(self, li)
        facts(interp).touch(v)
        return v

    def a_len(self, interp):
        return self.size

    def __repr__(self):
        return "MonoTable(%s)" % self.name


class Facts:
    def __init__(self):
        self.edges = []  # (term a, term b, strict): a <= b / a < b; terms are OrdVal objects or Fractions
        self.terms = []  # every term seen (keys are computed when the graph is built: indices may get refined later)

    def touch(self, v):
        self.terms.append(v)


def facts(interp):
    f = interp.__dict__.get("ord_facts")
    if f is None:
        f = interp.__dict__["ord_facts"] = Facts()
    return f


def _term(interp, v):
    """-> (key, object) for OrdVal / numeric constants, or None."""
    if isinstance(v, TabVal):
        k = v.key(interp)
        return (k, Fraction(0)) if k == "#0" else (k, v)
    if isinstance(v, OrdVal):
        return v.key(interp), v
    if isinstance(v, bool):
        return None
    if isinstance(v, (int, float, Fraction)):
        return "#%s" % Fraction(v), Fraction(v)
    li = Lin.of(v) if not isinstance(v, str) else None
    if li is not None and li.is_const():
        return "#%s" % Fraction(li.const), Fraction(li.const)
    return None


def _graph(interp, extra_terms=()):
    f = facts(interp)
    nodes = {}
    for t in f.terms:
        k, o = _term(interp, t)
        nodes[k] = o
    for k, o in extra_terms:
        nodes[k] = o
    keys = list(nodes)
    INFW = None
    # w[a][b] = None (unknown) | False (a <= b) | True (a < b)
    w = {a: {b: INFW for b in keys} for a in keys}
    for a in keys:
        w[a][a] = False

    def add(a, b, strict):
        if a in w and b in w[a]:
            if w[a][b] is None or (strict and not w[a][b]):
                w[a][b] = strict
    for a, b, s in f.edges:
        add(_term(interp, a)[0], _term(interp, b)[0], s)
    # constants and table monotonicity
    for a in keys:
        for b in keys:
            if a == b:
                continue
            oa, ob = nodes[a], nodes[b]
            if isinstance(oa, Fraction) and isinstance(ob, Fraction):
                if oa < ob:
                    add(a, b, True)
            elif isinstance(oa, TabVal) and isinstance(ob, TabVal) and oa.table is ob.table:
                lo, hi = interp.lin_interval(interp.resolve(oa.index - ob.index))
                if hi < 0:
                    add(a, b, True)
                elif hi <= 0:
                    add(a, b, False)
            elif isinstance(oa, Fraction) and isinstance(ob, TabVal):
                # table entries are positive, T[-1] is 0: 0 < T[i] for i >= 0, 0 <= T[i] for i >= -1
                lo, hi = interp.lin_interval(interp.resolve(ob.index))
                if oa <= 0 and lo >= 0:
                    add(a, b, True)
                elif oa <= 0 and lo >= -1:
                    add(a, b, oa < 0)
    for k in keys:
        for a in keys:
            if w[a][k] is None:
                continue
            for b in keys:
                if w[k][b] is None:
                    continue
                s = w[a][k] or w[k][b]
                if w[a][b] is None or (s and not w[a][b]):
                    w[a][b] = s
    return w


def entails(interp, a, op, b):
    """True if the facts of this path entail ``a op b`` (op in Lt, LtE, Gt, GtE, Eq, NotEq); False if they refute it;
    None if neither."""
    ta, tb = _term(interp, a), _term(interp, b)
    if ta is None or tb is None:
        return None
    (ka, oa), (kb, ob) = ta, tb
    w = _graph(interp, [(ka, oa), (kb, ob)])
    ab, ba = w[ka][kb], w[kb][ka]
    if ka == kb:
        ab = ba = False
    inconsistent = any(w[x][x] for x in w)
    if inconsistent:
        return None
    lt, le, gt, ge = ab is True, ab is not None, ba is True, ba is not None
    eq = le and ge and not lt and not gt
    table = {
        ast.Lt: (lt, ge), ast.LtE: (le, gt), ast.Gt: (gt, le), ast.GtE: (ge, lt),
        ast.Eq: (eq, lt or gt), ast.NotEq: (lt or gt, eq),
    }
    yes, no = table[op]
    return True if yes else (False if no else None)


def assume(interp, a, op, b):
    """Record ``a op b`` as a fact of the current path."""
    ta, tb = _term(interp, a), _term(interp, b)
    if ta is None or tb is None:
        from .absint import CannotDecide
        raise CannotDecide("order fact on %r, %r" % (a, b))
    f = facts(interp)
    ka, kb = (a if isinstance(a, OrdVal) else ta[1]), (b if isinstance(b, OrdVal) else tb[1])
    f.terms.extend((ka, kb))
    if op is ast.Lt:
        f.edges.append((ka, kb, True))
    elif op is ast.LtE:
        f.edges.append((ka, kb, False))
    elif op is ast.Gt:
        f.edges.append((kb, ka, True))
    elif op is ast.GtE:
        f.edges.append((kb, ka, False))
    elif op is ast.Eq:
        f.edges.append((ka, kb, False))
        f.edges.append((kb, ka, False))
    elif op is ast.NotEq:
        pass  # not representable; only costs precision
    interp.__dict__.setdefault("ord_assumed", []).append((a, op.__name__, b))


def consistent(interp):
    w = _graph(interp)
    return not any(w[x][x] for x in w)


_NEG = {ast.Lt: ast.GtE, ast.LtE: ast.Gt, ast.Gt: ast.LtE, ast.GtE: ast.Lt, ast.Eq: ast.NotEq, ast.NotEq: ast.Eq}
_FLIP = {ast.Lt: ast.Gt, ast.LtE: ast.GtE, ast.Gt: ast.Lt, ast.GtE: ast.LtE, ast.Eq: ast.Eq, ast.NotEq: ast.NotEq}


def _compare(interp, me, op, other, reflected):
    if op not in _NEG:
        return NotImplemented
    if _term(interp, other) is None:
        return NotImplemented
    a, b = (other, me) if reflected else (me, other)
    r = entails(interp, a, op, b)
    if r is not None:
        return r
    r = interp.fork("%s %s %s" % (_term(interp, a)[0], op.__name__, _term(interp, b)[0]))
    assume(interp, a, op if r else _NEG[op], b)
    return r
