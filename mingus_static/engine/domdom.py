"""Abstract xml.dom.minidom: elements with faithful appendChild semantics (a node has one parent: appending it again *moves* it)."""
from __future__ import annotations

from .absint import CannotDecide, RaiseEx
from .absval import AObj


class ANode:
    def __init__(self, kind, tag=None, text=None, loop_depth=0):
        self.kind = kind  # 'element' | 'text'
        self.tag = tag
        self.text = text
        self.children = []
        self.attrs = {}
        self.parent = None
        self.appended = 0
        self.moves = 0

    def a_method(self, interp, name, args, kwargs, node):
        if name == "appendChild":
            child = args[0]
            if not isinstance(child, ANode):
                raise RaiseEx("TypeError", node)
            if child.parent is not None:
                child.parent.children = [c for c in child.parent.children if c is not child]
                child.moves += 1
                interp.__dict__.setdefault("dom_log", []).append(("moved", child, node))
            child.parent = self
            child.appended += 1
            self.children.append(child)
            return child
        if name == "cloneNode":
            deep = bool(args[0]) if args else bool(kwargs.get("deep", False))

            def clone(n):
                c = ANode(n.kind, tag=n.tag, text=n.text)
                c.attrs = dict(n.attrs)
                if deep:
                    for ch in n.children:
                        cc = clone(ch)
                        cc.parent = c
                        cc.appended = 1
                        c.children.append(cc)
                return c
            new = clone(self)
            if new.kind == "element":
                interp.__dict__.setdefault("dom_created", []).append((new, node))
            return new
        if name == "setAttribute":
            self.attrs[args[0]] = args[1]
            return None
        if name == "getAttribute":
            return self.attrs.get(args[0], "")
        if name == "getElementsByTagName":
            out = []

            def rec(n):
                for c in n.children:
                    if c.kind == "element":
                        if c.tag == args[0]:
                            out.append(c)
                        rec(c)
            rec(self)
            return out
        if name in ("toprettyxml", "toxml"):
            return ("<xml-of>", self)
        return NotImplemented

    def find(self, tag):
        return [c for c in self.children if c.kind == "element" and c.tag == tag]

    def first(self, tag):
        f = self.find(tag)
        return f[0] if f else None

    def textof(self, tag=None):
        n = self if tag is None else self.first(tag)
        if n is None:
            return None
        ts = [c.text for c in n.children if c.kind == "text"]
        return ts[0] if len(ts) == 1 else (ts or None)

    def __repr__(self):
        if self.kind == "text":
            return "Text(%r)" % (self.text,)
        return "<%s %s>%s" % (self.tag, self.attrs or "", self.children)


class ADocument:
    def a_method(self, interp, name, args, kwargs, node):
        if name == "createElement":
            n = ANode("element", tag=args[0])
            interp.__dict__.setdefault("dom_created", []).append((n, node))
            return n
        if name == "createTextNode":
            return ANode("text", text=args[0])
        if name == "appendChild":
            return args[0]
        return NotImplemented


def install(interp):
    orig = interp.call_builtin

    def cb(name, args, kwargs, node=None):
        if name in ("ext:xml.dom.minidom.Document", "Document"):
            return ADocument()
        return orig(name, args, kwargs, node)
    interp.call_builtin = cb
