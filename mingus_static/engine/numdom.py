"""Numeric abstract domains.

* FInt   -- closed interval of exact rationals standing for an unknown real/float in that range
* RatFun -- multivariate rational function with exact coefficients (symbolic note values)
"""
from __future__ import annotations

import ast
from fractions import Fraction

from .absint import CannotDecide


def _frac(x):
    if isinstance(x, bool):
        return Fraction(int(x))
    if isinstance(x, (int, Fraction)):
        return Fraction(x)
    if isinstance(x, float):
        return Fraction(x)
    return None


class FInt:
    def __init__(self, lo, hi, label="x"):
        self.lo, self.hi = Fraction(lo), Fraction(hi)
        assert self.lo <= self.hi
        self.label = label

    def __repr__(self):
        return "FInt[%s, %s]" % (float(self.lo), float(self.hi))

    def a_binop(self, interp, op, other, reflected, node):
        if isinstance(other, FInt):
            olo, ohi = other.lo, other.hi
        else:
            c = _frac(other)
            if c is None:
                return NotImplemented
            olo = ohi = c
        a, b = (self.lo, self.hi), (olo, ohi)
        if reflected:
            a, b = b, a
        if op is ast.Add:
            return FInt(a[0] + b[0], a[1] + b[1])
        if op is ast.Sub:
            return FInt(a[0] - b[1], a[1] - b[0])
        if op is ast.Mult:
            ps = [x * y for x in a for y in b]
            return FInt(min(ps), max(ps))
        if op is ast.Div:
            if b[0] <= 0 <= b[1]:
                raise CannotDecide("division by an interval containing zero")
            ps = [x / y for x in a for y in b]
            return FInt(min(ps), max(ps))
        if op is ast.FloorDiv and b[0] == b[1] and b[0] > 0:
            import math
            return FInt(math.floor(a[0] / b[0]), math.floor(a[1] / b[0]))
        if op is ast.Mod and b[0] == b[1] and b[0] > 0:
            m = b[0]
            k0, k1 = a[0] // m, a[1] // m
            if k0 == k1:
                return FInt(a[0] - k0 * m, a[1] - k0 * m)
            return FInt(0, m)
        if op is ast.Pow and not reflected and b[0] == b[1] and b[0].denominator == 1 and b[0] >= 0 and a[0] >= 0:
            return FInt(a[0] ** int(b[0]), a[1] ** int(b[0]))
        return NotImplemented

    def a_compare(self, interp, op, other, reflected, node):
        if isinstance(other, FInt):
            olo, ohi = other.lo, other.hi
        else:
            c = _frac(other)
            if c is None:
                return NotImplemented
            olo = ohi = c
        a, b = (self.lo, self.hi), (olo, ohi)
        if reflected:
            a, b = b, a
        label = "%s %s %s" % (self.label, op.__name__, other)
        if op is ast.Lt:
            return True if a[1] < b[0] else (False if a[0] >= b[1] else interp.fork(label))
        if op is ast.LtE:
            return True if a[1] <= b[0] else (False if a[0] > b[1] else interp.fork(label))
        if op is ast.Gt:
            return True if a[0] > b[1] else (False if a[1] <= b[0] else interp.fork(label))
        if op is ast.GtE:
            return True if a[0] >= b[1] else (False if a[1] < b[0] else interp.fork(label))
        if op in (ast.Eq, ast.NotEq):
            if a[1] < b[0] or b[1] < a[0]:
                r = False
            elif a[0] == a[1] == b[0] == b[1]:
                r = True
            else:
                r = interp.fork(label)
                if r and not isinstance(other, FInt):
                    interp.__dict__.setdefault("fint_equal", {})[id(self)] = other
            return r if op is ast.Eq else not r
        return NotImplemented


def fint_builtin_wrap(interp):
    """float()/abs() of an interval: float is the identity."""
    orig = interp.call_builtin

    def cb(name, args, kwargs, node=None):
        if name == "float" and args and isinstance(args[0], (FInt, RatFun)):
            return args[0]
        if name == "abs" and len(args) == 1 and isinstance(args[0], FInt):
            lo, hi = args[0].lo, args[0].hi
            if lo >= 0:
                return args[0]
            if hi <= 0:
                return FInt(-hi, -lo, args[0].label)
            return FInt(0, max(-lo, hi), args[0].label)
        return orig(name, args, kwargs, node)
    interp.call_builtin = cb


# ----------------------------------------------------------------------------- rational functions
class Poly:
    """Multivariate polynomial: dict {monomial (tuple of (var, exp))) -> Fraction}."""

    def __init__(self, terms=None):
        self.terms = {m: c for m, c in (terms or {}).items() if c != 0}

    @staticmethod
    def const(c):
        return Poly({(): Fraction(c)})

    @staticmethod
    def var(name):
        return Poly({((name, 1),): Fraction(1)})

    def __add__(self, o):
        t = dict(self.terms)
        for m, c in o.terms.items():
            t[m] = t.get(m, 0) + c
        return Poly(t)

    def __neg__(self):
        return Poly({m: -c for m, c in self.terms.items()})

    def __sub__(self, o):
        return self + (-o)

    def __mul__(self, o):
        t = {}
        for m1, c1 in self.terms.items():
            for m2, c2 in o.terms.items():
                d = dict(m1)
                for v, e in m2:
                    d[v] = d.get(v, 0) + e
                m = tuple(sorted(d.items()))
                t[m] = t.get(m, 0) + c1 * c2
        return Poly(t)

    def is_zero(self):
        return not self.terms

    def __eq__(self, o):
        return (self - o).is_zero()

    def __repr__(self):
        if not self.terms:
            return "0"
        return " + ".join("%s%s" % (c, "".join("*%s^%d" % ve for ve in m)) for m, c in sorted(self.terms.items()))


class RatFun:
    def __init__(self, num, den=None):
        self.num = num
        self.den = den if den is not None else Poly.const(1)
        if self.den.is_zero():
            raise CannotDecide("division by zero polynomial")

    @staticmethod
    def of(x):
        if isinstance(x, RatFun):
            return x
        c = _frac(x)
        if c is None:
            return None
        return RatFun(Poly.const(c))

    @staticmethod
    def var(name):
        return RatFun(Poly.var(name))

    def same(self, o):
        o = RatFun.of(o)
        return (self.num * o.den) == (o.num * self.den)

    def __repr__(self):
        return "(%r)/(%r)" % (self.num, self.den)

    def a_binop(self, interp, op, other, reflected, node):
        o = RatFun.of(other)
        if o is None:
            return NotImplemented
        a, b = (o, self) if reflected else (self, o)
        if op is ast.Add:
            return RatFun(a.num * b.den + b.num * a.den, a.den * b.den)
        if op is ast.Sub:
            return RatFun(a.num * b.den - b.num * a.den, a.den * b.den)
        if op is ast.Mult:
            return RatFun(a.num * b.num, a.den * b.den)
        if op is ast.Div:
            if b.num.is_zero():
                from .absint import RaiseEx
                raise RaiseEx("ZeroDivisionError", node)
            return RatFun(a.num * b.den, a.den * b.num)
        if op is ast.FloorDiv and "tick_syms" in interp.__dict__:
            # a // b in the MIDI domain: the truncated quotient, a tick count of its own (not the rounded one)
            if b.num.is_zero():
                from .absint import RaiseEx
                raise RaiseEx("ZeroDivisionError", node)
            from .absval import Lin, Sym, INF
            q = RatFun(a.num * b.den, a.den * b.num)
            ticks = interp.__dict__["tick_syms"]
            key = "floor:" + repr(q)
            if key not in ticks:
                ticks[key] = (Sym("floor_ticks(%s)" % (len(ticks)), 0, INF), None)
            return Lin.of(ticks[key][0])
        if op is ast.Pow and not reflected:
            c = _frac(other)
            if c is not None and c.denominator == 1 and 0 <= c <= 16:
                r = RatFun(Poly.const(1))
                for _ in range(int(c)):
                    r = RatFun(r.num * a.num, r.den * a.den)
                return r
        return NotImplemented


def _ratfun_fraction(self, interp, node):
    """Fraction(x) of a rational function of exact symbols is that function."""
    return self


def _ratfun_method(self, interp, name, args, kwargs, node):
    if name == "limit_denominator":
        # the symbols stand for note values and lengths, whose denominators are small
        return self
    return NotImplemented


class RatPart:
    """x.numerator / x.denominator of a rational-function symbol: only their quotient is known (it is x, or 1/x)."""

    def __init__(self, of, which):
        self.of, self.which = of, which

    def __repr__(self):
        return "%s(%r)" % (self.which, self.of)

    def a_binop(self, interp, op, other, reflected, node):
        if op is ast.Div and isinstance(other, RatPart) and other.of is self.of and other.which != self.which:
            top = other if reflected else self
            return self.of if top.which == "numerator" else RatFun(self.of.den, self.of.num)
        return NotImplemented


def _ratfun_getattr(self, interp, name, node):
    if name in ("numerator", "denominator"):
        return RatPart(self, name)
    return NotImplemented


def ratpart_fraction(args):
    """Fraction(a, b) of the two parts of one symbol: the symbol or its reciprocal; NotImplemented otherwise."""
    if len(args) == 2 and all(isinstance(a, RatPart) for a in args) and args[0].of is args[1].of and args[0].which != args[1].which:
        r = args[0].of
        return r if args[0].which == "numerator" else RatFun(r.den, r.num)
    return NotImplemented


RatFun.a_fraction = _ratfun_fraction
RatFun.a_method = _ratfun_method
RatFun.a_getattr = _ratfun_getattr


def _ratfun_compare(self, interp, op, other, reflected, node):
    o = RatFun.of(other)
    if o is None:
        if other is None and op in (ast.Eq, ast.NotEq):
            return op is ast.NotEq
        return NotImplemented
    a, b = (o, self) if reflected else (self, o)
    if a.same(b):
        # the same rational function on both sides: every comparison is decided
        return op in (ast.Eq, ast.LtE, ast.GtE)
    r = interp.fork("%s %s %s" % (a, op.__name__, b))
    interp.__dict__.setdefault("log", []).append(("cmp", op.__name__, a, b, r))
    return r


RatFun.a_compare = _ratfun_compare
