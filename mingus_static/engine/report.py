"""Reporting layer: rule instances (= obligations), findings, known findings, evidence."""
from __future__ import annotations

import hashlib
import json
import os
import time

from .loader import AnalysisError, norm, short

VERIF = os.path.dirname(os.path.dirname(os.path.dirname(os.path.abspath(__file__))))
EVIDENCE_DIR = os.path.join(VERIF, "evidence")
FINDINGS_DIR = os.path.join(EVIDENCE_DIR, "findings")
KNOWN_FILE = os.path.join(VERIF, "known_findings.json")


def load_known():
    if not os.path.exists(KNOWN_FILE):
        return {"open": [], "fixed": []}
    with open(KNOWN_FILE) as fh:
        return json.load(fh)


class Ctx:
    """Collects rule instances for one property on one run."""

    def __init__(self, prop, tier, repo, seed=0):
        self.prop = prop
        self.tier = tier
        self.repo = repo
        self.seed = seed
        self.t0 = time.time()
        self.instances = []  # dict(rule, instance, status, where, facts)
        self.findings = []  # violated, not known
        self.known_hits = []
        self.notes = []
        self.errors = []  # analysis errors (strings)
        self.floors = {}  # rule -> min instances
        self.units = set()
        self.funcs = set()
        self.samples = []
        self.extra = {}
        kf = load_known()
        self.known_open = {e["key"]: e for e in kf.get("open", []) if e.get("property") == prop}

    # -- bookkeeping -------------------------------------------------------
    def touch(self, *objs):
        """Record analysed units (modules / functions) for the evidence file."""
        for o in objs:
            if o is None:
                continue
            if hasattr(o, "qualname"):
                self.funcs.add("%s.%s" % (o.module.name, o.qualname))
                self.units.add(o.module.relpath)
            elif hasattr(o, "relpath"):
                self.units.add(o.relpath)

    def floor(self, rule, n):
        self.floors[rule] = n

    def held(self, rule, instance, where=None, **facts):
        self.instances.append({"rule": rule, "instance": instance, "status": "held",
                               "where": where, "facts": _jsonable(facts)})
        if len(self.samples) < 60 and facts:
            pass

    def violated(self, rule, instance, where, construct, message, **facts):
        """``construct`` identifies the offending code by normalised text (never a line number)."""
        message = message if len(message) <= 700 else message[:700] + " ...[truncated]"
        key = "%s|%s|%s" % (rule, instance, " ".join(norm(construct).split()))
        rec = {"rule": rule, "instance": instance, "status": "violated", "where": where,
               "construct": short(construct, 200), "message": message, "key": key,
               "facts": _jsonable(facts)}
        if key in self.known_open:
            rec["status"] = "known"
            self.known_hits.append(rec)
        else:
            self.findings.append(rec)
        self.instances.append(rec)

    def check(self, cond, rule, instance, where, construct, message, **facts):
        if cond:
            self.held(rule, instance, where, **facts)
        else:
            self.violated(rule, instance, where, construct, message, **facts)
        return bool(cond)

    def note(self, rule, message, where=None):
        self.notes.append({"rule": rule, "message": message, "where": where})

    def error(self, message):
        self.errors.append(message)

    def sample(self, obj):
        if len(self.samples) < 40:
            self.samples.append(_jsonable(obj))

    # -- finishing ---------------------------------------------------------
    def finish(self, explanation, trusted_base, not_decided=""):
        # floors
        counts = {}
        for i in self.instances:
            counts[i["rule"]] = counts.get(i["rule"], 0) + 1
        for rule, n in self.floors.items():
            if counts.get(rule, 0) < n:
                self.error("rule %s matched %d instances, floor confirmed by hand is %d "
                           "(a rule that matches nothing passes vacuously)" % (rule, counts.get(rule, 0), n))
        os.makedirs(FINDINGS_DIR, exist_ok=True)
        lines = []
        for f in self.findings:
            h = hashlib.sha256(f["key"].encode()).hexdigest()[:12]
            path = os.path.join(FINDINGS_DIR, "%s-%s.json" % (self.prop, h))
            with open(path, "w") as fh:
                json.dump({"property": self.prop, **f}, fh, indent=1, sort_keys=True)
            lines.append("VIOLATION property=%s replay=%s" % (self.prop, path))
            lines.append("  rule=%s instance=%s at %s" % (f["rule"], f["instance"], f["where"]))
            lines.append("  construct: %s" % f["construct"])
            lines.append("  %s" % f["message"])
        for k in self.known_hits:
            lines.append("KNOWN-FINDING: property=%s %s [%s at %s]" % (
                self.prop, self.known_open[k["key"]].get("what", k["message"]), k["rule"], k["where"]))
        for e in self.errors:
            lines.append("ANALYSIS-ERROR property=%s %s" % (self.prop, e))
        obligations = len(self.instances)
        discharged = sum(1 for i in self.instances if i["status"] == "held")
        distinct = len({(i["rule"], i["instance"]) for i in self.instances})
        samples = [
            {"rule": i["rule"], "instance": i["instance"], "where": i["where"], "status": i["status"],
             "facts": i["facts"]}
            for i in _spread(self.instances, 12)
        ] + self.samples[:8]
        if not samples:
            samples = [{"note": "no rule instance matched"}]
        ev = {
            "property_id": self.prop,
            "tier": self.tier,
            "seed": int(self.seed),
            "level": "other",
            "coverage": {
                "explanation": explanation,
                "not_decided": not_decided,
                "obligations": obligations,
                "discharged": discharged,
                "known_findings": len(self.known_hits),
                "violated": len(self.findings),
                "evaluations": obligations,
                "distinct_nontrivial": distinct,
                "rule": "one evaluation = one rule instance derived from the current source of /repo "
                        "(a table row, a function summary, a call site, a path); distinct = distinct "
                        "(rule, instance) pairs; every instance is non-trivial in that it binds to a "
                        "construct found in the tree (vacuous rules trip their floor instead)",
                "samples": samples,
                "checker_cmd": "/venv/bin/python /verif/check %s --tier %s" % (self.prop, self.tier),
                "trusted_base": trusted_base,
                "units_parsed": sorted(self.units),
                "functions_analysed": len(self.funcs),
                "functions": sorted(self.funcs)[:400],
                "instances_per_rule": counts,
                "floors": self.floors,
                "notes": self.notes[:60],
                "analysis_errors": self.errors,
                "repo_root": self.repo.root,
                "source_digest": self.repo.digest(),
                **self.extra,
            },
            "wall_s": round(time.time() - self.t0, 3),
            "violations": len(self.findings),
        }
        os.makedirs(EVIDENCE_DIR, exist_ok=True)
        if os.environ.get("MINGUS_STATIC_NO_EVIDENCE") != "1":
            with open(os.path.join(EVIDENCE_DIR, "%s.json" % self.prop), "w") as fh:
                json.dump(ev, fh, indent=1, sort_keys=True, default=str)
        status = 1 if self.findings else (2 if self.errors else 0)
        return status, lines, ev


def _spread(items, n):
    if len(items) <= n:
        return items
    step = len(items) / float(n)
    return [items[int(i * step)] for i in range(n)]


def _jsonable(o):
    if isinstance(o, dict):
        return {str(k): _jsonable(v) for k, v in o.items()}
    if isinstance(o, (list, tuple, set, frozenset)):
        return [_jsonable(v) for v in (sorted(o, key=repr) if isinstance(o, (set, frozenset)) else o)]
    if isinstance(o, (str, int, float, bool)) or o is None:
        return o
    return repr(o)
