"""Recording stubs: abstract objects whose method calls are logged instead of evaluated."""
from __future__ import annotations

from .absval import AObj, Opaque
from .absint import Interp, explore, CannotDecide


def log_of(it):
    return it.__dict__.setdefault("log", [])


def recorder(key, result=None):
    """Summary that logs (key, args, kwargs) on the interpreter and returns ``result`` (value or callable(it, args, kwargs))."""
    def f(it, args, kwargs, node):
        log_of(it).append((key, list(args), dict(kwargs)))
        if callable(result):
            return result(it, args, kwargs)
        return result
    return f


def stub(repo, modname, clsname, name=None, **attrs):
    ci = repo.mod(modname).cls(clsname)
    return AObj(ci, attrs, name=name or clsname.lower())


def record_class(repo, modname, clsname, methods, result=None):
    """Summaries for the given methods of a class (resolved through the MRO to their defining class)."""
    ci = repo.mod(modname).cls(clsname)
    out = {}
    for m in methods:
        fi = repo.find_method(ci, m)
        if fi is None:
            continue
        key = "%s.%s" % (fi.module.name, fi.qualname)
        res = result.get(m) if isinstance(result, dict) else result
        out[key] = recorder("%s.%s" % (clsname, m), res)
    return out


def run_method(repo, fi, make_args, summaries=None, kwargs=None, **ikw):
    def mk(ch):
        return Interp(repo, ch, summaries=summaries, **ikw)

    def run(it):
        args = make_args() if callable(make_args) else list(make_args)
        it.args = args
        return it.call_function(fi, args, dict(kwargs or {}))
    return explore(mk, run)
