"""E1 -- loader, resolver, constant folding.

Parses every module under <root>/mingus with the stdlib ``ast`` module.  Nothing
from the analysed package is ever imported or executed.
"""
from __future__ import annotations

import ast
import hashlib
import os
import warnings
from typing import Dict, List, Optional, Tuple, Any


class AnalysisError(Exception):
    """Anchor vanished / construct outside the analysable subset / floor not met.

    Reported as ANALYSIS-ERROR (exit 2); never as a verdict about the repository.
    """


class NotConst(Exception):
    pass


def norm(node) -> str:
    """Normalised source text of an AST node (position independent)."""
    if isinstance(node, str):
        return node
    if isinstance(node, list):
        return "; ".join(norm(n) for n in node)
    try:
        return ast.unparse(node)
    except Exception:  # pragma: no cover
        return ast.dump(node)


def short(node, n=110) -> str:
    s = norm(node).replace("\n", " ")
    s = " ".join(s.split())
    return s if len(s) <= n else s[: n - 3] + "..."


class FuncInfo:
    def __init__(self, module, qualname, node, cls=None, parent=None):
        self.module = module
        self.qualname = qualname
        self.node = node
        self.cls = cls  # ClassInfo or None
        self.parent = parent  # enclosing FuncInfo for nested defs
        self.name = node.name if not isinstance(node, ast.Lambda) else "<lambda>"

    @property
    def params(self) -> List[str]:
        a = self.node.args
        return [x.arg for x in a.posonlyargs + a.args + a.kwonlyargs]

    @property
    def defaults(self) -> Dict[str, ast.AST]:
        a = self.node.args
        pos = a.posonlyargs + a.args
        out = {}
        for p, d in zip(pos[len(pos) - len(a.defaults):], a.defaults):
            out[p.arg] = d
        for p, d in zip(a.kwonlyargs, a.kw_defaults):
            if d is not None:
                out[p.arg] = d
        return out

    @property
    def body(self):
        b = self.node.body
        if isinstance(self.node, ast.Lambda):
            return [ast.Return(value=b)]
        if b and isinstance(b[0], ast.Expr) and isinstance(getattr(b[0], "value", None), ast.Constant) \
                and isinstance(b[0].value.value, str):
            return b[1:]
        return b

    @property
    def docstring(self):
        if isinstance(self.node, ast.Lambda):
            return None
        return ast.get_docstring(self.node)

    def where(self, node=None) -> str:
        n = node if node is not None and hasattr(node, "lineno") else self.node
        return "%s:%d" % (self.module.relpath, getattr(n, "lineno", 0))

    def __repr__(self):
        return "<Func %s.%s>" % (self.module.name, self.qualname)


class ClassInfo:
    def __init__(self, module, node):
        self.module = module
        self.node = node
        self.name = node.name
        self.methods: Dict[str, FuncInfo] = {}
        self.attrs: Dict[str, ast.AST] = {}  # class-level assignments
        self.attr_nodes: Dict[str, ast.AST] = {}
        self.base_exprs = node.bases

    def __repr__(self):
        return "<Class %s.%s>" % (self.module.name, self.name)


class Module:
    def __init__(self, repo, name, path, relpath, source):
        self.repo = repo
        self.name = name
        self.path = path
        self.relpath = relpath
        self.source = source
        with warnings.catch_warnings():
            warnings.simplefilter("ignore")
            self.tree = ast.parse(source, filename=path)
        self.functions: Dict[str, FuncInfo] = {}
        self.classes: Dict[str, ClassInfo] = {}
        self.globals: Dict[str, ast.AST] = {}  # last top-level simple assignment value
        self.global_assign_nodes: Dict[str, List[ast.AST]] = {}
        self.imports: Dict[str, Tuple[str, ...]] = {}  # local -> ('module', dotted) | ('symbol', dotted, name)
        self.star_imports: List[str] = []
        self._index()

    # -- indexing ---------------------------------------------------------
    def _index(self):
        for st in self.tree.body:
            self._index_stmt(st)
        # nested imports inside functions (midi_file_out does that) -- record too
        for node in ast.walk(self.tree):
            if isinstance(node, (ast.Import, ast.ImportFrom)):
                self._index_import(node, toplevel=False)

    def _index_import(self, st, toplevel=True):
        if isinstance(st, ast.Import):
            for a in st.names:
                if a.asname:
                    self.imports.setdefault(a.asname, ("module", a.name))
                else:
                    top = a.name.split(".")[0]
                    self.imports.setdefault(top, ("module", top))
        else:
            if st.module is None or st.level:
                return
            for a in st.names:
                if a.name == "*":
                    if st.module not in self.star_imports:
                        self.star_imports.append(st.module)
                    continue
                local = a.asname or a.name
                self.imports.setdefault(local, ("symbol", st.module, a.name))

    def _index_stmt(self, st):
        if isinstance(st, (ast.Import, ast.ImportFrom)):
            self._index_import(st)
        elif isinstance(st, ast.FunctionDef):
            self._index_func(st, st.name, None, None)
        elif isinstance(st, ast.ClassDef):
            ci = ClassInfo(self, st)
            self.classes[st.name] = ci
            for s in st.body:
                if isinstance(s, ast.FunctionDef):
                    fi = self._index_func(s, "%s.%s" % (st.name, s.name), ci, None)
                    ci.methods[s.name] = fi
                elif isinstance(s, ast.Assign):
                    for t in s.targets:
                        if isinstance(t, ast.Name):
                            ci.attrs[t.id] = s.value
                            ci.attr_nodes[t.id] = s
                elif isinstance(s, ast.AnnAssign) and isinstance(s.target, ast.Name) and s.value is not None:
                    ci.attrs[s.target.id] = s.value
                    ci.attr_nodes[s.target.id] = s
        elif isinstance(st, ast.Assign):
            for t in st.targets:
                if isinstance(t, ast.Name):
                    self.globals[t.id] = st.value
                    self.global_assign_nodes.setdefault(t.id, []).append(st)
                elif isinstance(t, (ast.Tuple, ast.List)) and isinstance(st.value, (ast.Tuple, ast.List)) \
                        and len(t.elts) == len(st.value.elts):
                    for te, ve in zip(t.elts, st.value.elts):
                        if isinstance(te, ast.Name):
                            self.globals[te.id] = ve
                            self.global_assign_nodes.setdefault(te.id, []).append(st)
        elif isinstance(st, ast.AnnAssign) and isinstance(st.target, ast.Name) and st.value is not None:
            self.globals[st.target.id] = st.value
            self.global_assign_nodes.setdefault(st.target.id, []).append(st)
        elif isinstance(st, (ast.If, ast.Try)):
            # conditional top-level definitions (e.g. ``if __name__ == ...``) -- index defs only
            for s in ast.iter_child_nodes(st):
                if isinstance(s, (ast.FunctionDef, ast.ClassDef)):
                    self._index_stmt(s)

    def _index_func(self, node, qualname, cls, parent):
        fi = FuncInfo(self, qualname, node, cls, parent)
        self.functions[qualname] = fi
        for sub in self._direct_nested_defs(node):
            self._index_func(sub, "%s.<locals>.%s" % (qualname, sub.name), cls, fi)
        return fi

    @staticmethod
    def _direct_nested_defs(fnode):
        out = []

        def rec(n):
            for c in ast.iter_child_nodes(n):
                if isinstance(c, ast.FunctionDef):
                    out.append(c)
                elif isinstance(c, (ast.ClassDef, ast.Lambda)):
                    continue
                else:
                    rec(c)
        rec(fnode)
        return out

    # -- lookup -----------------------------------------------------------
    def func(self, qualname) -> FuncInfo:
        if qualname not in self.functions:
            raise AnalysisError("anchor vanished: function %s.%s not found" % (self.name, qualname))
        return self.functions[qualname]

    def cls(self, name) -> ClassInfo:
        if name not in self.classes:
            raise AnalysisError("anchor vanished: class %s.%s not found" % (self.name, name))
        return self.classes[name]

    def glob(self, name) -> ast.AST:
        if name not in self.globals:
            raise AnalysisError("anchor vanished: module-level name %s.%s not found" % (self.name, name))
        return self.globals[name]

    def const(self, name):
        """Constant-fold a module-level name."""
        return self.repo.const_eval(self, self.glob(name))

    def where(self, node) -> str:
        return "%s:%d" % (self.relpath, getattr(node, "lineno", 0))


_SAFE_BUILTINS = {
    "len": len, "range": range, "list": list, "tuple": tuple, "dict": dict, "set": set,
    "sorted": sorted, "reversed": lambda x: list(reversed(x)), "min": min, "max": max,
    "sum": sum, "abs": abs, "int": int, "float": float, "str": str, "bool": bool,
    "enumerate": lambda x: list(enumerate(x)), "zip": lambda *a: list(zip(*a)),
    "chr": chr, "ord": ord, "pow": pow, "round": round, "frozenset": frozenset,
    "bytes": bytes,
}

_BINOPS = {
    ast.Add: lambda a, b: a + b, ast.Sub: lambda a, b: a - b, ast.Mult: lambda a, b: a * b,
    ast.Div: lambda a, b: a / b, ast.FloorDiv: lambda a, b: a // b, ast.Mod: lambda a, b: a % b,
    ast.Pow: lambda a, b: a ** b, ast.LShift: lambda a, b: a << b, ast.RShift: lambda a, b: a >> b,
    ast.BitOr: lambda a, b: a | b, ast.BitAnd: lambda a, b: a & b, ast.BitXor: lambda a, b: a ^ b,
}

_CMPOPS = {
    ast.Eq: lambda a, b: a == b, ast.NotEq: lambda a, b: a != b, ast.Lt: lambda a, b: a < b,
    ast.LtE: lambda a, b: a <= b, ast.Gt: lambda a, b: a > b, ast.GtE: lambda a, b: a >= b,
    ast.In: lambda a, b: a in b, ast.NotIn: lambda a, b: a not in b,
    ast.Is: lambda a, b: a is b, ast.IsNot: lambda a, b: a is not b,
}


class FuncRef:
    """Constant-folded reference to a function of the analysed package."""

    def __init__(self, fi: FuncInfo):
        self.fi = fi

    def __eq__(self, other):
        return isinstance(other, FuncRef) and other.fi is self.fi

    def __hash__(self):
        return hash(id(self.fi))

    def __repr__(self):
        return "<fn %s.%s>" % (self.fi.module.name, self.fi.qualname)


class Repo:
    def __init__(self, root="/repo", package="mingus"):
        self.root = os.path.abspath(root)
        self.package = package
        self.modules: Dict[str, Module] = {}
        self.parse_errors: List[str] = []
        pk = os.path.join(self.root, package)
        if not os.path.isdir(pk):
            raise AnalysisError("package directory %s not found" % pk)
        for d, dirs, files in os.walk(pk):
            dirs[:] = sorted(x for x in dirs if x != "__pycache__")
            for f in sorted(files):
                if not f.endswith(".py"):
                    continue
                path = os.path.join(d, f)
                rel = os.path.relpath(path, self.root)
                name = rel[:-3].replace(os.sep, ".")
                if name.endswith(".__init__"):
                    name = name[: -len(".__init__")]
                with open(path, "r", encoding="utf-8") as fh:
                    src = fh.read()
                try:
                    self.modules[name] = Module(self, name, path, rel, src)
                except SyntaxError as e:
                    self.parse_errors.append("%s: %s" % (rel, e))
        self._const_cache: Dict[Tuple[str, str], Any] = {}

    # -- lookup -----------------------------------------------------------
    def mod(self, name) -> Module:
        if name not in self.modules:
            raise AnalysisError("anchor vanished: module %s not found" % name)
        return self.modules[name]

    def digest(self, names=None) -> str:
        h = hashlib.sha256()
        for n in sorted(names or self.modules):
            h.update(n.encode())
            h.update(self.modules[n].source.encode())
        return h.hexdigest()[:16]

    def n_functions(self, names=None) -> int:
        return sum(len(self.modules[n].functions) for n in (names or self.modules) if n in self.modules)

    # -- name resolution --------------------------------------------------
    def resolve_name(self, mod: Module, name: str, _depth=0):
        """Resolve a bare name in module scope.

        Returns ('func', FuncInfo) | ('class', ClassInfo) | ('module', Module) |
        ('global', Module, name) | ('external', dotted) | None
        """
        if _depth > 8:
            return None
        if name in mod.functions and "." not in name:
            return ("func", mod.functions[name])
        if name in mod.classes:
            return ("class", mod.classes[name])
        if name in mod.globals:
            return ("global", mod, name)
        if name in mod.imports:
            imp = mod.imports[name]
            if imp[0] == "module":
                if imp[1] in self.modules:
                    return ("module", self.modules[imp[1]])
                return ("external", imp[1])
            _, dotted, sym = imp
            full = dotted + "." + sym
            if full in self.modules:
                return ("module", self.modules[full])
            if dotted in self.modules:
                return self.resolve_name(self.modules[dotted], sym, _depth + 1)
            return ("external", full)
        for sm in mod.star_imports:
            if sm in self.modules:
                r = self.resolve_name(self.modules[sm], name, _depth + 1)
                if r is not None:
                    return r
        return None

    def resolve_expr(self, mod: Module, node, cls: Optional[ClassInfo] = None):
        """Resolve Name / dotted Attribute / self.method to a package entity."""
        if isinstance(node, ast.Name):
            return self.resolve_name(mod, node.id)
        if isinstance(node, ast.Attribute):
            if isinstance(node.value, ast.Name) and node.value.id == "self" and cls is not None:
                m = self.find_method(cls, node.attr)
                if m is not None:
                    return ("func", m)
                return None
            base = self.resolve_expr(mod, node.value, cls)
            if base is None:
                return None
            if base[0] == "module":
                bm = base[1]
                sub = bm.name + "." + node.attr
                if sub in self.modules:
                    return ("module", self.modules[sub])
                return self.resolve_name(bm, node.attr)
            if base[0] == "class":
                m = self.find_method(base[1], node.attr)
                if m is not None:
                    return ("func", m)
                if node.attr in base[1].attrs:
                    return ("classattr", base[1], node.attr)
                return None
            if base[0] == "external":
                return ("external", base[1] + "." + node.attr)
        return None

    def resolve_call(self, mod: Module, call: ast.Call, cls: Optional[ClassInfo] = None):
        r = self.resolve_expr(mod, call.func, cls)
        return r

    # -- classes ----------------------------------------------------------
    def bases(self, ci: ClassInfo) -> List[ClassInfo]:
        out = []
        for b in ci.base_exprs:
            r = self.resolve_expr(ci.module, b)
            if r and r[0] == "class":
                out.append(r[1])
        return out

    def mro(self, ci: ClassInfo) -> List[ClassInfo]:
        out, seen = [], set()

        def rec(c):
            if id(c) in seen:
                return
            seen.add(id(c))
            out.append(c)
            for b in self.bases(c):
                rec(b)
        rec(ci)
        return out

    def find_method(self, ci: ClassInfo, name) -> Optional[FuncInfo]:
        for c in self.mro(ci):
            if name in c.methods:
                return c.methods[name]
        return None

    def subclasses(self, ci: ClassInfo) -> List[ClassInfo]:
        out = []
        for m in self.modules.values():
            for c in m.classes.values():
                if c is not ci and ci in self.bases(c):
                    out.append(c)
        return out

    # -- constant folding -------------------------------------------------
    def const_eval(self, mod: Module, node, env: Optional[dict] = None, _depth=0):
        """Fold an expression built from literals, module-level constants, arithmetic,
        comprehensions over constant tables and whitelisted pure builtins.  References
        to package functions fold to FuncRef.  Raises NotConst otherwise."""
        if _depth > 40:
            raise NotConst("depth")
        env = env or {}
        ce = lambda n, e=env: self.const_eval(mod, n, e, _depth + 1)
        if isinstance(node, ast.Constant):
            return node.value
        if isinstance(node, ast.Name):
            if node.id in env:
                return env[node.id]
            if node.id in ("True", "False", "None"):
                return {"True": True, "False": False, "None": None}[node.id]
            r = self.resolve_name(mod, node.id)
            if r is None:
                if node.id in _SAFE_BUILTINS:
                    return _SAFE_BUILTINS[node.id]
                raise NotConst("unresolved name %s" % node.id)
            if r[0] == "global":
                key = (r[1].name, r[2])
                if key in self._const_cache:
                    return self._const_cache[key]
                v = self.const_eval(r[1], r[1].globals[r[2]], None, _depth + 1)
                self._const_cache[key] = v
                return v
            if r[0] == "func":
                return FuncRef(r[1])
            raise NotConst("name %s is %s" % (node.id, r[0]))
        if isinstance(node, ast.Attribute):
            r = self.resolve_expr(mod, node)
            if r is None:
                raise NotConst("unresolved attribute %s" % norm(node))
            if r[0] == "global":
                return self.const_eval(r[1], r[1].globals[r[2]], None, _depth + 1)
            if r[0] == "func":
                return FuncRef(r[1])
            if r[0] == "classattr":
                return self.const_eval(r[1].module, r[1].attrs[r[2]], None, _depth + 1)
            raise NotConst("attribute %s is %s" % (norm(node), r[0]))
        if isinstance(node, (ast.List, ast.Tuple, ast.Set)):
            vals = []
            for e in node.elts:
                if isinstance(e, ast.Starred):
                    vals.extend(ce(e.value))
                else:
                    vals.append(ce(e))
            if isinstance(node, ast.List):
                return vals
            if isinstance(node, ast.Tuple):
                return tuple(vals)
            return set(vals)
        if isinstance(node, ast.Dict):
            d = {}
            for k, v in zip(node.keys, node.values):
                if k is None:
                    d.update(ce(v))
                else:
                    d[ce(k)] = ce(v)
            return d
        if isinstance(node, ast.BinOp):
            op = _BINOPS.get(type(node.op))
            if op is None:
                raise NotConst("binop")
            a, b = ce(node.left), ce(node.right)
            try:
                return op(a, b)
            except Exception as e:
                raise NotConst("binop raised %r" % e)
        if isinstance(node, ast.UnaryOp):
            v = ce(node.operand)
            if isinstance(node.op, ast.USub):
                return -v
            if isinstance(node.op, ast.UAdd):
                return +v
            if isinstance(node.op, ast.Not):
                return not v
            if isinstance(node.op, ast.Invert):
                return ~v
        if isinstance(node, ast.BoolOp):
            vals = [ce(v) for v in node.values]
            if isinstance(node.op, ast.And):
                r = True
                for v in vals:
                    r = v
                    if not v:
                        break
                return r
            r = False
            for v in vals:
                r = v
                if v:
                    break
            return r
        if isinstance(node, ast.Compare):
            left = ce(node.left)
            for op, c in zip(node.ops, node.comparators):
                right = ce(c)
                if not _CMPOPS[type(op)](left, right):
                    return False
                left = right
            return True
        if isinstance(node, ast.IfExp):
            return ce(node.body) if ce(node.test) else ce(node.orelse)
        if isinstance(node, ast.Subscript):
            v = ce(node.value)
            if isinstance(node.slice, ast.Slice):
                lo = ce(node.slice.lower) if node.slice.lower else None
                hi = ce(node.slice.upper) if node.slice.upper else None
                st = ce(node.slice.step) if node.slice.step else None
                return v[lo:hi:st]
            try:
                return v[ce(node.slice)]
            except NotConst:
                raise
            except Exception as e:
                raise NotConst("subscript raised %r" % e)
        if isinstance(node, (ast.ListComp, ast.SetComp, ast.GeneratorExp, ast.DictComp)):
            results = []

            def rec(gi, e):
                if gi == len(node.generators):
                    if isinstance(node, ast.DictComp):
                        results.append((self.const_eval(mod, node.key, e, _depth + 1),
                                        self.const_eval(mod, node.value, e, _depth + 1)))
                    else:
                        results.append(self.const_eval(mod, node.elt, e, _depth + 1))
                    return
                g = node.generators[gi]
                for item in self.const_eval(mod, g.iter, e, _depth + 1):
                    e2 = dict(e)
                    self._bind(g.target, item, e2)
                    if all(self.const_eval(mod, c, e2, _depth + 1) for c in g.ifs):
                        rec(gi + 1, e2)
            rec(0, dict(env))
            if isinstance(node, ast.DictComp):
                return dict(results)
            if isinstance(node, ast.SetComp):
                return set(results)
            return results
        if isinstance(node, ast.Call):
            # pure builtins and pure methods of constants only
            if isinstance(node.func, ast.Name) and node.func.id in _SAFE_BUILTINS \
                    and node.func.id not in env \
                    and (self.resolve_name(mod, node.func.id) or ("external",))[0] == "external":
                args = [ce(a) for a in node.args]
                kw = {k.arg: ce(k.value) for k in node.keywords}
                try:
                    return _SAFE_BUILTINS[node.func.id](*args, **kw)
                except Exception as e:
                    raise NotConst("builtin raised %r" % e)
            if isinstance(node.func, ast.Attribute) and node.func.attr in (
                    "lower", "upper", "keys", "values", "items", "index", "count", "join", "split",
                    "replace", "strip", "startswith", "endswith", "get", "find", "format", "encode"):
                recv = ce(node.func.value)
                args = [ce(a) for a in node.args]
                try:
                    r = getattr(recv, node.func.attr)(*args)
                except Exception as e:
                    raise NotConst("method raised %r" % e)
                if node.func.attr in ("keys", "values", "items"):
                    r = list(r)
                return r
            if isinstance(node.func, ast.Name) and node.func.id == "a2b_hex":
                import binascii
                return binascii.a2b_hex(ce(node.args[0]))
            raise NotConst("call %s" % short(node))
        if isinstance(node, ast.JoinedStr):
            raise NotConst("fstring")
        if isinstance(node, ast.Lambda):
            return FuncRef(FuncInfo(mod, "<lambda>@%d" % node.lineno, node))
        raise NotConst("unsupported %s" % type(node).__name__)

    def _bind(self, target, value, env):
        if isinstance(target, ast.Name):
            env[target.id] = value
        elif isinstance(target, (ast.Tuple, ast.List)):
            vals = list(value)
            if len(vals) != len(target.elts):
                raise NotConst("unpack")
            for t, v in zip(target.elts, vals):
                self._bind(t, v, env)
        else:
            raise NotConst("bind target")

    def try_const(self, mod, node, env=None, default=None):
        try:
            return self.const_eval(mod, node, env)
        except NotConst:
            return default


def walk_no_nested(node):
    """ast.walk that does not descend into nested function/class definitions (but yields them)."""
    todo = list(ast.iter_child_nodes(node)) if isinstance(node, (ast.FunctionDef, ast.Lambda, ast.AsyncFunctionDef)) else [node]
    if isinstance(node, list):
        todo = list(node)
    while todo:
        n = todo.pop(0)
        yield n
        if isinstance(n, (ast.FunctionDef, ast.AsyncFunctionDef, ast.ClassDef, ast.Lambda)):
            continue
        todo.extend(ast.iter_child_nodes(n))


def calls_in(node):
    for n in (ast.walk(node) if not isinstance(node, list) else (x for s in node for x in ast.walk(s))):
        if isinstance(n, ast.Call):
            yield n
