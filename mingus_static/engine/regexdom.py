"""Regular expressions over abstract strings.

The repository has no regular expression today; a refactoring that introduces one (``is_valid_note`` written as a
pattern is the obvious candidate) must be judged on what the pattern accepts, not refused and not guessed.  The
pattern is parsed with the standard library's own parser (``re._parser``), compiled to a small Pike-style program
and simulated on the abstract string: literal characters step the program, a character class ``Ch`` steps it once
per member (the complement class through representatives of every set the pattern distinguishes), a ``Run`` /
``Rep`` is iterated to a fixpoint.  The answer is *matches for every concretisation*, *for none*, or *mixed*; a
mixed answer splits the path only when the simulation was exact (no run involved), otherwise it is CannotDecide.

Supported: literals, ``.``, classes (ranges, negation, \\d \\w \\s), groups, alternation, ``* + ? {m,n}`` (greedy and
lazy -- only the accept/reject answer is computed, so they coincide), ``^`` / ``\\A`` at the start, ``$`` / ``\\Z`` at
the end of the pattern or of an alternative.  Anything else raises CannotDecide naming the construct.
"""
from __future__ import annotations

import re

from .absval import AbsStr, Ch, Run, Lin, INF

try:
    from re import _parser as sre_parse, _constants as sre_c
except ImportError:  # python < 3.11
    import sre_parse
    import sre_constants as sre_c


class _Prog:
    def __init__(self):
        self.ins = []  # ('char', pred) | ('split', a, b) | ('jmp', a) | ('match',) | ('end', allow_newline) | ('begin',)
        self.alphabet = set("\n")
        self.categories = False

    def emit(self, *i):
        self.ins.append(list(i))
        return len(self.ins) - 1


def _pred_in(items, prog):
    from .absint import CannotDecide
    neg = False
    tests = []
    for op, av in items:
        if op is sre_c.NEGATE:
            neg = True
        elif op is sre_c.LITERAL:
            prog.alphabet.add(chr(av))
            tests.append(lambda c, k=chr(av): c == k)
        elif op is sre_c.RANGE:
            lo, hi = av
            if hi - lo <= 64:
                prog.alphabet.update(chr(x) for x in range(lo, hi + 1))
            else:
                prog.alphabet.update((chr(lo), chr(hi)))
                if lo > 0:
                    prog.alphabet.add(chr(lo - 1))
                prog.alphabet.add(chr(hi + 1))
            tests.append(lambda c, lo=lo, hi=hi: lo <= ord(c) <= hi)
        elif op is sre_c.CATEGORY:
            tests.append(_category(av, prog))
        else:
            raise CannotDecide("regular expression class item %s" % (op,))
    return (lambda c: not any(t(c) for t in tests)) if neg else (lambda c: any(t(c) for t in tests))


def _category(av, prog):
    from .absint import CannotDecide
    prog.categories = True
    prog.alphabet.update("0a_ \t")
    table = {
        sre_c.CATEGORY_DIGIT: lambda c: c.isdigit(), sre_c.CATEGORY_NOT_DIGIT: lambda c: not c.isdigit(),
        sre_c.CATEGORY_SPACE: lambda c: c.isspace(), sre_c.CATEGORY_NOT_SPACE: lambda c: not c.isspace(),
        sre_c.CATEGORY_WORD: lambda c: c.isalnum() or c == "_", sre_c.CATEGORY_NOT_WORD: lambda c: not (c.isalnum() or c == "_"),
    }
    if av not in table:
        raise CannotDecide("regular expression category %s" % (av,))
    return table[av]


def _compile_seq(items, prog, flags, at_start, at_end):
    """Emit code for a sequence; at_start/at_end say whether the sequence begins/ends the whole pattern."""
    from .absint import CannotDecide
    items = list(items)
    for n, (op, av) in enumerate(items):
        first, last = at_start and n == 0, at_end and n == len(items) - 1
        if op is sre_c.LITERAL:
            c = chr(av)
            prog.alphabet.add(c)
            if flags & re.IGNORECASE:
                prog.alphabet.update((c.lower(), c.upper()))
                prog.emit("char", lambda x, c=c: x.lower() == c.lower())
            else:
                prog.emit("char", lambda x, c=c: x == c)
        elif op is sre_c.NOT_LITERAL:
            c = chr(av)
            prog.alphabet.add(c)
            prog.emit("char", lambda x, c=c: x != c)
        elif op is sre_c.ANY:
            prog.emit("char", (lambda x: True) if flags & re.DOTALL else (lambda x: x != "\n"))
        elif op is sre_c.IN:
            p = _pred_in(av, prog)
            if flags & re.IGNORECASE:
                prog.emit("char", lambda x, p=p: p(x) or p(x.lower()) or p(x.upper()))
            else:
                prog.emit("char", p)
        elif op is sre_c.CATEGORY:
            prog.emit("char", _category(av, prog))
        elif op is sre_c.SUBPATTERN:
            sub = av[-1]
            _compile_seq(sub, prog, flags, first, last)
        elif op is sre_c.BRANCH:
            alts = av[1]
            jumps = []
            for k, alt in enumerate(alts):
                if k < len(alts) - 1:
                    sp = prog.emit("split", None, None)
                    prog.ins[sp][1] = len(prog.ins)
                _compile_seq(alt, prog, flags, first, last)
                if k < len(alts) - 1:
                    jumps.append(prog.emit("jmp", None))
                    prog.ins[sp][2] = len(prog.ins)
            for j in jumps:
                prog.ins[j][1] = len(prog.ins)
        elif op in (sre_c.MAX_REPEAT, sre_c.MIN_REPEAT):
            lo, hi, sub = av
            if lo > 16 or (hi is not sre_c.MAXREPEAT and hi > 16):
                raise CannotDecide("regular expression repeat {%s,%s}" % (lo, hi))
            for _ in range(lo):
                _compile_seq(sub, prog, flags, False, False)
            if hi is sre_c.MAXREPEAT:
                sp = prog.emit("split", None, None)
                prog.ins[sp][1] = len(prog.ins)
                _compile_seq(sub, prog, flags, False, False)
                prog.emit("jmp", sp)
                prog.ins[sp][2] = len(prog.ins)
            else:
                splits = []
                for _ in range(hi - lo):
                    sp = prog.emit("split", None, None)
                    prog.ins[sp][1] = len(prog.ins)
                    splits.append(sp)
                    _compile_seq(sub, prog, flags, False, False)
                for sp in splits:
                    prog.ins[sp][2] = len(prog.ins)
        elif op is sre_c.AT:
            if av in (sre_c.AT_BEGINNING, sre_c.AT_BEGINNING_STRING) and not (flags & re.MULTILINE and av is sre_c.AT_BEGINNING):
                prog.emit("begin")
            elif av is sre_c.AT_END_STRING:
                prog.emit("end", False)
            elif av is sre_c.AT_END and not flags & re.MULTILINE:
                prog.emit("end", True)
            else:
                raise CannotDecide("regular expression anchor %s" % (av,))
        else:
            raise CannotDecide("regular expression construct %s" % (op,))


class ARegex:
    """A compiled pattern."""

    def __init__(self, pattern, flags=0):
        from .absint import CannotDecide
        if not isinstance(pattern, str):
            raise CannotDecide("regular expression pattern %r is not a constant string" % (pattern,))
        self.pattern, self.flags = pattern, int(flags)
        self.real = re.compile(pattern, self.flags)
        self.prog = None

    def __repr__(self):
        return "ARegex(%r)" % self.pattern

    def _program(self):
        if self.prog is None:
            parsed = sre_parse.parse(self.pattern, self.flags)
            prog = _Prog()
            _compile_seq(parsed, prog, parsed.state.flags | self.flags, True, True)
            prog.emit("match")
            self.prog = prog
            for pc, i in enumerate(prog.ins):
                if i[0] == "end":
                    rest, _m = self._closure([pc + 1], False, True)
                    if any(not isinstance(t, tuple) and prog.ins[t][0] == "char" for t in rest):
                        self.prog = None
                        from .absint import CannotDecide
                        raise CannotDecide("regular expression with `$` before more text")
        return self.prog

    # ---- simulation: a configuration is (frozenset of threads, position is 0, matched already).
    # A thread is a pc, or ("nl", pc): a `$` at pc that has just let a newline pass and now needs the string to end.
    def _closure(self, threads, at_begin, at_end):
        prog = self.prog
        seen, stack, out, matched = set(), list(threads), set(), False
        while stack:
            pc = stack.pop()
            if pc in seen:
                continue
            seen.add(pc)
            if isinstance(pc, tuple):
                if at_end:
                    stack.append(pc[1] + 1)
                else:
                    out.add(pc)
                continue
            i = prog.ins[pc]
            if i[0] == "jmp":
                stack.append(i[1])
            elif i[0] == "split":
                stack.extend((i[1], i[2]))
            elif i[0] == "begin":
                if at_begin:
                    stack.append(pc + 1)
            elif i[0] == "end":
                if at_end:
                    stack.append(pc + 1)
                else:
                    out.add(pc)  # parked: decided by what follows
            elif i[0] == "match":
                matched = True
            else:
                out.add(pc)
        return frozenset(out), matched

    def _step(self, conf, c, mode):
        """One concrete character.  conf = (threads, at_begin, matched)."""
        threads, at_begin, matched = conf
        cl, m = self._closure(threads, at_begin, False)
        if mode in ("match", "search") and m:
            matched = True
        nxt = set()
        for pc in cl:
            if isinstance(pc, tuple):
                continue  # something follows the newline: this `$` fails
            i = self.prog.ins[pc]
            if i[0] == "char" and i[1](c):
                nxt.add(pc + 1)
            elif i[0] == "end" and i[1] and c == "\n":
                nxt.add(("nl", pc))
        if mode == "search":
            nxt.add(0)  # a new attempt may start at the next position ('begin' fails there: at_begin False)
        return (frozenset(nxt), False, matched)

    def _finish(self, conf, mode):
        threads, at_begin, matched = conf
        if mode == "fullmatch":
            # `$` may match before a final newline, but fullmatch still has to consume that newline
            threads = [t for t in threads if not isinstance(t, tuple)]
        cl, m = self._closure(threads, at_begin, True)
        return m if mode == "fullmatch" else (matched or m)

    def _representatives(self, ch):
        prog = self.prog
        if ch.members is not None:
            return sorted(ch.members)
        reps = sorted(prog.alphabet - set(ch.excluded))
        fresh = next(chr(k) for k in range(1, 0x3000) if chr(k) not in prog.alphabet and chr(k) not in ch.excluded
                     and not (chr(k).isalnum() or chr(k).isspace() or chr(k) == "_"))
        return reps + [fresh]

    def decide(self, interp, s, mode):
        """True / False / None (mixed) and whether the simulation was exact."""
        from .absint import CannotDecide
        self._program()
        if isinstance(s, (str, Ch)):
            s = AbsStr([s])
        if not isinstance(s, AbsStr):
            raise CannotDecide("regular expression applied to %r" % (s,))
        s = interp.norm_str(s)
        units = []
        for a in s.atoms:
            if isinstance(a, str):
                units.extend(a)
            else:
                units.append(a)
        exact = True
        confs = {(frozenset([0]), True, False)}
        for u in units:
            if isinstance(u, str):
                confs = {self._step(c, u, mode) for c in confs}
            elif isinstance(u, Ch):
                confs = {self._step(c, x, mode) for c in confs for x in self._representatives(u)}
            elif isinstance(u, Run):
                # any interleaving; a class whose count is known to be >= 1 must occur (tracked as a bit mask)
                need, hi_bounded = {}, False
                for k, cl_ in enumerate(u.classes):
                    l_, h_ = interp.lin_interval(Lin.of(u.count[cl_.name]))
                    if h_ == 0:
                        continue
                    if l_ >= 1:
                        need[k] = True
                    if l_ > 1 or h_ < INF:
                        hi_bounded = True
                names = {sy.name for sy in u.count.values()}
                for shp, (rl, rh) in interp.refine.items():
                    if len(shp) > 1 and any(n_ in names for n_, _c in shp) and (rl > -INF or rh < INF):
                        hi_bounded = True
                if hi_bounded or any(sy in interp.subst for sy in u.count.values()):
                    exact = False
                full = 0
                for k in need:
                    full |= 1 << k
                live = [(k, cl_) for k, cl_ in enumerate(u.classes) if interp.lin_interval(Lin.of(u.count[cl_.name]))[1] != 0]
                cur = {(c, 0) for c in confs}
                while True:
                    new = set(cur)
                    for c, mask in cur:
                        for k, cl_ in live:
                            for x in self._representatives(cl_):
                                new.add((self._step(c, x, mode), mask | ((1 << k) if k in need else 0)))
                    if new == cur:
                        break
                    cur = new
                    if len(cur) > 20000:
                        raise CannotDecide("regular expression state explosion")
                confs = {c for c, mask in cur if mask == full}
            elif type(u).__name__ == "Rep":
                exact = False
                l_, _h = interp.lin_interval(u.count)
                lo = max(0, int(l_)) if l_ > -INF else 0
                if lo > 8:
                    raise CannotDecide("regular expression on a repetition of at least %d" % lo)

                def once(cs):
                    out = set()
                    for c in cs:
                        for x in u.lit:
                            c = self._step(c, x, mode)
                        out.add(c)
                    return out
                for _ in range(lo):
                    confs = once(confs)
                while True:
                    new = confs | once(confs)
                    if new == confs:
                        break
                    confs = new
            else:
                raise CannotDecide("regular expression applied to a string containing %r" % (u,))
        results = {self._finish(c, mode) for c in confs}
        if results == {True}:
            return True, True
        if results == {False}:
            return False, True
        return None, exact

    def a_method(self, interp, name, args, kwargs, node):
        from .absint import CannotDecide
        if name in ("match", "fullmatch", "search") and args:
            s = args[0]
            if isinstance(s, str) and len(args) == 1:
                m = getattr(self.real, name)(s)
                return AMatch(m) if m is not None else None
            if len(args) > 1 or kwargs:
                raise CannotDecide("regular expression %s with a position argument" % name)
            r, exact = self.decide(interp, s, name)
            while r is None:
                # case split on whether a class of a run occurs at all, then look again
                import ast as _ast
                split = None
                for a in (interp.norm_str(s).atoms if isinstance(s, AbsStr) else []):
                    if isinstance(a, Run):
                        for sy in a.count.values():
                            l_, h_ = interp.lin_interval(Lin.of(sy))
                            if l_ <= 0 < h_ and split is None:
                                split = sy
                if split is None:
                    break
                interp.compare_lin(_ast.Eq, Lin.of(split), 0)
                r, exact = self.decide(interp, s, name)
            if r is None:
                if not exact:
                    raise CannotDecide("whether %r matches %r depends on the lengths of its runs" % (self.pattern, s))
                r = interp.fork("regex %s(%r) on %r" % (name, self.pattern, s))
            return AMatch(None) if r else None
        if name in ("sub", "split", "findall", "finditer", "subn") and all(isinstance(a, (str, int)) for a in args):
            return getattr(self.real, name)(*args, **kwargs)
        if name in ("sub", "split", "findall", "finditer", "subn"):
            raise CannotDecide("regular expression %s on an abstract string" % name)
        return NotImplemented

    def a_getattr(self, interp, name, node):
        from .absval import ABound
        if name == "pattern":
            return self.pattern
        if name == "flags":
            return self.flags
        return ABound(self, name)


class AMatch:
    """A successful match: truthy, not None; groups only when the subject was a concrete string."""
    nonnull = True

    def __init__(self, real):
        self.real = real

    def a_truth(self, interp):
        return True

    def a_eq(self, interp, other):
        return other is self

    def a_method(self, interp, name, args, kwargs, node):
        from .absint import CannotDecide
        if self.real is None:
            raise CannotDecide("groups of a match on an abstract string")
        if name in ("group", "groups", "groupdict", "start", "end", "span"):
            return getattr(self.real, name)(*args, **kwargs)
        return NotImplemented

    def a_getattr(self, interp, name, node):
        from .absval import ABound
        return ABound(self, name)

    def __repr__(self):
        return "AMatch(%r)" % (self.real,)


_FLAGS = {"I": re.I, "IGNORECASE": re.I, "M": re.M, "MULTILINE": re.M, "S": re.S, "DOTALL": re.S, "X": re.X, "VERBOSE": re.X,
          "A": re.A, "ASCII": re.A, "U": re.U, "UNICODE": re.U}


def builtin(interp, name, args, kwargs, node):
    """ext:re.* entry points; NotImplemented if ``name`` is not one."""
    if not name.startswith("ext:re."):
        return NotImplemented
    fn = name[len("ext:re."):]
    if fn == "compile":
        return ARegex(args[0], args[1] if len(args) > 1 else kwargs.get("flags", 0))
    if fn in ("match", "fullmatch", "search") and len(args) >= 2:
        rx = ARegex(args[0], args[2] if len(args) > 2 else kwargs.get("flags", 0))
        return rx.a_method(interp, fn, [args[1]], {}, node)
    if fn in ("sub", "split", "findall", "subn", "escape") and all(isinstance(a, (str, int)) for a in args):
        return getattr(re, fn)(*args, **kwargs)
    return NotImplemented


def attribute(name):
    """ext:re.<FLAG> constants."""
    return _FLAGS.get(name, NotImplemented)
