"""Abstract values for the abstract evaluator (engine/absint.py).

* Lin      -- linear integer form over symbols with intervals (congruence/interval reasoning)
* Mod      -- helper: ``Lin % m`` is represented as a fresh symbol remembered in Interp.mods
* Ch       -- one abstract character drawn from a class of the alphabet partition
* Run      -- zero or more characters, each from one of a list of classes (symbolic counts)
* AbsStr   -- a string as a sequence of atoms: str literals, Ch, Run
* Opaque   -- value the domain knows nothing about (operations on it stay opaque)
* AObj     -- abstract object with an attribute dictionary
"""
from __future__ import annotations

import itertools
import math

INF = float("inf")
_counter = itertools.count()


class Sym:
    __slots__ = ("name", "lo", "hi", "meta")

    def __init__(self, name, lo=-INF, hi=INF, meta=None):
        self.name = name
        self.lo = lo
        self.hi = hi
        self.meta = meta

    def __repr__(self):
        return self.name

    def __lt__(self, other):
        return self.name < other.name


class Lin:
    """sum(coef * sym) + const, integer (or rational) coefficients."""
    __slots__ = ("terms", "const")

    def __init__(self, terms=None, const=0):
        self.terms = {s: c for s, c in (terms or {}).items() if c != 0}
        self.const = const

    @staticmethod
    def of(x):
        if isinstance(x, Lin):
            return x
        if isinstance(x, bool):
            return Lin({}, int(x))
        if isinstance(x, (int, float)):
            return Lin({}, x)
        if isinstance(x, Sym):
            return Lin({x: 1}, 0)
        return None

    def is_const(self):
        return not self.terms

    def __add__(self, o):
        o = Lin.of(o)
        t = dict(self.terms)
        for s, c in o.terms.items():
            t[s] = t.get(s, 0) + c
        return Lin(t, self.const + o.const)

    def __neg__(self):
        return Lin({s: -c for s, c in self.terms.items()}, -self.const)

    def __sub__(self, o):
        return self + (-Lin.of(o))

    def scale(self, k):
        return Lin({s: c * k for s, c in self.terms.items()}, self.const * k)

    def key(self):
        return (tuple(sorted((s.name, c) for s, c in self.terms.items())), self.const)

    def shape(self):
        return tuple(sorted((s.name, c) for s, c in self.terms.items()))

    def __eq__(self, o):
        o = Lin.of(o)
        return o is not None and self.key() == o.key()

    def __hash__(self):
        return hash(self.key())

    def canon(self):
        """(canonical shape, sign): the shape with a positive leading coefficient."""
        sh = self.shape()
        if sh and sh[0][1] < 0:
            return tuple((n, -c) for n, c in sh), -1
        return sh, 1

    def interval(self, refine=None):
        """Interval from symbol bounds; ``refine`` maps canonical shape -> (lo, hi) for the non-constant part."""
        rlo, rhi = -INF, INF
        if refine and self.terms:
            sh, sign = self.canon()
            r = refine.get(sh)
            if r is not None:
                rlo, rhi = (r[0], r[1]) if sign > 0 else (-r[1], -r[0])
                rlo, rhi = rlo + self.const, rhi + self.const
        lo = hi = self.const
        for s, c in self.terms.items():
            slo, shi = s.lo, s.hi
            if refine:
                r1 = refine.get(((s.name, 1),))
                if r1 is not None:
                    slo, shi = max(slo, r1[0]), min(shi, r1[1])
            a, b = slo * c, shi * c
            if c == 0:
                continue
            # guard inf*0 (cannot happen: c != 0)
            lo += min(a, b)
            hi += max(a, b)
        return (max(lo, rlo), min(hi, rhi))

    def __repr__(self):
        parts = []
        for s, c in sorted(self.terms.items(), key=lambda kv: kv[0].name):
            if c == 1:
                parts.append("+%s" % s.name)
            elif c == -1:
                parts.append("-%s" % s.name)
            else:
                parts.append("%+g*%s" % (c, s.name))
        if self.const or not parts:
            parts.append("%+g" % self.const)
        r = "".join(parts)
        return r[1:] if r.startswith("+") else r


class Opaque:
    def __init__(self, tag="?", deps=()):
        self.tag = tag
        self.deps = tuple(deps)
        self.id = next(_counter)

    def __repr__(self):
        return "Opaque(%s)" % self.tag


class Ch:
    """One abstract character.  ``members`` is a frozenset of characters, or None for the
    complement class OTHER (everything not in ``excluded``)."""

    def __init__(self, name, members=None, excluded=frozenset()):
        self.name = name
        self.members = frozenset(members) if members is not None else None
        self.excluded = frozenset(excluded)

    def contains_only(self, chars):
        """True if every concretisation is in chars, False if none is, None if mixed."""
        chars = set(chars)
        if self.members is not None:
            if self.members <= chars:
                return True
            if not (self.members & chars):
                return False
            return None
        # OTHER: chars inside ``excluded`` cannot occur
        if chars <= self.excluded:
            return False
        return None

    def __repr__(self):
        return "Ch<%s>" % self.name


class Run:
    """Zero or more characters, each drawn from one of ``classes`` (list of Ch)."""

    def __init__(self, name, classes):
        self.name = name
        self.classes = list(classes)
        self.count = {c.name: Sym("n[%s,%s]" % (name, c.name), 0, INF) for c in self.classes}

    def __repr__(self):
        return "Run<%s:%s>" % (self.name, "".join(c.name for c in self.classes))


class AbsStr:
    """Sequence of atoms: str (non-empty literal), Ch, Run."""

    def __init__(self, atoms):
        out = []
        for a in atoms:
            if isinstance(a, AbsStr):
                atoms2 = a.atoms
            else:
                atoms2 = [a]
            for b in atoms2:
                if isinstance(b, str):
                    if not b:
                        continue
                    if out and isinstance(out[-1], str):
                        out[-1] += b
                        continue
                out.append(b)
        self.atoms = out

    def is_concrete(self):
        return all(isinstance(a, str) for a in self.atoms)

    def concrete(self):
        return "".join(self.atoms)

    def units(self):
        """Atoms with literals split into single characters."""
        out = []
        for a in self.atoms:
            if isinstance(a, str):
                out.extend(a)
            else:
                out.append(a)
        return out

    def has_run(self):
        return any(isinstance(a, Run) for a in self.atoms)

    def __repr__(self):
        return "AbsStr(%s)" % " ".join(repr(a) for a in self.atoms)


def simplify_str(v):
    if isinstance(v, AbsStr):
        if v.is_concrete():
            return v.concrete()
        u = v.units()
        if len(u) == 1 and isinstance(u[0], Ch):
            return u[0]
    return v


class AObj:
    """Abstract object: class name + attribute store."""

    def __init__(self, cls=None, attrs=None, name="obj"):
        self.cls = cls
        self.attrs = dict(attrs or {})
        self.name = name

    def __repr__(self):
        return "AObj(%s)" % self.name


class AFunc:
    """A package function as a value."""

    def __init__(self, fi):
        self.fi = fi

    def __repr__(self):
        return "AFunc(%s.%s)" % (self.fi.module.name, self.fi.qualname)


class AModule:
    def __init__(self, mod):
        self.mod = mod


class AClass:
    def __init__(self, ci):
        self.ci = ci


class ABuiltin:
    def __init__(self, name):
        self.name = name

    def __repr__(self):
        return "ABuiltin(%s)" % self.name


class ABound:
    """Bound method of an abstract receiver."""

    def __init__(self, recv, name):
        self.recv = recv
        self.name = name


class Rep:
    """``lit`` repeated ``count`` times (count: Lin, >= 0)."""

    def __init__(self, lit, count):
        self.lit = lit
        self.count = Lin.of(count)

    def __repr__(self):
        return "Rep<%r*%s>" % (self.lit, self.count)


class Blob:
    """An uninspected arbitrary prefix used by the induction step of loop summaries."""

    def __init__(self, name):
        self.name = name

    def __repr__(self):
        return "Blob<%s>" % self.name


class UnknownStr(Blob):
    """A string about which nothing is known (e.g. a slice whose start is unrelated to the pieces of the string):
    comparisons with it are undetermined and split the path."""


class Sel:
    """table[index] with a symbolic index (the table is a concrete list)."""

    def __init__(self, table, index):
        self.table = table
        self.index = index

    def __repr__(self):
        return "Sel(%r)[%s]" % (self.table, self.index)


class AIter:
    """One-shot iterator over known items (result of reversed()/iter()): not subscriptable."""

    def __init__(self, items):
        self.items = items  # list or RepList

    def __repr__(self):
        return "AIter(%r)" % (self.items,)


class RepList:
    """head + period * count + tail, count a linear form (symbolic number of octaves)."""

    def __init__(self, head, period, count, tail):
        self.head, self.period, self.count, self.tail = list(head), list(period), Lin.of(count), list(tail)

    def reversed(self):
        return RepList(list(reversed(self.tail)), list(reversed(self.period)), self.count, list(reversed(self.head)))

    def __repr__(self):
        return "RepList(%r + %r*%s + %r)" % (self.head, self.period, self.count, self.tail)


class ASuper:
    def __init__(self, ci, obj):
        self.ci, self.obj = ci, obj


class Token(Opaque):
    """An opaque value created by a rule that is known not to be None (a parameter the caller supplies)."""
    nonnull = True


class MappedRun:
    """The characters of ``run`` rendered through ``mapping`` (class name -> text), in order."""

    def __init__(self, run, mapping):
        self.run = run
        self.mapping = dict(mapping)

    def __repr__(self):
        return "MappedRun(%r, %r)" % (self.run, self.mapping)
