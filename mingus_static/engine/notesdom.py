"""Note-name shapes and the independent music-theory oracle.

Nothing here is copied from /repo: the natural pitch classes come from the whole/half step
pattern of the C major scale, the circle of fifths from repeated +7 semitones / +4 letters.
"""
from __future__ import annotations

from .absval import Lin, Sym, Ch, Run, AbsStr, Rep, Blob, Opaque, Sel, INF
from .absint import Interp, explore, CannotDecide

LETTERS = "CDEFGAB"
MAJOR_STEPS = [2, 2, 1, 2, 2, 2, 1]
NAT = {}
_acc = 0
for _i, _l in enumerate(LETTERS):
    NAT[_l] = _acc
    _acc += MAJOR_STEPS[_i]
assert _acc == 12
MAJOR_SIZES = [NAT[l] for l in LETTERS]  # semitones of degree 1..7 above C: 0 2 4 5 7 9 11


def letter_up(letter, k):
    return LETTERS[(LETTERS.index(letter) + k) % 7]


def circle_of_fifths_letters():
    """Letter order in which each entry is 4 letters / 7 semitones above the previous, starting on F
    (the only natural whose fifth chain visits all seven naturals without alteration)."""
    out = ["F"]
    while len(out) < 7:
        out.append(letter_up(out[-1], 4))
    for a, b in zip(out, out[1:]):
        assert (NAT[b] - NAT[a]) % 12 == 7
    return out


SHARP = Ch("#", {"#"})
FLAT = Ch("b", {"b"})


def other_class(excluded, name="OTHER"):
    return Ch(name, None, frozenset(excluded))


def acc_run(name, extra=()):
    return Run(name, [SHARP, FLAT] + list(extra))


def note_with_run(letter, run):
    return AbsStr([letter, run])


def run_net(run):
    return Lin.of(run.count["#"]) - Lin.of(run.count["b"])


class Shape(Exception):
    pass


def decompose(v, interp=None):
    """Split an abstract note name into (first unit, net accidental Lin, kinds) where kinds is the set of
    accidental kinds that may occur ('#', 'b'); raises Shape if v is not letter + accidentals."""
    if isinstance(v, str):
        v = AbsStr([v])
    if isinstance(v, Ch):
        v = AbsStr([v])
    if not isinstance(v, AbsStr):
        raise Shape("not a string: %r" % (v,))
    if interp is not None:
        v = interp.norm_str(v)
    u = v.units()
    if not u:
        raise Shape("empty string")
    head = u[0]
    if isinstance(head, (Run, Rep, Blob)):
        raise Shape("no definite first character: %r" % (v,))
    net = Lin({}, 0)
    kinds = set()
    for a in u[1:]:
        if a == "#":
            net = net + 1
            kinds.add("#")
        elif a == "b":
            net = net - 1
            kinds.add("b")
        elif isinstance(a, Run):
            names = {c.name for c in a.classes}
            if not names <= {"#", "b"}:
                raise Shape("run with non-accidental classes: %r" % a)
            net = net + run_net(a)
            kinds |= names
        elif isinstance(a, Rep):
            if set(a.lit) <= {"#"}:
                net = net + a.count.scale(len(a.lit))
                kinds.add("#")
            elif set(a.lit) <= {"b"}:
                net = net - a.count.scale(len(a.lit))
                kinds.add("b")
            elif a.lit:
                raise Shape("repetition of %r" % a.lit)
        elif isinstance(a, Ch) and a.members is not None and a.members <= {"#"}:
            net = net + 1
            kinds.add("#")
        elif isinstance(a, Ch) and a.members is not None and a.members <= {"b"}:
            net = net - 1
            kinds.add("b")
        else:
            raise Shape("non-accidental %r in %r" % (a, v))
    return head, net, kinds


def congruent(a, b, m):
    """a == b (mod m) for linear forms possibly containing mod-symbols whose modulus is a multiple of m."""
    d = expand_mods(Lin.of(a) - Lin.of(b), m)
    if d is None:
        return False
    if any(c % m for c in d.terms.values()):
        return False
    return d.const % m == 0


def expand_mods(lin, m, _depth=0):
    out = Lin({}, lin.const)
    for s, c in lin.terms.items():
        if s.meta and s.meta[0] == "mod" and abs(s.meta[2]) % m == 0 and _depth < 6:
            inner = expand_mods(s.meta[1], m, _depth + 1)
            out = out + inner.scale(c)
        else:
            out = out + Lin({s: c}, 0)
    return out


def pitch_of_concrete(name):
    """Oracle: pitch class of a concrete name (letter + accidentals) or None if malformed."""
    if not name or name[0] not in NAT:
        return None
    p = NAT[name[0]]
    for c in name[1:]:
        if c == "#":
            p += 1
        elif c == "b":
            p -= 1
        else:
            return None
    return p % 12


def pitch_number(name, octave):
    """Oracle: 12 * octave + natural pitch of the letter + sharps - flats (not reduced: Cb-3 is 35, B#-3 is 48)."""
    if not name or name[0] not in NAT or any(c not in "#b" for c in name[1:]):
        return None
    return 12 * octave + NAT[name[0]] + name[1:].count("#") - name[1:].count("b")


def paths_of(repo, fi, make_args, summaries=None, kwargs=None, max_paths=4000, **ikw):
    """Explore every abstract path of fi(*make_args())."""
    def mk(ch):
        return Interp(repo, ch, summaries=summaries, **ikw)

    def run(it):
        args = make_args() if callable(make_args) else list(make_args)
        it.args = args
        return it.call_function(fi, args, dict(kwargs or {}))
    return explore(mk, run, max_paths=max_paths)


def same(interp, a, b):
    """a == b on this path (taking the path's refinements and run unfoldings into account)."""
    lo, hi = interp.lin_interval(Lin.of(a) - Lin.of(b))
    return lo == 0 and hi == 0


def congruent_on_path(interp, a, b, m):
    if congruent(interp.resolve(Lin.of(a)), interp.resolve(Lin.of(b)), m):
        return True
    d = expand_mods(interp.resolve(Lin.of(a) - Lin.of(b)), m)
    lo, hi = interp.lin_interval(d)
    if lo == hi and lo % m == 0:
        return True
    # equations the path has established (a comparison that came out as Q == c): add or subtract one of them
    d0 = interp.resolve(Lin.of(a) - Lin.of(b))
    for sh, q in getattr(interp, "refine_src", {}).items():
        qlo, qhi = interp.lin_interval(q)  # (the refinement together with the symbols' own bounds)
        if qlo != qhi or qlo in (INF, -INF):
            continue
        eq = q - Lin({}, qlo)  # == 0 on this path
        for k in (1, -1):
            if congruent(d0 + eq.scale(k), Lin({}, 0), m):
                return True
    return False


# ---------------------------------------------------------------------------- keys oracle
def spell(letter, pitch):
    d = (pitch - NAT[letter]) % 12
    if d > 6:
        d -= 12
    return letter + ("#" * d if d > 0 else "b" * -d)


def oracle_key_table():
    """15 rows (signature -7..7): (major tonic, minor tonic) from the circle of fifths."""
    rows = []
    for s in range(-7, 8):
        letter = letter_up("C", 4 * s)
        major = spell(letter, (7 * s) % 12)
        ml = letter_up(letter, 5)
        minor = spell(ml, (7 * s + 9) % 12)
        rows.append((major, minor[0].lower() + minor[1:]))
    return rows


def oracle_signature_accidentals(s):
    sharps = circle_of_fifths_letters()
    if s > 0:
        return [l + "#" for l in sharps[:s]]
    if s < 0:
        return [l + "b" for l in list(reversed(sharps))[:-s]]
    return []


def oracle_key_notes(key):
    table = oracle_key_table()
    for i, (ma, mi) in enumerate(table):
        if key in (ma, mi):
            s = i - 7
            break
    else:
        raise KeyError(key)
    altered = {a[0]: a[1] for a in oracle_signature_accidentals(s)}
    tonic = key[0].upper()
    out = []
    for k in range(7):
        l = letter_up(tonic, k)
        out.append(l + altered.get(l, ""))
    # self-check of the oracle: step pattern and tonic
    pat = MAJOR_STEPS if key[0].isupper() else MAJOR_STEPS[5:] + MAJOR_STEPS[:5]
    pcs = [pitch_of_concrete(n) for n in out]
    assert out[0] == key[0].upper() + key[1:], (key, out)
    assert [(pcs[(i + 1) % 7] - pcs[i]) % 12 for i in range(7)] == pat, (key, out)
    return out, s


# ---------------------------------------------------------------------------- offset domain (E3)
class NoteVal:
    """A note name of known letter whose pitch class is a linear form (mod 12); the spelling is whatever the
    correction helper produces (<= 6 unmixed accidentals, by R-C02-2)."""

    def __init__(self, head, pitch):
        self.head = head
        self.pitch = Lin.of(pitch)

    def a_index(self, interp, idx, node):
        if idx == 0:
            return self.head
        raise CannotDecide("index %r into the spelling of %r" % (idx, self))

    def a_eq(self, interp, other):
        if other is self:
            return True
        if isinstance(other, NoteVal):
            # a NoteVal is the note the interval code spells on letter `head` at pitch class `pitch`:
            # different letters are different strings; the same letter at the same pitch class is the same spelling
            if other.head != self.head:
                return False
            lo, hi = interp.lin_interval(interp.resolve(self.pitch - other.pitch))
            if lo == hi:
                return int(lo) % 12 == 0
        elif isinstance(other, (str, AbsStr, Ch)):
            try:
                if decompose(other, interp)[0] != self.head:
                    return False
            except Shape:
                pass
        return None  # spelling unknown

    def a_len(self, interp):
        if not hasattr(self, "_len"):
            self._len = Sym("len(%s,%s)" % (self.head, self.pitch), 1, 7)
        return Lin.of(self._len)

    def a_binop(self, interp, op, other, reflected, node):
        import ast as _ast
        if op is _ast.Add and isinstance(other, (str, AbsStr, Ch)):
            return AbsStr([other, self] if reflected else [self, other])
        return NotImplemented

    def __repr__(self):
        return "NoteVal(%s, %s)" % (self.head, self.pitch)


def pitch_lin(it, x):
    if isinstance(x, NoteVal):
        return x.pitch
    head, net, _ = decompose(x, it)
    if not isinstance(head, str) or head not in NAT:
        raise CannotDecide("pitch of %r" % (x,))
    return Lin.of(NAT[head]) + net


def head_of(it, x):
    if isinstance(x, NoteVal):
        return x.head
    return decompose(x, it)[0]


def interval_model(repo):
    """Summaries that put the interval constructors into the offset domain.  Justified by C01/C02/C04 rules."""
    M = "mingus.core.intervals"
    N = "mingus.core.notes"
    K = "mingus.core.keys"
    nmod = repo.mod(N)

    def get_notes(it, args, kwargs, node):
        key = args[0] if args else kwargs.get("key", "C")
        if isinstance(key, str):
            try:
                return list(oracle_key_notes(key)[0])
            except KeyError:
                from .absint import RaiseEx
                raise RaiseEx("NoteFormatError", node)
        raise CannotDecide("keys.get_notes(%r)" % (key,))

    def helper(it, args, kwargs, node):
        if len(args) != 3:
            raise CannotDecide("helper called with %d arguments" % len(args))
        n1, n2, iv = args
        h = head_of(it, n2)
        if not isinstance(iv, int) or not isinstance(h, str) or h not in LETTERS:
            raise CannotDecide("helper called with %r" % (args,))
        return NoteVal(h, pitch_lin(it, n1) + iv)

    def shift(k, fname):
        def f(it, args, kwargs, node):
            x = args[0]
            if isinstance(x, NoteVal):
                return NoteVal(x.head, x.pitch + k)
            return it.call_function(nmod.func(fname), args, kwargs, node)
        return f

    def valid(it, args, kwargs, node):
        x = args[0]
        if isinstance(x, NoteVal):
            return True
        return it.call_function(nmod.func("is_valid_note"), args, kwargs, node)
    return {K + ".get_notes": get_notes,
            M + ".augment_or_diminish_until_the_interval_is_right": helper,
            N + ".augment": shift(1, "augment"), N + ".diminish": shift(-1, "diminish"),
            N + ".is_valid_note": valid}


def rel(it, value, root_letter, root_pitch):
    """(letters up, semitones up mod 12) of an abstract note relative to the root, or a string describing why not."""
    try:
        h = head_of(it, value)
        p = pitch_lin(it, value)
    except (Shape, CannotDecide) as e:
        return "not a note name: %s" % e
    if not isinstance(h, str) or h not in LETTERS:
        return "letter %r" % (h,)
    d = it.resolve(p - Lin.of(root_pitch))
    lo, hi = it.lin_interval(d)
    if lo != hi:
        return "pitch %s is not the root plus a constant" % d
    return ((LETTERS.index(h) - LETTERS.index(root_letter)) % 7, int(lo) % 12)


def degree(tok):
    """'b3' -> (2, 3); '#4' -> (3, 6); 'bb7' -> (6, 9); 9/11/13 = 2/4/6."""
    acc = tok.rstrip("0123456789")
    n = int(tok[len(acc):])
    n = {9: 2, 11: 4, 13: 6}.get(n, n)
    return (n - 1, (MAJOR_SIZES[n - 1] + acc.count("#") - acc.count("b")) % 12)


def formula(text):
    return [degree(t) for t in text.split()]
