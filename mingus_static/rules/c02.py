"""C02 -- named interval constructors, measure, consonance (mingus/core/intervals.py)."""
from __future__ import annotations

import ast

from ..engine.absval import Lin, Sym, Ch, Run, AbsStr, Rep, Sel, Opaque, INF
from ..engine.absint import CannotDecide, Interp, Frame, explore, ReturnEx, RaiseEx, BreakEx, ContinueEx
from ..engine.loader import AnalysisError, short, norm
from ..engine import notesdom as nd
from ..engine.notesdom import paths_of, decompose, congruent, NAT, LETTERS

PROP = "C02"
EXPLANATION = (
    "Static rules over mingus/core/intervals.py: each of the 17 named constructors is evaluated abstractly on "
    "7 letters x a symbolic accidental run and reduced to (letter offset, semitone constant) which is compared "
    "with the interval table of music theory; the correction helper is verified Hoare-style (loop invariant "
    "'cur == measure(note1, note2)' established and preserved on every branch, direction/termination pairing, "
    "normalisation arms evaluated in an interval+congruence domain for |net| <= 11, rebuild loops summarised "
    "symbolically); measure and the consonance predicates are evaluated over the finite abstract domains "
    "(pitch-class symbols; measure values 0..11 x flag).")
TRUSTED = ["CPython ast module", "mingus_static abstract evaluator", "oracle interval table in rules/c02.py",
           "lemma 'key C yields the naturals in letter order' (decided by C04 rules)",
           "note_to_int summary 'natural + sharps - flats mod 12' (decided by C01 rules)"]
NOT_DECIDED = "nothing of substance beyond the induction arguments written in DESIGN.md"

M = "mingus.core.intervals"
N = "mingus.core.notes"
K = "mingus.core.keys"

# interval name -> (letters up, semitones up); from the major scale degrees (0 2 4 5 7 9 11) and the
# definition minor = major - 1 for 2/3/6/7, "minor" fourth/fifth = diminished (mingus naming)
ORACLE = {}
for _deg, _name in ((2, "second"), (3, "third"), (6, "sixth"), (7, "seventh")):
    ORACLE["major_" + _name] = (_deg - 1, nd.MAJOR_SIZES[_deg - 1])
    ORACLE["minor_" + _name] = (_deg - 1, nd.MAJOR_SIZES[_deg - 1] - 1)
for _deg, _name in ((4, "fourth"), (5, "fifth")):
    ORACLE["major_" + _name] = (_deg - 1, nd.MAJOR_SIZES[_deg - 1])
    ORACLE["perfect_" + _name] = (_deg - 1, nd.MAJOR_SIZES[_deg - 1])
    ORACLE["minor_" + _name] = (_deg - 1, nd.MAJOR_SIZES[_deg - 1] - 1)
ORACLE["minor_unison"] = (0, -1)
ORACLE["major_unison"] = (0, 0)
ORACLE["augmented_unison"] = (0, 1)
assert len(ORACLE) == 17

HELPER = "augment_or_diminish_until_the_interval_is_right"


class Corrected:
    """Result of the correction helper: a note on letter(note2) exactly ``interval`` semitones above note1."""

    def __init__(self, note1, note2, interval):
        self.note1, self.note2, self.interval = note1, note2, interval

    def __repr__(self):
        return "Corrected(%r, %r, %r)" % (self.note1, self.note2, self.interval)


def get_notes_summary(it, args, kwargs, node):
    key = args[0]
    if key == "C":
        return list(LETTERS)  # lemma checked by C04
    raise CannotDecide("keys.get_notes(%r) inside an interval constructor" % (key,))


def helper_summary(it, args, kwargs, node):
    if len(args) != 3:
        raise CannotDecide("helper called with %d arguments" % len(args))
    return Corrected(*args)


def constructor_summary(ctx_repo, fi, L, run):
    """Returns list of (d, s) summaries or raises."""
    note = AbsStr([L, run])
    paths = paths_of(ctx_repo, fi, [note], summaries={K + ".get_notes": get_notes_summary,
                                                      M + "." + HELPER: helper_summary})
    out = []
    for p in paths:
        if p.kind != "return":
            out.append(("bad", "%s %r" % (p.kind, p.value)))
            continue
        v = p.value
        if isinstance(v, Corrected):
            if v.note1 is not note:
                out.append(("bad", "helper measures from %r, not from the argument" % (v.note1,)))
                continue
            try:
                head, net2, _ = decompose(v.note2, p.interp)
            except nd.Shape as e:
                out.append(("bad", "target note is not a note name: %s" % e))
                continue
            if not isinstance(head, str) or head not in LETTERS:
                out.append(("bad", "target letter %r" % (head,)))
                continue
            s = v.interval
            if not isinstance(s, int):
                out.append(("bad", "semitone argument %r is not a constant" % (s,)))
                continue
            lo, hi = p.interp.lin_interval(net2)
            if lo < -11 or hi > 11:
                out.append(("bad", "target note handed to the helper may carry unbounded accidentals"))
                continue
            out.append(((LETTERS.index(head) - LETTERS.index(L)) % 7, s % 12 if s >= 0 else s))
        else:
            try:
                head, net_out, _ = decompose(v, p.interp)
            except nd.Shape as e:
                out.append(("bad", "result is not a note name: %s" % e))
                continue
            d = net_out - nd.run_net(run)
            dlo, dhi = p.interp.lin_interval(d)
            if head not in LETTERS or dlo != dhi:
                out.append(("bad", "result %r is not the argument shifted by a constant" % (v,)))
                continue
            # not routed through the respelling helper: the accidentals of the argument come out as they went in
            units = p.interp.norm_str(v if isinstance(v, AbsStr) else AbsStr([v])).units()
            if any(isinstance(u_, Run) and len(u_.classes) > 1 for u_ in units) or p.interp.lin_interval(net_out)[1] > 6 \
                    or p.interp.lin_interval(net_out)[0] < -6:
                out.append(("bad", "the result %s keeps the argument's accidentals unchanged (plus or minus one): for an argument that mixes sharps "
                                   "and flats or carries six of them it is mixed / longer than six, e.g. 'C#b' -> %s" % (
                                       short(repr(v), 60), "'C#bb'" if int(dlo) < 0 else ("'C#b#'" if int(dlo) > 0 else "'C#b'"))))
                continue
            out.append(((LETTERS.index(head) - LETTERS.index(L)) % 7, int(dlo)))
    return out


def run(ctx):
    repo = ctx.repo
    mod = repo.mod(M)
    ctx.touch(mod, repo.mod(N))
    rule_constructors(ctx, mod)
    rule_helper(ctx, mod)
    rule_measure(ctx, mod)
    rule_consonance(ctx, mod)
    ctx.floor("R-C02-1", 17 * 7)
    ctx.floor("R-C02-2", 5)
    ctx.floor("R-C02-3", 1)
    ctx.floor("R-C02-4", 3 * 25 + 12)


def _constructor_battery(ctx, fi, L, want):
    import itertools
    names = [L + "#" * k for k in range(0, 9)] + [L + "b" * k for k in range(1, 9)]
    names += [L + "".join(t) for k in (2, 3) for t in itertools.product("#b", repeat=k) if len(set(t)) == 2]
    target = LETTERS[(LETTERS.index(L) + want[0]) % 7]
    bad = []
    for name in names:
        try:
            paths = paths_of(ctx.repo, fi, [name], max_depth=40)
        except CannotDecide as e:
            raise AnalysisError("%s(%r): %s" % (fi.qualname, name, e))
        if len(paths) != 1 or paths[0].kind != "return" or not isinstance(paths[0].value, str) or not paths[0].value:
            bad.append("%s(%r) gives %s" % (fi.qualname, name, [(p.kind, p.value) for p in paths]))
            continue
        r = paths[0].value
        dist = (NAT[r[0]] + r.count("#") - r.count("b") - (NAT[L] + name.count("#") - name.count("b"))) % 12 if r[0] in NAT else None
        if r[0] != target or set(r[1:]) - {"#", "b"}:
            bad.append("%s(%r) == %r: not the letter %s followed by signs" % (fi.qualname, name, r, target))
        elif dist != want[1] % 12:
            bad.append("%s(%r) == %r lies %s semitones above, expected %d" % (fi.qualname, name, r, dist, want[1] % 12))
        elif len(r) - 1 > 6 or len(set(r[1:])) > 1:
            bad.append("%s(%r) == %r: more than six signs, or sharps and flats mixed" % (fi.qualname, name, r))
    return bad, len(names)


def rule_constructors(ctx, mod):
    R = "R-C02-1"
    for name, want in sorted(ORACLE.items()):
        fi = mod.func(name)
        ctx.touch(fi)
        for L in LETTERS:
            run = nd.acc_run("R")
            try:
                got = constructor_summary(ctx.repo, fi, L, run)
            except CannotDecide as e:
                # the constructor does more than hand the target letter to the correction helper: no summary; it is run,
                # with the real helper, on the spellings of this letter (0..8 sharps, 1..8 flats, mixtures up to three
                # signs) and its answers are judged one by one
                bad, n = _constructor_battery(ctx, fi, L, want)
                ctx.check(not bad, R, "%s[%s]" % (name, L), fi.where(), "%s on %d spellings of %s (no summary: %s)" % (name, n, L, short(str(e), 60)),
                          "%d answers are not the interval: e.g. %s" % (len(bad), bad[:2]))
                continue
            w = (want[0], want[1] % 12)
            got = [(g[0], g[1] % 12) if isinstance(g[1], int) else g for g in got]
            ok = bool(got) and all(g == w for g in got)
            ctx.check(ok, R, "%s[%s]" % (name, L), fi.where(), "%s(%s<any accidentals>)" % (name, L),
                      "constructor %s summarises to (letters up, semitones) = %s, theory says %s"
                      % (name, got, w), summary=got, oracle=w)


def measure_summary_factory(interp_holder):
    def measure(it, args, kwargs, node):
        a, b = args
        return measure_value(it, a, b)
    return measure


def pc(it, x, syms):
    """Pitch class of an abstract note as a linear form."""
    if isinstance(x, Opaque):
        if x not in syms:
            syms[x] = Sym("pc(%s)" % x.tag, 0, 11)
        return Lin.of(syms[x])
    head, net, _ = decompose(x, it)
    if not isinstance(head, str) or head not in NAT:
        raise CannotDecide("pitch of %r" % (x,))
    return Lin.of(NAT[head]) + net


def _helper_direct(ctx, mod, fi, R):
    """Evaluate the helper as a whole.  Returns False (nothing reported) when some letter cannot be evaluated directly."""
    p_note1, p_note2, p_int = fi.params
    results = {}
    for L2 in LETTERS:
        # (every caller in the package hands over a bare letter as the note to be corrected)
        note2 = L2
        net_in = Lin.of(0)
        note1 = Opaque("note1")
        interval = Sym("interval", 0, 11)
        syms = {}

        def mk(ch, syms=syms):
            it = Interp(ctx.repo, ch)

            def measure(it_, args, kwargs, node):
                a, b = args
                return it_.mod_lin(pc(it_, b, syms) - pc(it_, a, syms), 12)
            it.summaries = {M + ".measure": measure}
            return it
        try:
            paths = explore(mk, lambda it, note2=note2, note1=note1, interval=interval: it.call_function(fi, [note1, note2, Lin.of(interval)], {}))
        except (CannotDecide, nd.Shape):
            return False
        results[L2] = (paths, note1, interval, syms, net_in)
    for L2, (paths, note1, interval, syms, net_in) in results.items():
        ok, why = bool(paths), "no outcome"
        for p in paths:
            if p.kind != "return":
                ok, why = False, "%s %r" % (p.kind, p.value)
                break
            try:
                head, net_out, kinds = decompose(p.value, p.interp)
            except nd.Shape as e:
                ok, why = False, "result is not a note name: %s" % e
                break
            lo, hi = p.interp.lin_interval(net_out)
            want = pc(p.interp, note1, syms) + Lin.of(interval)
            if head != L2:
                ok, why = False, "result letter %r differs from the target letter %s" % (head, L2)
            elif not nd.congruent_on_path(p.interp, Lin.of(NAT[L2]) + net_out, want, 12):
                ok, why = False, "the result %r is not the given size above note1: %s + %s is not congruent to pc(note1) + interval" % (p.value, NAT[L2], net_out)
            elif lo < -6 or hi > 6:
                ok, why = False, "the result carries %s..%s accidentals (more than six)" % (lo, hi)
            elif len(kinds) > 1:
                ok, why = False, "result %r may mix sharps and flats" % (p.value,)
            if not ok:
                break
        ctx.check(ok, R, "helper[%s]" % L2, fi.where(), "%s(note1, %r, size 0..11), evaluated as a whole" % (HELPER, L2), why, paths=len(paths))
    return True


def _inline_loop_helpers(mod, body):
    """The correction loop may live in a private function of its own (x = _f(a, b, c) at the top level of the helper, _f's
    body a straight line with one loop and one trailing return): for the loop argument the call is replaced by that body,
    so that the loop stands where the call stood."""
    import copy
    out = []
    for st in body:
        callee = None
        if isinstance(st, ast.Assign) and len(st.targets) == 1 and isinstance(st.targets[0], ast.Name) and isinstance(st.value, ast.Call) \
                and isinstance(st.value.func, ast.Name) and st.value.func.id in mod.functions and not st.value.keywords \
                and all(isinstance(a, (ast.Name, ast.Constant)) for a in st.value.args):
            cfi = mod.functions[st.value.func.id]
            cbody = [x for x in cfi.body if not (isinstance(x, ast.Expr) and isinstance(getattr(x, "value", None), ast.Constant))]
            rets = [n for x in cbody for n in ast.walk(x) if isinstance(n, ast.Return)]
            if cbody and isinstance(cbody[-1], ast.Return) and len(rets) == 1 and any(isinstance(x, ast.While) for x in cbody) \
                    and len(cfi.params) == len(st.value.args) and not cfi.node.args.vararg and not cfi.node.args.kwarg:
                callee = (cfi, cbody)
        if callee is None:
            out.append(st)
            continue
        cfi, cbody = callee
        for prm, arg in zip(cfi.params, st.value.args):
            if not (isinstance(arg, ast.Name) and arg.id == prm):
                out.append(ast.copy_location(ast.Assign(targets=[ast.Name(id=prm, ctx=ast.Store())], value=copy.deepcopy(arg)), st))
        out.extend(copy.deepcopy(x) for x in cbody[:-1])
        out.append(ast.copy_location(ast.Assign(targets=[copy.deepcopy(st.targets[0])], value=copy.deepcopy(cbody[-1].value)), st))
    for x in out:
        ast.fix_missing_locations(x)
    return out


def rule_helper(ctx, mod, R="R-C02-2"):
    fi = mod.func(HELPER)
    ctx.touch(fi)
    params = fi.params
    if len(params) != 3:
        raise AnalysisError("%s no longer takes (note1, note2, interval)" % HELPER)
    body = fi.body
    # First the direct way: evaluate the whole helper on (unknown note1, letter + any accidentals, any size 0..11) and judge
    # the result.  It works when the correction is a closed form; a correction *loop* that runs a symbolic number of
    # times cannot be evaluated like that, and is judged by the loop-invariant argument below instead.
    if _helper_direct(ctx, mod, fi, R):
        return
    body = _inline_loop_helpers(mod, body)
    widx = [i for i, s in enumerate(body) if isinstance(s, ast.While)]
    if not widx:
        raise AnalysisError("%s: cannot be evaluated directly, and no top-level correction loop found" % HELPER)
    wi = widx[0]
    loop = body[wi]
    prefix, suffix = body[:wi], body[wi + 1:]
    p_note1, p_note2, p_int = params
    syms = {}

    def mk_interp(ch):
        it = Interp(ctx.repo, ch)

        def measure(it_, args, kwargs, node):
            a, b = args
            d = pc(it_, b, syms) - pc(it_, a, syms)
            return it_.mod_lin(d, 12)
        it.summaries = {M + ".measure": measure}
        return it

    note1 = Opaque("note1")
    interval = Sym("interval", 0, 11)

    # (a) invariant established and preserved; (b) direction pairing
    for L2 in LETTERS:
        G = nd.acc_run("G")
        note2 = AbsStr([L2, G])
        outcomes = []

        def run_body(it):
            fr = Frame(fi, {p_note1: note1, p_note2: note2, p_int: Lin.of(interval)})
            it.exec_block(prefix, fr)
            # at the loop head: every variable the test reads must be in sync
            inv0 = _invariant_holds(it, fr, loop, syms, p_note1, p_int)
            if not it.truth(it.eval(loop.test, fr), loop.test):
                return ("exit", inv0, fr, None)
            before = decompose(fr.locals[p_note2], it)[1]
            cur0 = _test_lin(it, fr, loop)
            try:
                it.exec_block(loop.body, fr)
            except (BreakEx,):
                return ("break", inv0, fr, None)
            except ContinueEx:
                pass
            head, after, _ = decompose(fr.locals[p_note2], it)
            inv1 = _invariant_holds(it, fr, loop, syms, p_note1, p_int)
            side = "any"
            if cur0 is not None:
                slo, shi = it.lin_interval(cur0 - Lin.of(interval))
                side = "above" if slo >= 1 else ("below" if shi <= -1 else "any")
            return ("iter", inv0 and inv1, fr, (head, it.resolve(after - before), side))
        try:
            paths = explore(mk_interp, run_body)
        except (CannotDecide, nd.Shape) as e:
            raise AnalysisError("%s loop on letter %s: %s" % (HELPER, L2, e))
        ok, why = True, ""
        dirs = set()
        for p in paths:
            if p.kind != "return":
                ok, why = False, "loop path ends in %s %r" % (p.kind, p.value)
                break
            kind, inv, fr, info = p.value
            if not inv:
                ok, why = False, ("the value compared by the loop test is not measure(%s, %s) at the loop head "
                                  "(after the path %s)" % (p_note1, p_note2, [t for t in p.trace]))
                break
            if kind == "break":
                ok, why = False, "loop left by break without the exit test holding"
                break
            if kind == "exit":
                # exit condition + invariant => measure == interval
                cur = _test_lin(p.interp, fr, loop)
                if cur is None or not nd.same(p.interp, cur, Lin.of(interval)):
                    ok, why = False, "leaving the loop does not imply measure == interval"
                    break
            else:
                head, delta, side = info
                if head != L2:
                    ok, why = False, "loop body changes the letter to %r" % (head,)
                    break
                dlo, dhi = p.interp.lin_interval(delta)
                if dlo != dhi or dlo not in (1, -1):
                    ok, why = False, "one iteration changes the accidentals by %s (must be exactly +-1)" % delta
                    break
                delta = Lin.of(dlo)
                dirs.add((side, delta.const))
        if ok:
            uniform = len({d for _, d in dirs}) == 1
            paired = dirs <= {("above", -1), ("below", 1)}
            if not (uniform or paired):
                ok, why = False, ("direction pairing %s neither converges monotonically (above->-1, below->+1) "
                                  "nor walks one way round: the loop can oscillate" % sorted(dirs))
        ctx.check(ok, R, "loop[%s]" % L2, fi.where(loop), "while %s" % short(loop.test), why,
                  directions=sorted(dirs))

    # (c)(d)(e) normalisation and rebuild for |net| <= 11
    for L2 in LETTERS:
        G = nd.acc_run("G")
        note2 = AbsStr([L2, G])
        net_in = nd.run_net(G)

        def mk2(ch):
            it = mk_interp(ch)
            it._refine(net_in, lo=-11, hi=11)
            return it

        def run_suffix(it):
            fr = Frame(fi, {p_note1: note1, p_note2: note2, p_int: Lin.of(interval),
                            })
            for st in prefix:
                # variables of the prefix (cur) are dead after the loop; bind them opaque
                for n in ast.walk(st):
                    if isinstance(n, ast.Name) and isinstance(n.ctx, ast.Store):
                        fr.locals.setdefault(n.id, Opaque(n.id))
            it.exec_block(suffix, fr)
            return None
        try:
            paths = explore(mk2, run_suffix)
        except CannotDecide as e:
            raise AnalysisError("%s normalisation on letter %s: %s" % (HELPER, L2, e))
        ok, why = bool(paths), ""
        for p in paths:
            if p.kind != "return":
                ok, why = False, "%s %r" % (p.kind, p.value)
                break
            try:
                head, net_out, kinds = decompose(p.value, p.interp)
            except nd.Shape as e:
                ok, why = False, "result is not a note name: %s" % e
                break
            lo, hi = p.interp.lin_interval(net_out)
            ilo, ihi = p.interp.lin_interval(net_in)
            if head != L2:
                ok, why = False, "result letter %r differs from the target letter %s" % (head, L2)
            elif not nd.congruent_on_path(p.interp, net_out, net_in, 12):
                ok, why = False, "normalisation changes the pitch: accidentals %s -> %s is not a multiple of 12" % (net_in, net_out)
            elif lo < -6 or hi > 6:
                ok, why = False, "for a net of %s..%s accidentals the result carries %s..%s (more than six)" % (ilo, ihi, lo, hi)
            elif len(kinds) > 1:
                ok, why = False, "result %r may mix sharps and flats" % (p.value,)
            else:
                n_acc = Lin({}, 0)
                for a in (p.interp.norm_str(p.value).units()[1:] if isinstance(p.value, AbsStr) else list(p.value[1:])):
                    n_acc = n_acc + (a.count.scale(len(a.lit)) if isinstance(a, Rep) else 1)
                expect = net_out if lo >= 0 else (-net_out if hi <= 0 else None)
                if expect is None or not nd.same(p.interp, n_acc, expect):
                    ok, why = False, "result carries %s accidental characters for a net of %s" % (n_acc, net_out)
            if not ok:
                break
        ctx.check(ok, R, "normalise[%s]" % L2, fi.where(suffix[0] if suffix else loop),
                  "%s: statements after the loop" % HELPER, why, results=[repr(p.value) for p in paths][:6])


def _test_names(loop):
    return [n.id for n in ast.walk(loop.test) if isinstance(n, ast.Name)]


def _test_lin(it, fr, loop):
    """The non-parameter operand of the loop test as a linear form."""
    t = loop.test
    if isinstance(t, ast.Compare) and len(t.ops) == 1:
        for side in (t.left, t.comparators[0]):
            v = it.eval(side, fr)
            l = Lin.of(v) if not isinstance(v, (str, AbsStr)) else None
            if l is not None and any(s.meta and s.meta[0] == "mod" for s in l.terms):
                return l
            if l is not None and l.is_const() is False and not any(s.name == "interval" for s in l.terms):
                return l
    return None


def _invariant_holds(it, fr, loop, syms, p_note1, p_int):
    """Every operand of the loop test is either the interval parameter or == measure(note1, note2) now."""
    t = loop.test
    if not (isinstance(t, ast.Compare) and len(t.ops) == 1):
        raise CannotDecide("loop test %s is not a single comparison" % short(t))
    note1, note2 = fr.locals[p_note1], None
    p_note2 = fr.fi.params[1]
    note2 = fr.locals[p_note2]
    want = it.mod_lin(pc(it, note2, syms) - pc(it, note1, syms), 12)
    n_measure = 0
    for side in (t.left, t.comparators[0]):
        v = it.eval(side, fr)
        l = Lin.of(v) if not isinstance(v, (str, AbsStr, Opaque)) and v is not None else None
        if l is None:
            return False
        if l == Lin.of(fr.locals[p_int]):
            continue
        if it.resolve(l) == it.resolve(Lin.of(want)):
            n_measure += 1
            continue
        return False
    return n_measure == 1


def rule_measure(ctx, mod):
    R = "R-C02-3"
    fi = mod.func("measure")
    ctx.touch(fi)
    pa, pb = Sym("pc(note1)", 0, 11), Sym("pc(note2)", 0, 11)
    a, b = Opaque("note1"), Opaque("note2")

    def n2i(it, args, kwargs, node):
        if args[0] is a:
            return Lin.of(pa)
        if args[0] is b:
            return Lin.of(pb)
        raise CannotDecide("note_to_int applied to something other than an argument")
    try:
        paths = paths_of(ctx.repo, fi, [a, b], summaries={N + ".note_to_int": n2i})
    except CannotDecide:
        paths = None  # measure no longer asks note_to_int for its two arguments: judged on note names below
    ok, why = bool(paths), ""
    for p in paths or []:
        v = Lin.of(p.value) if p.kind == "return" and not isinstance(p.value, (str, Opaque)) and p.value is not None else None
        if v is None:
            ok, why = False, "%s %r" % (p.kind, p.value)
            break
        lo, hi = p.interp.lin_interval(v)
        if not congruent(v, Lin.of(pb) - Lin.of(pa), 12):
            ok, why = False, "returns %s, not congruent to pc(note2) - pc(note1) modulo 12" % v
            break
        if lo < 0 or hi > 11:
            ok, why = False, "returns %s whose range on the path %s is [%s, %s], outside 0..11" % (v, p.trace, lo, hi)
            break
    if paths is not None:
        ctx.check(ok, R, "measure", fi.where(), "measure(note1, note2)", why, results=[repr(p.value) for p in paths])
    # on note names: letter x any run of accidentals on both sides, with the real note_to_int
    for L1 in LETTERS:
        bad = None
        n_paths = 0
        for L2 in LETTERS:
            g1, g2 = nd.acc_run("G"), nd.acc_run("H")
            try:
                ps = paths_of(ctx.repo, fi, lambda: [AbsStr([L1, g1]), AbsStr([L2, g2])])
            except (CannotDecide, nd.Shape) as e:
                raise AnalysisError("measure(%s.., %s..): %s" % (L1, L2, e))
            n_paths += len(ps)
            want = Lin.of(NAT[L2]) + nd.run_net(g2) - Lin.of(NAT[L1]) - nd.run_net(g1)
            for p in ps:
                v = Lin.of(p.value) if p.kind == "return" and not isinstance(p.value, (str, Opaque, AbsStr)) and p.value is not None else None
                if v is None:
                    bad = "measure(%s.., %s..) gives %s %r" % (L1, L2, p.kind, p.value)
                    break
                lo, hi = p.interp.lin_interval(v)
                if not nd.congruent_on_path(p.interp, v, want, 12):
                    bad = "measure(%s.., %s..) returns %s, not congruent to the pitch difference modulo 12" % (L1, L2, v)
                    break
                if lo < 0 or hi > 11:
                    bad = "measure(%s.., %s..) returns %s, which ranges over [%s, %s] on the path %s: outside 0..11" % (L1, L2, v, lo, hi, p.trace[:3])
                    break
            if bad:
                break
        ctx.check(bad is None, R, "measure[%s..]" % L1, fi.where(), "measure(%s<accidentals>, <letter><accidentals>)" % L1, bad or "", paths=n_paths)


def rule_consonance(ctx, mod):
    R = "R-C02-4"
    perfect = lambda m, f4: m in (0, 7) or (f4 and m == 5)
    imperfect = lambda m, f4: m in (3, 4, 8, 9)
    consonant = lambda m, f4: perfect(m, f4) or imperfect(m, f4)
    dissonant = lambda m, f4: not consonant(m, not f4)
    specs = {"is_perfect_consonant": (perfect, True), "is_imperfect_consonant": (imperfect, False),
             "is_consonant": (consonant, True), "is_dissonant": (dissonant, True)}
    a, b = Opaque("note1"), Opaque("note2")
    for name, (oracle, has_flag) in specs.items():
        fi = mod.func(name)
        ctx.touch(fi)
        if (len(fi.params) == 3) != has_flag:
            raise AnalysisError("%s signature changed: %s" % (name, fi.params))
        # default of the flag, as documented: fourths count as consonant
        if has_flag:
            dflt = ctx.repo.try_const(mod, fi.defaults.get(fi.params[2]), default="?")
            want_default = False if name == "is_dissonant" else True
            ctx.check(dflt is want_default, R, "%s.default" % name, fi.where(), "%s default flag" % name,
                      "default of %s is %r, documented behaviour needs %r" % (fi.params[2], dflt, want_default))
        fallback = False
        for m in range(12):
            for flag in ((True, False) if has_flag else (None,)):
                def meas(it, args, kwargs, node, m=m):
                    if args[0] is a and args[1] is b:
                        return m
                    raise CannotDecide("measure called on %r" % (args,))
                args = [a, b] + ([flag] if has_flag else [])
                try:
                    paths = paths_of(ctx.repo, fi, args, summaries={M + ".measure": meas})
                except CannotDecide as e:
                    fallback = str(e)
                    break
                want = bool(oracle(m, flag))
                ok = len(paths) == 1 and paths[0].kind == "return" and (paths[0].value is want)
                ctx.check(ok, R, "%s[m=%d,flag=%s]" % (name, m, flag), fi.where(),
                          "%s at measure %d, flag %s" % (name, m, flag),
                          "%s gives %r for a measure of %d semitones with flag=%s, the statement requires %r"
                          % (name, [p.value for p in paths], m, flag, want))
            if fallback:
                break
        if fallback:
            # the predicate looks at more than the measure of its two notes (e.g. at the interval's name): judge it on
            # concrete pairs -- three first notes x all 35 spellings up to double accidentals -- with the real code
            ctx.note(R, "%s does not decide on measure() alone (%s); specialised to 105 concrete note pairs" % (name, short(fallback, 80)))
            names35 = [L + acc for L in LETTERS for acc in ("", "#", "b", "##", "bb")]
            for n1 in ("C", "F#", "Bb"):
                bad = []
                for n2 in names35:
                    m = (nd.pitch_of_concrete(n2) - nd.pitch_of_concrete(n1)) % 12
                    for flag in ((True, False) if has_flag else (None,)):
                        try:
                            paths = paths_of(ctx.repo, fi, [n1, n2] + ([flag] if has_flag else []))
                        except CannotDecide as e:
                            raise AnalysisError("%s(%r, %r): %s" % (name, n1, n2, e))
                        want = bool(oracle(m, flag))
                        if not (len(paths) == 1 and paths[0].kind == "return" and paths[0].value is want):
                            bad.append((n2, m, flag, [(p.kind, p.value) for p in paths], want))
                ctx.check(not bad, R, "%s[%s,*]" % (name, n1), fi.where(), "%s(%r, <35 spellings>)" % (name, n1),
                          "%d of the pairs answer differently from the statement's table on measure(): e.g. %s vs %s (measure %s, flag %s) gives %s, required %s"
                          % ((len(bad),) + ((n1,) + bad[0][:1] + bad[0][1:3] + (bad[0][3], bad[0][4]) if bad else ("", "", "", "", "", ""))))

    # the answers do not depend on what was asked before: all four predicates, with the flag set, cleared and left out,
    # through ONE interpreter (module-level tables a predicate may keep persist as at run time), against the same table
    twelve = ["C", "C#", "D", "D#", "E", "F", "F#", "G", "G#", "A", "A#", "B"]
    out = []

    def history(it):
        for flag in (True, False, None, True, None):
            for name, (oracle, has_flag) in specs.items():
                for m, n2 in enumerate(twelve):
                    args = ["C", n2] + ([flag] if (has_flag and flag is not None) else [])
                    eff = flag if flag is not None else (False if name == "is_dissonant" else True)
                    try:
                        got = ("return", it.call_function(mod.func(name), args, {}))
                    except RaiseEx as r:
                        got = ("raise", r.exc)
                    out.append((name, n2, m, flag, got, bool(oracle(m, eff))))
        return None
    del out[:]
    try:
        paths = explore(lambda ch: Interp(ctx.repo, ch), history)
    except CannotDecide as e:
        raise AnalysisError("consonance predicates in sequence: %s" % e)
    bad = [o for o in out if not (o[4][0] == "return" and o[4][1] is o[5])] if len(paths) == 1 else [("?", "?", "?", "?", "forked into %d paths" % len(paths), "?")]
    ctx.check(not bad, R, "history", mod.func("is_dissonant").where(), "the four predicates on C x 12 notes, flag True / False / default / True / default, in one run",
              "%d answers differ from the table once other requests came first: e.g. %s('C', %r) (measure %s, flag %s) gives %s, required %s" % (
                  (len(bad),) + tuple(bad[0][:6]) if bad else (0, "", "", "", "", "", "")))
