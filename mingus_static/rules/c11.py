"""C11 -- transposition at every container level."""
from __future__ import annotations

import ast

from ..engine.absval import Lin, Sym, AbsStr, Opaque, AObj, AClass, INF
from ..engine.absint import CannotDecide, Interp, explore, RaiseEx
from ..engine.loader import AnalysisError, short
from ..engine import notesdom as nd
from ..engine.notesdom import paths_of, decompose, LETTERS
from ..engine.stubs import log_of, recorder, stub, record_class, run_method

PROP = "C11"
EXPLANATION = (
    "Static rules over Note/NoteContainer/Bar/Track: the container methods transpose/augment/diminish are evaluated "
    "on containers holding recording stubs (three elements, rests in every position for bars) and must call the "
    "same-named operation exactly once on every element with their own parameters forwarded unchanged, skipping "
    "rests, touching no beat/value slot; Note.transpose is evaluated with the rename summarised by its C03 post-condition "
    "(P(new) = P(old) +- s - 12w, s in 0..11 symbolic, wrap w in {0,1}) and the real comparison operators on symbolic pitch "
    "numbers 12*octave + P(name): on every path the octave must move by exactly w, i.e. the pitch number by exactly s; change_octave is evaluated on symbolic octave and difference (result never negative, equal "
    "to the sum when that is non-negative); Note.augment/diminish delegate to core.notes.")
TRUSTED = ["CPython ast module", "mingus_static abstract evaluator", "C01/C03 summaries (notes.augment/diminish, intervals.from_shorthand)"]
NOT_DECIDED = "histories of mixed operations; that from_shorthand keeps |P(new) - P(old) -+ s| within one wrap (C03's post-condition, trusted here)"

NOTE, NC, BAR, TRACK = "mingus.containers.note", "mingus.containers.note_container", "mingus.containers.bar", "mingus.containers.track"


def run(ctx):
    repo = ctx.repo
    for m in (NOTE, NC, BAR, TRACK):
        ctx.touch(repo.mod(m))
    rule_lifting(ctx)
    rule_note_transpose(ctx)
    rule_octave(ctx)
    # Note.transpose is judged with intervals.from_shorthand summarised by its post-condition (right letter, exactly
    # +-s semitones); that post-condition and the respelling helper behind it are C03's / C02's rules on the same
    # code, discharged here as well so that a defect there is reported as the transposition defect it is
    from . import c02, c03
    imod = repo.mod("mingus.core.intervals")
    ctx.touch(imod)
    c03.rule_from_shorthand(ctx, imod, R="R-C11-F")
    c02.rule_helper(ctx, imod, R="R-C11-H")
    ctx.floor("R-C11-F", 7 * 35 * 2)
    ctx.floor("R-C11-H", 5)
    ctx.floor("R-C11-1", 9)
    ctx.floor("R-C11-2", 10)
    ctx.floor("R-C11-3", 5)


def rule_lifting(ctx):
    """transpose / augment / diminish on a container, a bar or a track: every Note reachable from it gets exactly that
    operation once, with the parameters as given, in order; rests, beats, values, the order and identity of entries,
    containers and bars stay as they were.  The real NoteContainer / Bar / Track code runs; only Note's own methods are
    recording stubs -- how a level reaches the notes (through the level below, or directly) is its own business."""
    R = "R-C11-1"
    repo = ctx.repo
    ops = {"transpose": [Opaque("interval"), Opaque("up")], "augment": [], "diminish": []}
    nci, bci, tci = repo.mod(NC).cls("NoteContainer"), repo.mod(BAR).cls("Bar"), repo.mod(TRACK).cls("Track")

    def build(level):
        notes = [stub(repo, NOTE, "Note", name="Note%d" % i) for i in range(8)]

        def cont(*idx):
            return AObj(nci, {"notes": [notes[i] for i in idx]}, name="cont%s" % "".join(map(str, idx)))
        if level == "NoteContainer":
            c = cont(0, 1, 2)
            return c, notes[:3], [("list", c.attrs["notes"], list(c.attrs["notes"]))]

        def bar(name, contents):
            rows = [[Opaque("%s.beat%d" % (name, k)), Opaque("%s.value%d" % (name, k)), x] for k, x in enumerate(contents)]
            return AObj(bci, {"bar": rows, "meter": (4, 4), "length": 1.0, "current_beat": 0.75}, name=name), rows
        keep = []
        if level == "Bar":
            contents = [None, cont(0, 1), None, cont(2), cont(3, 4)]
            b, rows = bar("bar", contents)
            keep.append(("rows", rows, [list(r) for r in rows]))
            keep += [("list", c.attrs["notes"], list(c.attrs["notes"])) for c in contents if c is not None]
            return b, notes[:5], keep
        ca, cb = [None, cont(0, 1), cont(2)], [cont(3), None, cont(4, 5, 6), cont(7)]
        b1, r1 = bar("bar1", ca)
        b2, r2 = bar("bar2", cb)
        bars = [b1, b2]
        t = AObj(tci, {"bars": bars}, name="track")
        keep += [("bars", bars, list(bars)), ("rows", r1, [list(r) for r in r1]), ("rows", r2, [list(r) for r in r2])]
        keep += [("list", c.attrs["notes"], list(c.attrs["notes"])) for c in ca + cb if c is not None]
        return t, notes, keep
    for level, ci in (("NoteContainer", nci), ("Bar", bci), ("Track", tci)):
        for op, args in ops.items():
            fi = repo.find_method(ci, op)
            if fi is None:
                raise AnalysisError("%s.%s vanished" % (level, op))
            ctx.touch(fi)
            summ = record_class(repo, NOTE, "Note", [op])
            holder = {}

            def mk(level=level, args=args):
                holder["v"] = build(level)
                return [holder["v"][0]] + list(args)
            try:
                paths = run_method(repo, fi, mk, summaries=summ, max_depth=30)
            except CannotDecide as e:
                raise AnalysisError("%s.%s: %s" % (level, op, e))
            ok, why = len(paths) == 1 and paths[0].kind == "return", "outcome %s" % [(p.kind, p.value) for p in paths]
            if ok:
                obj, notes, keep = holder["v"]
                log = log_of(paths[0].interp)
                calls = [(c[1][0], c[1][1:], c[2]) for c in log if c[0] == "Note.%s" % op]
                recv = [c[0] for c in calls]
                if [id(x) for x in recv] != [id(x) for x in notes]:
                    ok, why = False, "%s reaches the notes %s, expected each of the %d notes once, in order" % (
                        op, [getattr(x, "name", x) for x in recv], len(notes))
                elif any(list(c[1]) + [c[2].get(k) for k in sorted(c[2])] != list(args) for c in calls):
                    ok, why = False, "parameters are not handed on unchanged: %s" % [(c[1], c[2]) for c in calls][:2]
                else:
                    for kind, cur, snap in keep:
                        if kind == "rows":
                            same = len(cur) == len(snap) and all(len(e) == 3 and e[0] is s0[0] and e[1] is s0[1] and e[2] is s0[2] for e, s0 in zip(cur, snap))
                        else:
                            same = len(cur) == len(snap) and all(a is b_ for a, b_ in zip(cur, snap))
                        if not same:
                            ok, why = False, "the skeleton was modified (beats, values, rests, or the order / identity of entries, notes or bars)"
                            break
            ctx.check(ok, R, "%s.%s" % (level, op), fi.where(), "%s.%s(%s)" % (level, op, ", ".join(a.tag for a in args)), why)
    # rest detection
    bi = repo.mod(BAR).cls("Bar")
    isn = repo.find_method(bi, "_is_note")
    if isn is not None:
        b = AObj(bi, {}, name="Bar")
        p1 = run_method(repo, isn, [b, None])
        p2 = run_method(repo, isn, [b, stub(repo, NC, "NoteContainer")])
        ok = len(p1) == 1 and p1[0].value is False and len(p2) == 1 and p2[0].value is True
        ctx.check(ok, R, "Bar._is_note", isn.where(), "Bar._is_note", "rest detection: None -> %s, container -> %s" % (
            [(p.kind, p.value) for p in p1], [(p.kind, p.value) for p in p2]))


def rule_note_transpose(ctx):
    R = "R-C11-2"
    repo = ctx.repo
    ci = repo.mod(NOTE).cls("Note")
    fi = repo.find_method(ci, "transpose")
    ctx.touch(fi)
    # Pitch arithmetic.  P(name) = natural + sharps - flats of a name (not reduced mod 12: B# is 12, Cb is -1), the
    # pitch number of a note is 12*octave + P(name) (C10).  The rename (intervals.from_shorthand, C03) gives a name
    # with P(new) = P(old) +- s - 12*w for the interval size s in 0..11 and a wrap w; the octave must move by exactly w
    # so that the pitch number moves by exactly s.  w is 0 or 1 for ordinary spellings; the respelling helper keeps at
    # most six accidentals and may answer six sharps for six flats, which makes w = 2 or -1 possible (B###### for
    # Bbbbbbb).  All four wraps are evaluated with s, P(old) and the octave symbolic.
    from ..engine.absval import Token
    for up in (True, False):
        for wrap in (-1, 0, 1, 2):
            old_name, new_name, interval = Token("old_name"), Token("new_name"), Token("interval")
            o = Sym("octave", 0, INF)
            size = Sym("semitones", 0, 11)
            p_old = Sym("P(old name)", -INF, INF)
            sign = 1 if up else -1
            pitch = {id(old_name): Lin.of(p_old), id(new_name): Lin.of(p_old) + Lin.of(size).scale(sign) - 12 * wrap * sign}

            def mk():
                return [AObj(ci, {"name": old_name, "octave": Lin.of(o)}, name="note"), interval, up]

            def note_ctor(it, args, kwargs, node):
                log_of(it).append(("Note()", list(args), dict(kwargs)))
                oc = args[1] if len(args) > 1 else kwargs.get("octave", 4)
                return AObj(ci, {"name": args[0] if args else None, "octave": oc}, name="reference")

            def P(it, name):
                if id(name) not in pitch:
                    raise CannotDecide("pitch of %r (neither the old nor the new name)" % (name,))
                return pitch[id(name)]

            def int_summary(it, args, kwargs, node):
                n = args[0]
                oc = Lin.of(n.attrs.get("octave"))
                if oc is None:
                    raise CannotDecide("int() of a note with octave %r" % (n.attrs.get("octave"),))
                return oc.scale(12) + P(it, n.attrs.get("name"))

            def pc_summary(it, args, kwargs, node):
                return it.mod_lin(P(it, args[0]), 12)
            summ = {"mingus.core.intervals.from_shorthand": recorder("from_shorthand", new_name),
                    NOTE + ".Note": note_ctor, NOTE + ".Note.__int__": int_summary,
                    "mingus.core.notes.note_to_int": pc_summary}
            try:
                paths = run_method(repo, fi, mk, summaries=summ)
            except CannotDecide as e:
                raise AnalysisError("Note.transpose(up=%s): %s" % (up, e))
            ok, why = bool(paths), "no outcome"
            want = wrap * sign
            for p in paths:
                if p.kind != "return":
                    ok, why = False, "%s %r" % (p.kind, p.value)
                    break
                n = p.interp.args[0]
                log = log_of(p.interp)
                fs = [c for c in log if c[0] == "from_shorthand"]
                if len(fs) != 1 or fs[0][1][0] is not old_name or fs[0][1][1] is not interval or \
                        (fs[0][1][2] if len(fs[0][1]) > 2 else fs[0][2].get("up", True)) is not up:
                    ok, why = False, "rename is not from_shorthand(old name, interval, up): %s" % (fs,)
                    break
                if n.attrs.get("name") is not new_name:
                    ok, why = False, "the name is %r after the call, expected the renamed note" % (n.attrs.get("name"),)
                    break
                d = Lin.of(n.attrs.get("octave"))
                d = p.interp.resolve(d - Lin.of(o)) if d is not None else None
                if d is None or not d.is_const() or d.const != want:
                    lo_, hi_ = p.interp.lin_interval(Lin.of(size))
                    ok, why = False, ("%s by s semitones (s in %s..%s) where the new name's own pitch is %s the old one's (P(new) = P(old) %s s %s): "
                                      "the octave changes by %s, so the pitch number moves by %s instead of %ss" % (
                                          "up" if up else "down", lo_, hi_, ("below" if up else "above") if wrap else ("not below" if up else "not above"),
                                          "+" if up else "-", ("%+d" % (-12 * wrap * sign)) if wrap else "", d,
                                          "12*(%s) %s s %s" % (d, "+" if up else "-", ("%+d" % (-12 * wrap * sign)) if wrap else ""), "+" if up else "-"))
                    break
            ctx.check(ok, R, "Note.transpose[up=%s,wrap=%d]" % (up, wrap), fi.where(),
                      "Note.transpose(interval, up=%s), renamed note %s the B/C boundary" % (up, "crosses" if wrap else "does not cross"), why)
    # augment / diminish delegate to core.notes on the name
    for op, want in (("augment", 1), ("diminish", -1)):
        f2 = repo.find_method(ci, op)
        ctx.touch(f2)
        run = nd.acc_run("R")
        nm = AbsStr(["G", run])
        holder = {}

        def mk2():
            holder["n"] = AObj(ci, {"name": nm, "octave": 4}, name="note")
            return [holder["n"]]
        paths = paths_of(repo, f2, mk2)
        ok, why = bool(paths), "no outcome"
        for p in paths:
            n_ = p.interp.args[0]
            try:
                head, net, _ = decompose(n_.attrs.get("name"), p.interp)
            except nd.Shape as e:
                ok, why = False, str(e)
                break
            if p.kind != "return" or head != "G" or not nd.same(p.interp, net - nd.run_net(run), want) or n_.attrs.get("octave") != 4:
                ok, why = False, "name becomes %r" % (n_.attrs.get("name"),)
                break
        ctx.check(ok, R, "Note.%s" % op, f2.where(), "Note.%s()" % op, why)


def rule_octave(ctx):
    R = "R-C11-3"
    repo = ctx.repo
    ci = repo.mod(NOTE).cls("Note")
    fi = repo.find_method(ci, "change_octave")
    ctx.touch(fi)
    o, d = Sym("octave", 0, INF), Sym("diff")
    holder = {}

    def mk():
        holder["n"] = AObj(ci, {"name": "C", "octave": Lin.of(o)}, name="note")
        return [holder["n"], Lin.of(d)]
    paths = paths_of(repo, fi, mk)
    ok, why = bool(paths), "no outcome"
    for p in paths:
        res = p.interp.args[0].attrs.get("octave")
        lo, hi = p.interp.lin_interval(Lin.of(res))
        slo, shi = p.interp.lin_interval(Lin.of(o) + Lin.of(d))
        if p.kind != "return" or lo < 0:
            ok, why = False, "octave can become negative (%s..%s) on the path %s" % (lo, hi, p.trace)
            break
        if slo >= 0 and not nd.same(p.interp, Lin.of(res), Lin.of(o) + Lin.of(d)):
            ok, why = False, "octave + diff >= 0 but the result is %s" % res
            break
        if shi < 0 and not nd.same(p.interp, Lin.of(res), 0):
            ok, why = False, "octave + diff < 0 must clamp to 0, got %s" % res
            break
    ctx.check(ok, R, "change_octave", fi.where(), "Note.change_octave(diff)", why)
    for mname, delta in (("octave_up", 1), ("octave_down", -1)):
        f2 = repo.find_method(ci, mname)
        ctx.touch(f2)
        for label, start in (("symbolic>=1", Sym("octave", 1, INF)), ("zero", None)):
            holder = {}

            def mk2():
                holder["n"] = AObj(ci, {"name": "C", "octave": Lin.of(start) if start is not None else 0}, name="note")
                return [holder["n"]]
            paths = paths_of(repo, f2, mk2)
            ok, why = bool(paths), "no outcome"
            for p in paths:
                res = Lin.of(p.interp.args[0].attrs.get("octave"))
                want = (Lin.of(start) + delta) if start is not None else Lin.of(max(0, delta))
                if p.kind != "return" or not nd.same(p.interp, res, want):
                    ok, why = False, "octave becomes %s, expected %s" % (res, want)
                    break
            ctx.check(ok, R, "%s[%s]" % (mname, label), f2.where(), "Note.%s()" % mname, why)
