"""C11 -- transposition at every container level."""
from __future__ import annotations

import ast

from ..engine.absval import Lin, Sym, AbsStr, Opaque, AObj, AClass, INF
from ..engine.absint import CannotDecide, Interp, explore, RaiseEx
from ..engine.loader import AnalysisError, short
from ..engine import notesdom as nd
from ..engine.notesdom import paths_of, decompose, LETTERS
from ..engine.stubs import log_of, recorder, stub, record_class, run_method

PROP = "C11"
EXPLANATION = (
    "Static rules over Note/NoteContainer/Bar/Track: the container methods transpose/augment/diminish are evaluated "
    "on containers holding recording stubs (three elements, rests in every position for bars) and must call the "
    "same-named operation exactly once on every element with their own parameters forwarded unchanged, skipping "
    "rests, touching no beat/value slot; Note.transpose is evaluated with the rename and the comparisons summarised "
    "(octave fix-up table: up and lower -> +1, down and higher -> -1, measured against the name and octave saved "
    "before the rename); change_octave is evaluated on symbolic octave and difference (result never negative, equal "
    "to the sum when that is non-negative); Note.augment/diminish delegate to core.notes.")
TRUSTED = ["CPython ast module", "mingus_static abstract evaluator", "C01/C03 summaries (notes.augment/diminish, intervals.from_shorthand)"]
NOT_DECIDED = ("that the octave fix-up makes the pitch number move by exactly the interval size for every spelling (a numeric "
               "fact about pitch numbers); histories of mixed operations")

NOTE, NC, BAR, TRACK = "mingus.containers.note", "mingus.containers.note_container", "mingus.containers.bar", "mingus.containers.track"


def run(ctx):
    repo = ctx.repo
    for m in (NOTE, NC, BAR, TRACK):
        ctx.touch(repo.mod(m))
    rule_lifting(ctx)
    rule_note_transpose(ctx)
    rule_octave(ctx)
    ctx.floor("R-C11-1", 9)
    ctx.floor("R-C11-2", 4)
    ctx.floor("R-C11-3", 5)


def rule_lifting(ctx):
    R = "R-C11-1"
    repo = ctx.repo
    ops = {"transpose": [Opaque("interval"), Opaque("up")], "augment": [], "diminish": []}
    levels = [
        (NC, "NoteContainer", "notes", NOTE, "Note", False),
        (BAR, "Bar", "bar", NC, "NoteContainer", True),
        (TRACK, "Track", "bars", BAR, "Bar", False),
    ]
    for cmod, cname, attr, emod, ename, entries in levels:
        ci = repo.mod(cmod).cls(cname)
        for op, args in ops.items():
            fi = repo.find_method(ci, op)
            if fi is None:
                raise AnalysisError("%s.%s vanished" % (cname, op))
            ctx.touch(fi)
            summ = record_class(repo, emod, ename, [op])
            elems = [stub(repo, emod, ename, name="%s%d" % (ename, i)) for i in range(3)]
            if entries:
                beats = [Opaque("beat%d" % i) for i in range(5)]
                vals = [Opaque("value%d" % i) for i in range(5)]
                content = [None, elems[0], None, elems[1], elems[2]]
                coll = [[beats[i], vals[i], content[i]] for i in range(5)]
                snapshot = [list(e) for e in coll]
            else:
                coll = list(elems)
                snapshot = list(coll)
            obj = AObj(ci, {attr: coll}, name=cname)
            try:
                paths = run_method(repo, fi, lambda: [obj] + list(args), summaries=summ)
            except CannotDecide as e:
                raise AnalysisError("%s.%s: %s" % (cname, op, e))
            ok, why = len(paths) == 1 and paths[0].kind == "return", "outcome %s" % [(p.kind, p.value) for p in paths]
            if ok:
                log = log_of(paths[0].interp)
                calls = [(c[1][0], c[1][1:], c[2]) for c in log if c[0] == "%s.%s" % (ename, op)]
                recv = [c[0] for c in calls]
                if [id(x) for x in recv] != [id(x) for x in elems]:
                    ok, why = False, "%s is applied to %s, expected once to each of the %d elements in order" % (
                        op, [getattr(x, "name", x) for x in recv], len(elems))
                elif any([id(a) for a in c[1]] + sorted(c[2]) != [id(a) for a in args] for c in calls) \
                        and any(list(c[1]) + [c[2].get(k) for k in sorted(c[2])] != list(args) for c in calls):
                    ok, why = False, "parameters are not forwarded unchanged: %s" % [(c[1], c[2]) for c in calls][:2]
                else:
                    if entries:
                        now = obj.attrs.get(attr)
                        same = now is coll and len(coll) == 5 and all(
                            e[0] is s[0] and e[1] is s[1] and e[2] is s[2] for e, s in zip(coll, snapshot))
                    else:
                        now = obj.attrs.get(attr)
                        same = now is coll and [id(x) for x in coll] == [id(x) for x in snapshot]
                    if not same:
                        ok, why = False, "the container's own slots (beats, values, rests, element order) were modified"
            ctx.check(ok, R, "%s.%s" % (cname, op), fi.where(), "%s.%s(%s)" % (cname, op, ", ".join(a.tag for a in args)), why)
    # rest detection
    bi = repo.mod(BAR).cls("Bar")
    isn = repo.find_method(bi, "_is_note")
    if isn is not None:
        b = AObj(bi, {}, name="Bar")
        p1 = run_method(repo, isn, [b, None])
        p2 = run_method(repo, isn, [b, stub(repo, NC, "NoteContainer")])
        ok = len(p1) == 1 and p1[0].value is False and len(p2) == 1 and p2[0].value is True
        ctx.check(ok, R, "Bar._is_note", isn.where(), "Bar._is_note", "rest detection: None -> %s, container -> %s" % (
            [(p.kind, p.value) for p in p1], [(p.kind, p.value) for p in p2]))


def rule_note_transpose(ctx):
    R = "R-C11-2"
    repo = ctx.repo
    ci = repo.mod(NOTE).cls("Note")
    fi = repo.find_method(ci, "transpose")
    ctx.touch(fi)
    for up in (True, False):
        old_name = Opaque("old_name")
        o = Sym("octave", 0, INF)
        new_name = Opaque("new_name")
        interval = Opaque("interval")
        holder = {}

        def mk():
            holder["n"] = AObj(ci, {"name": old_name, "octave": Lin.of(o)}, name="note")
            return [holder["n"], interval, up]
        made = []

        def note_ctor(it, args, kwargs, node):
            ref = AObj(ci, {"name": args[0] if args else None, "octave": args[1] if len(args) > 1 else None}, name="old")
            made.append(ref)
            log_of(it).append(("Note()", list(args), dict(kwargs)))
            ref.is_ref = True
            return ref

        def cmp_summary(which):
            def f(it, args, kwargs, node):
                a, b = args[0], args[1]
                rel = which
                if getattr(a, "is_ref", False) and not getattr(b, "is_ref", False):
                    # reference on the left: old OP self  ==  self FLIP(OP) old
                    rel = {"lt": "gt", "gt": "lt", "le": "ge", "ge": "le"}[which]
                    a, b = b, a
                log_of(it).append((rel, [a, b], {}))
                return it.fork("%s(self, old)" % rel)
            return f
        summ = {"mingus.core.intervals.from_shorthand": recorder("from_shorthand", new_name),
                NOTE + ".Note": note_ctor,
                NOTE + ".Note.__lt__": cmp_summary("lt"), NOTE + ".Note.__gt__": cmp_summary("gt"),
                NOTE + ".Note.__le__": cmp_summary("le"), NOTE + ".Note.__ge__": cmp_summary("ge")}
        try:
            paths = run_method(repo, fi, mk, summaries=summ)
        except CannotDecide as e:
            raise AnalysisError("Note.transpose(up=%s): %s" % (up, e))
        ok, why = bool(paths), "no outcome"
        seen_adjust = set()
        for p in paths:
            if p.kind != "return":
                ok, why = False, "%s %r" % (p.kind, p.value)
                break
            n = p.interp.args[0]
            log = log_of(p.interp)
            fs = [c for c in log if c[0] == "from_shorthand"]
            if len(fs) != 1 or fs[0][1][0] is not old_name or fs[0][1][1] is not interval or \
                    (fs[0][1][2] if len(fs[0][1]) > 2 else fs[0][2].get("up", True)) is not up:
                ok, why = False, "rename is not from_shorthand(old name, interval, up): %s" % (fs,)
                break
            if n.attrs.get("name") is not new_name:
                ok, why = False, "the name is %r after the call, expected the renamed note" % (n.attrs.get("name"),)
                break
            ctor = [c for c in log if c[0] == "Note()"]
            if any(c[1][0] is not old_name or Lin.of(c[1][1]) != Lin.of(o) for c in ctor if len(c[1]) >= 2) or not ctor:
                ok, why = False, "the reference note is not built from the name and octave saved before the rename: %s" % (ctor,)
                break
            cmps = [c for c in log if c[0] in ("lt", "gt", "le", "ge")]
            d = p.interp.resolve(Lin.of(n.attrs.get("octave")) - Lin.of(o))
            if not d.is_const():
                ok, why = False, "octave becomes %s" % n.attrs.get("octave")
                break
            outcome = dict((lab.split("(")[0], v) for lab, v in p.trace)
            lower = outcome.get("lt", None) if "lt" in outcome else (not outcome["ge"] if "ge" in outcome else None)
            higher = outcome.get("gt", None) if "gt" in outcome else (not outcome["le"] if "le" in outcome else None)
            want = (1 if lower else 0) if up else (-1 if higher else 0)
            if (up and lower is None) or (not up and higher is None):
                ok, why = False, "direction up=%s does not compare the renamed note with the old one (%s)" % (up, p.trace)
                break
            # receiver of the comparison must be the note itself against the reference
            if any(not (c[1][0] is n and getattr(c[1][1], "is_ref", False)) and not (c[1][1] is n and getattr(c[1][0], "is_ref", False)) for c in cmps):
                ok, why = False, "comparison is not between the note and its old self"
                break
            if d.const != want:
                ok, why = False, "up=%s, renamed note %s the old one: octave changes by %+d, expected %+d" % (
                    up, ("below" if lower else "not below") if up else ("above" if higher else "not above"), d.const, want)
                break
            seen_adjust.add(d.const)
        if ok and seen_adjust != ({0, 1} if up else {0, -1}):
            ok, why = False, "octave adjustments seen %s" % sorted(seen_adjust)
        ctx.check(ok, R, "Note.transpose[up=%s]" % up, fi.where(), "Note.transpose(interval, up=%s)" % up, why)
    # augment / diminish delegate to core.notes on the name
    for op, want in (("augment", 1), ("diminish", -1)):
        f2 = repo.find_method(ci, op)
        ctx.touch(f2)
        run = nd.acc_run("R")
        nm = AbsStr(["G", run])
        holder = {}

        def mk2():
            holder["n"] = AObj(ci, {"name": nm, "octave": 4}, name="note")
            return [holder["n"]]
        paths = paths_of(repo, f2, mk2)
        ok, why = bool(paths), "no outcome"
        for p in paths:
            n_ = p.interp.args[0]
            try:
                head, net, _ = decompose(n_.attrs.get("name"), p.interp)
            except nd.Shape as e:
                ok, why = False, str(e)
                break
            if p.kind != "return" or head != "G" or not nd.same(p.interp, net - nd.run_net(run), want) or n_.attrs.get("octave") != 4:
                ok, why = False, "name becomes %r" % (n_.attrs.get("name"),)
                break
        ctx.check(ok, R, "Note.%s" % op, f2.where(), "Note.%s()" % op, why)


def rule_octave(ctx):
    R = "R-C11-3"
    repo = ctx.repo
    ci = repo.mod(NOTE).cls("Note")
    fi = repo.find_method(ci, "change_octave")
    ctx.touch(fi)
    o, d = Sym("octave", 0, INF), Sym("diff")
    holder = {}

    def mk():
        holder["n"] = AObj(ci, {"name": "C", "octave": Lin.of(o)}, name="note")
        return [holder["n"], Lin.of(d)]
    paths = paths_of(repo, fi, mk)
    ok, why = bool(paths), "no outcome"
    for p in paths:
        res = p.interp.args[0].attrs.get("octave")
        lo, hi = p.interp.lin_interval(Lin.of(res))
        slo, shi = p.interp.lin_interval(Lin.of(o) + Lin.of(d))
        if p.kind != "return" or lo < 0:
            ok, why = False, "octave can become negative (%s..%s) on the path %s" % (lo, hi, p.trace)
            break
        if slo >= 0 and not nd.same(p.interp, Lin.of(res), Lin.of(o) + Lin.of(d)):
            ok, why = False, "octave + diff >= 0 but the result is %s" % res
            break
        if shi < 0 and not nd.same(p.interp, Lin.of(res), 0):
            ok, why = False, "octave + diff < 0 must clamp to 0, got %s" % res
            break
    ctx.check(ok, R, "change_octave", fi.where(), "Note.change_octave(diff)", why)
    for mname, delta in (("octave_up", 1), ("octave_down", -1)):
        f2 = repo.find_method(ci, mname)
        ctx.touch(f2)
        for label, start in (("symbolic>=1", Sym("octave", 1, INF)), ("zero", None)):
            holder = {}

            def mk2():
                holder["n"] = AObj(ci, {"name": "C", "octave": Lin.of(start) if start is not None else 0}, name="note")
                return [holder["n"]]
            paths = paths_of(repo, f2, mk2)
            ok, why = bool(paths), "no outcome"
            for p in paths:
                res = Lin.of(p.interp.args[0].attrs.get("octave"))
                want = (Lin.of(start) + delta) if start is not None else Lin.of(max(0, delta))
                if p.kind != "return" or not nd.same(p.interp, res, want):
                    ok, why = False, "octave becomes %s, expected %s" % (res, want)
                    break
            ctx.check(ok, R, "%s[%s]" % (mname, label), f2.where(), "Note.%s()" % mname, why)
