"""C03 -- interval naming <-> interval shorthand (mingus/core/intervals.py)."""
from __future__ import annotations

import itertools

from ..engine.absval import Lin, Sym, Ch, Run, AbsStr, Rep, Sel, Opaque, INF
from ..engine.absint import CannotDecide, Interp, explore
from ..engine.loader import AnalysisError, short
from ..engine import notesdom as nd
from ..engine.notesdom import paths_of, decompose, congruent, NAT, LETTERS
from .c02 import get_notes_summary, pc, M, N, K, HELPER

PROP = "C03"
EXPLANATION = (
    "Static rules over intervals.determine / from_shorthand / invert: determine is evaluated abstractly on all 49 "
    "letter pairs x symbolic accidental runs on both notes x {long, short} with measure summarised as the "
    "pitch-class difference mod 12; on every path the returned name (number from the letters, quality word from "
    "the interval of the semitone offset on that path) and the returned shorthand (its net accidental as a linear "
    "form must equal the offset on that path, i.e. the encoding loses nothing) are compared with the oracle. "
    "from_shorthand is evaluated on 7 letters x symbolic accidentals x the 35 shorthands x {up, down} with the "
    "correction helper summarised by its C02 post-condition; letter and pitch offset of the result are compared "
    "with theory. invert is evaluated for aliasing and net effect on its argument.")
TRUSTED = ["CPython ast module", "mingus_static abstract evaluator", "C01/C02 summaries of note_to_int, measure and the correction helper",
           "music-theory oracle (major sizes 0 2 4 5 7 9 11) in engine/notesdom.py"]
NOT_DECIDED = ("that determine followed by from_shorthand reproduces the *spelling* of the second note for mixed or "
               "more-than-six-accidental spellings (letter and pitch class are decided); up-then-down identity on spellings")

NUMBER_NAMES = ["unison", "second", "third", "fourth", "fifth", "sixth", "seventh"]
ACCS = ["", "b", "bb", "#", "##"]


def run(ctx):
    repo = ctx.repo
    mod = repo.mod(M)
    ctx.touch(mod)
    rule_determine(ctx, mod)
    rule_from_shorthand(ctx, mod)
    rule_invert(ctx, mod)
    # from_shorthand is evaluated with the respelling helper summarised by its post-condition; the helper's own
    # obligation (C02's rule, same code, same anchor file) is discharged here too so that a defect in it is a C03 report
    from . import c02
    c02.rule_helper(ctx, mod, R="R-C03-H")
    ctx.floor("R-C03-H", 5)
    ctx.floor("R-C03-D", 49 * 2)
    ctx.floor("R-C03-F", 7 * 35 * 2)
    ctx.floor("R-C03-7", 1)


def _parse_shorthand(interp, v):
    """-> (net accidental Lin, digit) or None."""
    if isinstance(v, str):
        v = AbsStr([v])
    if not isinstance(v, AbsStr):
        return None
    u = interp.norm_str(v).units()
    if not u or not isinstance(u[-1], str) or not u[-1].isdigit():
        return None
    net = Lin({}, 0)
    for a in u[:-1]:
        if a == "#":
            net = net + 1
        elif a == "b":
            net = net - 1
        elif isinstance(a, Rep) and a.lit and set(a.lit) <= {"#"}:
            net = net + a.count.scale(len(a.lit))
        elif isinstance(a, Rep) and a.lit and set(a.lit) <= {"b"}:
            net = net - a.count.scale(len(a.lit))
        elif isinstance(a, Rep) and not a.lit:
            continue
        else:
            return None
    return net, int(u[-1])


def rule_determine(ctx, mod):
    R = "R-C03-D"
    fi = mod.func("determine")
    ctx.touch(fi)
    for L1, L2 in itertools.product(LETTERS, LETTERS):
        n = (LETTERS.index(L2) - LETTERS.index(L1)) % 7  # letters up
        maj = (NAT[L2] - NAT[L1]) % 12 if False else nd.MAJOR_SIZES[n]
        for short_form in (False, True):
            A, B = nd.acc_run("A"), nd.acc_run("B")
            n1, n2 = AbsStr([L1, A]), AbsStr([L2, B])
            syms = {}
            # true ascending distance along the letters
            dist = Lin.of((NAT[L2] - NAT[L1]) % 12) + nd.run_net(B) - nd.run_net(A)

            def mk(ch):
                it = Interp(ctx.repo, ch)
                it.summaries = {M + ".measure": lambda it_, args, kw, node: it_.mod_lin(pc(it_, args[1], syms) - pc(it_, args[0], syms), 12)}
                # quantifier of the property: ascending distance 0..11
                it._refine(dist, lo=0, hi=11)
                return it
            try:
                paths = explore(mk, lambda it: it.call_function(fi, [n1, n2, short_form], {}))
            except CannotDecide as e:
                raise AnalysisError("determine(%s.., %s.., %s): %s" % (L1, L2, short_form, e))
            ok, why = bool(paths), ""
            for p in paths:
                off = dist - maj  # offset from the major/perfect size
                lo, hi = p.interp.lin_interval(off)
                if lo > hi:
                    continue  # infeasible path
                if p.kind != "return" or p.value is None:
                    ok, why = False, "for an offset of %s..%s semitones from the major size the function gives %s %r" % (lo, hi, p.kind, p.value)
                    break
                if short_form:
                    parsed = _parse_shorthand(p.interp, p.value)
                    if parsed is None:
                        ok, why = False, "shorthand result %r is not accidentals + degree digit" % (p.value,)
                        break
                    net, digit = parsed
                    if digit != n + 1:
                        ok, why = False, "shorthand %r names degree %d, the letters span a %s (%d)" % (p.value, digit, NUMBER_NAMES[n], n + 1)
                        break
                    if not nd.same(p.interp, net, off):
                        ok, why = False, ("shorthand %r encodes an offset of %s but on this path the notes are %s..%s semitones "
                                          "from the major size: the encoding loses accidentals and cannot be inverted"
                                          % (p.value, net, lo, hi))
                        break
                else:
                    v = p.value
                    if isinstance(v, AbsStr) and v.is_concrete():
                        v = v.concrete()
                    if not isinstance(v, str) or len(v.split(" ")) != 2:
                        ok, why = False, "long name %r is not '<quality> <number>'" % (v,)
                        break
                    q, num = v.split(" ")
                    if num != NUMBER_NAMES[n]:
                        ok, why = False, "named a %s, the letters %s->%s span a %s" % (num, L1, L2, NUMBER_NAMES[n])
                        break
                    if lo == hi == 0:
                        good = (q == "major" and True) or (q == "perfect" and n in (0, 3, 4))
                    elif lo >= 1:
                        good = q == "augmented"
                    elif lo == hi == -1:
                        good = q == "minor"
                    elif hi <= -2:
                        good = q == "diminished"
                    else:
                        good = False
                        q = "%s (one answer for offsets %s..%s)" % (q, lo, hi)
                    if not good:
                        ok, why = False, "quality %s for an offset of %s..%s semitones from the major/perfect size" % (q, lo, hi)
                        break
            ctx.check(ok, R, "determine[%s->%s,%s]" % (L1, L2, "short" if short_form else "long"), fi.where(),
                      "determine(%s.., %s.., shorthand=%s)" % (L1, L2, short_form), why)


def rule_from_shorthand(ctx, mod, R="R-C03-F"):
    fi = mod.func("from_shorthand")
    ctx.touch(fi)
    for L in LETTERS:
        for acc in ACCS:
            for deg in range(1, 8):
                for up in (True, False):
                    sh = acc + str(deg)
                    run = nd.acc_run("R")
                    note = AbsStr([L, run])
                    def helper(it, args, kw, node):
                        facts = it.__dict__.setdefault("facts", [])
                        n1, n2, iv = args
                        head, net2, _ = decompose(n2, it)
                        if not isinstance(iv, int) or head not in LETTERS:
                            raise CannotDecide("helper called with %r" % (args,))
                        h = nd.acc_run("H%d" % len(facts))
                        facts.append((h, n1, iv))
                        return AbsStr([head, h])
                    summ = {K + ".get_notes": get_notes_summary, M + "." + HELPER: helper}
                    try:
                        paths = paths_of(ctx.repo, fi, [note, sh, up], summaries=summ)
                    except (CannotDecide, nd.Shape) as e:
                        raise AnalysisError("from_shorthand(%s.., %r, %s): %s" % (L, sh, up, e))
                    k = acc.count("#") - acc.count("b")
                    size = nd.MAJOR_SIZES[deg - 1] + k
                    want_letter = nd.letter_up(L, deg - 1) if up else nd.letter_up(L, -(deg - 1))
                    want_shift = size if up else -size
                    ok, why = bool(paths), "no outcome"
                    for p in paths:
                        if p.kind != "return":
                            ok, why = False, "%s %r" % (p.kind, p.value)
                            break
                        try:
                            head, net_out, _ = decompose(p.value, p.interp)
                        except nd.Shape as e:
                            ok, why = False, "result %r is not a note name (%s)" % (p.value, e)
                            break
                        if head != want_letter:
                            ok, why = False, "result is spelled on %s, the interval number requires %s" % (head, want_letter)
                            break
                        # pitch of the result relative to the input: substitute the helper facts
                        rel = Lin.of(NAT[head]) + net_out - (Lin.of(NAT[L]) + nd.run_net(run))
                        shift = None
                        for h, n1, iv in p.interp.__dict__.get("facts", []):
                            # NAT[head] + net(h) == pc(n1) + iv (mod 12), and n1 must be the input note
                            if n1 is not note:
                                shift = "helper measured from %r" % (n1,)
                                break
                            rel = rel - (Lin.of(NAT[head]) + nd.run_net(h)) + (Lin.of(NAT[L]) + nd.run_net(run)) + iv
                        if isinstance(shift, str):
                            ok, why = False, shift
                            break
                        rel = p.interp.resolve(rel)
                        rlo, rhi = p.interp.lin_interval(rel)
                        if rlo != rhi or (rlo - want_shift) % 12:
                            ok, why = False, "result lies %s semitones from the input (mod 12), theory says %+d" % (rel, want_shift)
                            break
                    ctx.check(ok, R, "from_shorthand[%s,%s,%s]" % (L, sh, "up" if up else "down"), fi.where(),
                              "from_shorthand(%s.., %r, up=%s)" % (L, sh, up), why)


def rule_invert(ctx, mod, R="R-C03-7"):
    fi = mod.func("invert")
    ctx.touch(fi)
    elems = [Opaque("e0"), Opaque("e1"), Opaque("e2")]
    arg = list(elems)
    paths = paths_of(ctx.repo, fi, lambda: [arg])
    ok, why = len(paths) == 1 and paths[0].kind == "return", "no single return"
    if ok:
        res = paths[0].value
        if not isinstance(res, list) or [id(x) for x in res] != [id(x) for x in reversed(elems)]:
            ok, why = False, "result %r is not the reversed list" % (res,)
        elif res is arg:
            ok, why = False, "result aliases the argument"
        elif [id(x) for x in arg] != [id(x) for x in elems]:
            ok, why = False, "the argument is left modified: %r" % (arg,)
    ctx.check(ok, R, "invert", fi.where(), "invert(interval)", why)
