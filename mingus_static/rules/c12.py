"""C12 -- NoteContainer as a sorted, duplicate-free set."""
from __future__ import annotations

import ast

from ..engine.absval import Lin, Sym, AbsStr, Opaque, AObj, AClass, AFunc, Token, INF
from ..engine.absint import CannotDecide, Interp, explore, RaiseEx
from ..engine import notesdom as nd
from ..engine.loader import AnalysisError, short
from ..engine.stubs import log_of, recorder, stub, record_class, run_method

PROP = "C12"
EXPLANATION = (
    "Static rules over containers/note_container.py, evaluated on abstract containers holding Note stubs: every path of "
    "add_note that appends is preceded by a membership test of the same note against the same list that failed on "
    "every element (Note equality is pitch equality, C10) and followed by a sort of that list before returning "
    "(writer discipline => sorted and duplicate-free after every add, by induction over the enumerated writers); "
    "the octave-inference decision table; the polymorphic add/remove dispatch tables; the removal truth table over "
    "(name equal, octave given, octave equal); the shorthand constructors (empty first, then add the core module's "
    "result); the pairwise consonance test (every unordered pair exactly once, first failure decides) and the "
    "binding of the four public predicates; the container protocol.")
TRUSTED = ["CPython ast module", "mingus_static abstract evaluator", "C10 (Note ordering is by int()), C02 (pairwise predicates)"]
NOT_DECIDED = "the invariant over arbitrary histories is argued by induction over the checked writers, not explored"

NC, NOTE = "mingus.containers.note_container", "mingus.containers.note"
ALLOWED_WRITERS = {"empty", "add_note", "remove_note", "remove_duplicate_notes", "sort", "__setitem__"}


def note_stub(repo, label, **attrs):
    return stub(repo, NOTE, "Note", name=label, **attrs)


def sym_compare_summaries():
    """Note comparisons decided by forks labelled with the operand names."""
    def mk(op):
        def f(it, args, kwargs, node):
            a, b = args
            if a is b and op in ("eq", "le", "ge"):
                return True
            if a is b:
                return False
            return it.fork("%s(%s,%s)" % (op, getattr(a, "name", a), getattr(b, "name", b)))
        return f
    return {NOTE + ".Note.__eq__": mk("eq"), NOTE + ".Note.__lt__": mk("lt"), NOTE + ".Note.__gt__": mk("gt"),
            NOTE + ".Note.__ne__": lambda it, args, kw, node: not mk("eq")(it, args, kw, node),
            NOTE + ".Note.__le__": mk("le"), NOTE + ".Note.__ge__": mk("ge")}


def pitch_compare_summaries():
    import operator
    ops = {"__eq__": operator.eq, "__ne__": operator.ne, "__lt__": operator.lt, "__gt__": operator.gt,
           "__le__": operator.le, "__ge__": operator.ge}
    out = {}
    for k, fn in ops.items():
        def f(it, args, kwargs, node, fn=fn):
            a, b = args
            if b is None:
                return k_default(fn)
            if not isinstance(b, AObj):
                # the stubs carry only a pitch: what Note.__eq__ does with a text is for the real code to say
                raise CannotDecide("stub note compared with %r" % (b,))
            return fn(a.attrs["pitch"], b.attrs["pitch"])
        out[NOTE + ".Note." + k] = f
    return out


def k_default(fn):
    return False


def run(ctx):
    repo = ctx.repo
    mod = repo.mod(NC)
    ci = mod.cls("NoteContainer")
    ctx.touch(mod)
    for m in ci.methods.values():
        ctx.touch(m)
    rule_writers(ctx, ci)
    rule_add_note(ctx, ci)
    rule_octave_inference(ctx, ci)
    rule_voicing(ctx, ci)
    rule_dispatch(ctx, ci)
    rule_remove(ctx, ci)
    rule_constructors(ctx, ci)
    rule_consonance(ctx, ci)
    rule_protocol(ctx, ci)
    ctx.floor("R-C12-1", 4)
    ctx.floor("R-C12-2", 3)
    ctx.floor("R-C12-3", 8)
    ctx.floor("R-C12-4", 3)
    ctx.floor("R-C12-5", 6)
    ctx.floor("R-C12-6", 4)


def rule_writers(ctx, ci):
    R = "R-C12-1"
    writers = set()
    for mname, m in ci.methods.items():
        for n in ast.walk(m.node):
            if isinstance(n, (ast.Assign, ast.AugAssign)):
                tg = n.targets if isinstance(n, ast.Assign) else [n.target]
                for t in tg:
                    for x in ast.walk(t):
                        if isinstance(x, ast.Attribute) and x.attr == "notes" and isinstance(x.value, ast.Name) and x.value.id == "self":
                            writers.add(mname)
            if isinstance(n, ast.Call) and isinstance(n.func, ast.Attribute) and isinstance(n.func.value, ast.Attribute) \
                    and n.func.value.attr == "notes" and isinstance(n.func.value.value, ast.Name) and n.func.value.value.id == "self" \
                    and n.func.attr in ("append", "extend", "insert", "remove", "pop", "sort", "reverse", "clear"):
                writers.add(mname)
    extra = writers - ALLOWED_WRITERS
    ctx.check(not extra, R, "writers", ci.module.where(ci.node), "writers of NoteContainer.notes",
              "self.notes is also written by %s; only %s are known to keep it sorted and unique" % (sorted(extra), sorted(ALLOWED_WRITERS)))


def rule_add_note(ctx, ci):
    R = "R-C12-1"
    repo = ctx.repo
    fi = repo.find_method(ci, "add_note")
    for n_existing in (0, 2):
        def mk():
            ex = [note_stub(repo, "n%d" % i, pitch=Lin.of(Sym("pitch_n%d" % i, 0, 127))) for i in range(n_existing)]
            new = note_stub(repo, "new", pitch=Lin.of(Sym("pitch_new", 0, 127)))
            lst = list(ex)
            c = AObj(ci, {"notes": lst}, name="container")
            return [c, new]
        try:
            summ_ = sym_compare_summaries()
            summ_[NOTE + ".Note.__int__"] = lambda it, a, k, n: a[0].attrs["pitch"]
            paths = run_method(repo, fi, mk, summaries=summ_)
        except CannotDecide as e:
            raise AnalysisError("add_note: %s" % e)
        ok, why = bool(paths), "no outcome"
        appended_seen = False
        for p in paths:
            c, new = p.interp.args
            lst = c.attrs["notes"]
            if p.kind != "return":
                ok, why = False, "%s %r" % (p.kind, p.value)
                break
            eqs = [(lab, v) for lab, v in p.trace if lab.startswith("eq(")]
            present = [x for x in lst if x is new]
            if len(present) > 1:
                ok, why = False, "the note is stored twice"
                break
            if present:
                appended_seen = True
                tested = {lab for lab, v in eqs if v is False}
                if len(tested) < n_existing or any(v for lab, v in eqs):
                    ok, why = False, "the note is appended although it was not compared unequal to every note already present (%s)" % (eqs,)
                    break
                if n_existing and id(lst) not in p.interp.sorted_ids:
                    ok, why = False, "after appending, the list is not sorted again before the method returns"
                    break
                keys = p.interp.sort_keys.get(id(lst))
                if keys is not None:
                    pitches = [x.attrs.get("pitch") for x in lst]
                    if not all(Lin.of(k) is not None and not isinstance(k, (str, tuple)) and Lin.of(k) == Lin.of(pt) for k, pt in zip(keys, pitches)):
                        ok, why = False, "the list is sorted with a key (%s) that is not the notes' pitch number: enharmonic spellings such as Cb / B# end up out of order" % (keys[:2],)
                        break
            else:
                if not any(v for lab, v in eqs) and n_existing:
                    ok, why = False, "the note is dropped although it equals none of the notes present"
                    break
                if len(lst) != n_existing:
                    ok, why = False, "list length changed to %d without storing the note" % len(lst)
                    break
            if p.value is not lst:
                ok, why = False, "does not return the container's note list"
                break
        if ok and not appended_seen:
            ok, why = False, "no path stores the note"
        ctx.check(ok, R, "add_note[%d present]" % n_existing, fi.where(), "add_note(<Note>) with %d notes present" % n_existing, why)
    # non-note objects are rejected
    paths = run_method(repo, fi, lambda: [AObj(ci, {"notes": []}, name="c"), 3.5])
    ok = bool(paths) and all(p.kind == "raise" and p.value == "UnexpectedObjectError" for p in paths)
    ctx.check(ok, R, "add_note.rejects", fi.where(), "add_note(3.5)", "a non-note object gives %s" % [(p.kind, p.value) for p in paths])


def rule_octave_inference(ctx, ci):
    R = "R-C12-2"
    repo = ctx.repo
    fi = repo.find_method(ci, "add_note")
    nci = repo.mod(NOTE).cls("Note")

    def ctor(it, args, kwargs, node):
        o = AObj(nci, {"name": args[0], "octave": args[1] if len(args) > 1 else kwargs.get("octave", 4),
                       "dyn": args[2] if len(args) > 2 else kwargs.get("dynamics")}, name="made")
        log_of(it).append(("Note()", list(args), dict(kwargs), o))
        return o
    summ = dict(sym_compare_summaries())
    summ[NOTE + ".Note"] = ctor
    top_oct = Sym("top_octave", 0, INF)
    cases = {
        "empty": (lambda: [AObj(ci, {"notes": []}, name="c"), "E"], None),
        "explicit": (lambda: [AObj(ci, {"notes": [note_stub(repo, "top", octave=Lin.of(top_oct))]}, name="c"), "E", 7], None),
    }
    for label, (mk, _) in cases.items():
        try:
            paths = run_method(repo, fi, mk, summaries=summ)
        except CannotDecide as e:
            raise AnalysisError("add_note(str) [%s]: %s" % (label, e))
        ok, why = bool(paths), "no outcome"
        for p in paths:
            c = p.interp.args[0]
            made = [e for e in log_of(p.interp) if e[0] == "Note()"]
            stored = [x for x in c.attrs["notes"] if getattr(x, "name", "") == "made"]
            if p.kind != "return" or len(stored) > 1:
                ok, why = False, "%s %r, stored %d new notes" % (p.kind, p.value, len(stored))
                break
            if not stored:
                continue  # duplicate of an existing pitch
            octv = stored[0].attrs["octave"]
            if label == "empty" and octv != 4:
                ok, why = False, "first note gets octave %r instead of 4" % (octv,)
            elif label == "explicit" and octv != 7:
                ok, why = False, "explicit octave 7 stored as %r" % (octv,)
            if stored[0].attrs["name"] != "E":
                ok, why = False, "name stored as %r" % (stored[0].attrs["name"],)
            if not ok:
                break
        ctx.check(ok, R, "octave[%s]" % label, fi.where(), "add_note('E') [%s]" % label, why)


def rule_voicing(ctx, ci):
    """Bare names are voiced upward: with P(name) = natural + sharps - flats (not reduced: B# is 12, Cb is -1) and the
    pitch number 12*octave + P(name), a bare name added to a non-empty container lands at or above the top note and
    less than an octave above it.  P of both names and the top octave are symbolic (names up to double accidentals:
    P in -2..13), the comparison operators are the real ones."""
    R = "R-C12-2"
    repo = ctx.repo
    fi = repo.find_method(ci, "add_note")
    nci = repo.mod(NOTE).cls("Note")
    top_oct = Sym("top_octave", 1, INF)
    p_top, p_new = Sym("P(top name)", -2, 13), Sym("P(new name)", -2, 13)
    new_name = "N"  # a bare name; its pitch P(new name) is the symbol above

    def ctor(it, args, kwargs, node):
        oc = Lin.of(args[1] if len(args) > 1 else kwargs.get("octave", 4))
        if args[0] != new_name or oc is None:
            raise CannotDecide("Note(%r, %r)" % (args[0], args[1:] ))
        return AObj(nci, {"name": args[0], "octave": oc, "pitch": oc.scale(12) + Lin.of(p_new)}, name="made")
    summ = {NOTE + ".Note": ctor, NOTE + ".Note.__int__": lambda it, a, k, n: a[0].attrs["pitch"]}

    def mk():
        low = AObj(nci, {"name": Token("low name"), "octave": 0, "pitch": Lin.of(Sym("low pitch", 0, 9))}, name="low")
        top = AObj(nci, {"name": Token("top name"), "octave": Lin.of(top_oct), "pitch": Lin.of(top_oct).scale(12) + Lin.of(p_top)}, name="top")
        return [AObj(ci, {"notes": [low, top]}, name="c"), new_name]
    try:
        paths = run_method(repo, fi, mk, summaries=summ, kwargs={})
    except CannotDecide as e:
        raise AnalysisError("add_note(<bare name>) voicing: %s" % e)
    ok, why, stored_paths = bool(paths), "no outcome", 0
    for p in paths:
        c = p.interp.args[0]
        stored = [x for x in c.attrs["notes"] if getattr(x, "name", "") == "made"]
        if p.kind != "return" or len(stored) > 1:
            ok, why = False, "%s %r, stored %d new notes" % (p.kind, p.value, len(stored))
            break
        if not stored:
            continue  # equal in pitch to a stored note: not added
        stored_paths += 1
        top = [x for x in c.attrs["notes"] if getattr(x, "name", "") == "top"][0]
        d = p.interp.resolve(Lin.of(stored[0].attrs["pitch"]) - Lin.of(top.attrs["pitch"]))
        lo, hi = p.interp.lin_interval(d)
        if lo < 0 or hi > 11:
            plo, phi = p.interp.lin_interval(Lin.of(p_new) - Lin.of(p_top))
            ok, why = False, ("a bare name whose own pitch differs from the top note's by %s..%s (e.g. %s) is voiced %s..%s semitones above the top note: "
                              "it must land at or above it and less than an octave above" % (
                                  plo, phi, "B# after C" if phi >= 12 else "Cb after B#" if plo < -12 else "a wrapping spelling", lo, hi))
            break
    if ok and stored_paths < 1:
        ok, why = False, "the bare name is never stored"
    ctx.check(ok, R, "voicing", fi.where(), "add_note(<bare name>) on a non-empty container", why)


def rule_dispatch(ctx, ci):
    """Every accepted form of argument ends up as the notes it denotes: add_notes / '+' and remove_notes / '-' are run on
    the real Note / NoteContainer code and judged by the container's content afterwards (not by which helper was called
    with which arguments)."""
    R = "R-C12-3"
    repo = ctx.repo
    noteci = repo.mod(NOTE).cls("Note")

    def new(it, c, *args, **kw):
        return it.call(AClass(c), list(args), dict(kw), None)

    V = 64  # the default velocity (a class attribute: a note that was never given one has no entry of its own)

    def content(c):
        return [(n.attrs.get("name"), n.attrs.get("octave"), n.attrs.get("velocity", V)) for n in c.attrs["notes"]]
    forms = [
        ("container", lambda it: new(it, ci, [new(it, noteci, "D", 4), new(it, noteci, "F", 4)]), [("D", 4, V), ("F", 4, V)]),
        ("note", lambda it: new(it, noteci, "D", 4), [("D", 4, V)]),
        ("string", lambda it: "C", [("C", 4, V)]),
        ("list-of-notes", lambda it: [new(it, noteci, "D", 4), new(it, noteci, "F", 4)], [("D", 4, V), ("F", 4, V)]),
        ("list-of-strings", lambda it: ["C", "E"], [("C", 4, V), ("E", 4, V)]),
        ("pairs", lambda it: [["C", 5], ["E", 6]], [("C", 5, V), ("E", 6, V)]),
        ("triples", lambda it: [["C", 5, {"velocity": 20}]], [("C", 5, 20)]),
        ("mixed", lambda it: [new(it, noteci, "D", 4), ["G", 3], "B"], [("G", 3, V), ("D", 4, V), ("B", 4, V)]),
    ]
    for mname in ("add_notes", "__add__"):
        fa = repo.find_method(ci, mname)
        for label, mk, want in forms:
            def go(it, mk=mk, mname=mname):
                c = new(it, ci)
                arg = mk(it)
                r = it.call_method(c, mname, [arg], {}, None)
                shared = [n for n in c.attrs["notes"] if isinstance(arg, AObj) and arg.cls is ci and any(n is m_ for m_ in arg.attrs["notes"])]
                return c, r, shared
            try:
                ps = explore(lambda ch: Interp(repo, ch, max_depth=40), go)
            except CannotDecide as e:
                raise AnalysisError("%s(<%s>): %s" % (mname, label, e))
            ok, why = len(ps) == 1 and ps[0].kind == "return", "outcome %s" % [(p.kind, short(repr(p.value), 60)) for p in ps]
            if ok:
                c, r, shared = ps[0].value
                if content(c) != want:
                    ok, why = False, "the container holds %s, the argument denotes %s" % (content(c), want)
                elif mname == "__add__" and r is not c:
                    ok, why = False, "'+' returns %r, not the container" % (r,)
                elif shared:
                    ok, why = False, "the container holds the other container's own Note objects"
            ctx.check(ok, R, "%s[%s]" % (mname, label), fa.where(), "NoteContainer().%s(<%s>)" % (mname, label), why)
    held = [("C", 4), ("D", 4), ("E", 4)]
    rforms = [("string", lambda it: "C", [("D", 4), ("E", 4)]), ("note", lambda it: new(it, noteci, "D", 4), [("C", 4), ("E", 4)]),
              ("list", lambda it: ["C", new(it, noteci, "D", 4)], [("E", 4)]), ("nothing held", lambda it: ["G", "A-2"], held)]
    for mname in ("remove_notes", "__sub__"):
        fr = repo.find_method(ci, mname)
        for label, mk, want in rforms:
            def go(it, mk=mk, mname=mname):
                c = new(it, ci, [new(it, noteci, n, o) for n, o in held])
                r = it.call_method(c, mname, [mk(it)], {}, None)
                return c, r
            try:
                ps = explore(lambda ch: Interp(repo, ch, max_depth=40), go)
            except CannotDecide as e:
                raise AnalysisError("%s(<%s>): %s" % (mname, label, e))
            ok, why = len(ps) == 1 and ps[0].kind == "return", "outcome %s" % [(p.kind, short(repr(p.value), 60)) for p in ps]
            if ok:
                c, r = ps[0].value
                got = [(x, y) for x, y, _ in content(c)]
                if got != want:
                    ok, why = False, "the container holds %s, expected %s" % (got, want)
                elif mname == "__sub__" and r is not c:
                    ok, why = False, "'-' returns %r, not the container" % (r,)
            ctx.check(ok, R, "%s[%s]" % (mname, label), fr.where(), "NoteContainer(C-4, D-4, E-4).%s(<%s>)" % (mname, label), why)


def rule_remove(ctx, ci):
    R = "R-C12-3"
    repo = ctx.repo
    fi = repo.find_method(ci, "remove_note")
    spec = [("C", 4, 48), ("C", 5, 60), ("E", 4, 52), ("G", 4, 55), ("Fb", 4, 52), ("C#", 4, 49), ("Eb", 5, 63)]
    queries = [("C", None), ("C", 4), ("C", 6), ("D", None), ("Fb", 4), ("E", 5), ("E", None), ("C#", None)]

    def build():
        ns = [note_stub(repo, "%s-%d" % (n, o), name_=n, pitch=p) for n, o, p in spec]
        for x, (n, o, p) in zip(ns, spec):
            x.attrs["name"] = n
            x.attrs["octave"] = o
        return ns
    for qn, qo in queries:
        def mk():
            ns = build()
            return [AObj(ci, {"notes": ns}, name="c"), qn] + ([qo] if qo is not None else [])
        paths = run_method(repo, fi, mk, summaries=pitch_compare_summaries())
        want = [(n, o) for n, o, p in spec if n != qn or (qo is not None and o != qo)]
        ok = len(paths) == 1 and paths[0].kind == "return"
        got = None
        if ok:
            c = paths[0].interp.args[0]
            got = [(x.attrs["name"], x.attrs["octave"]) for x in c.attrs["notes"]]
            ok = got == want
        ctx.check(ok, R, "remove_note[%s,%s]" % (qn, qo), fi.where(), "remove_note(%r%s)" % (qn, "" if qo is None else ", %d" % qo),
                  "leaves %s, the set model predicts %s" % (got, want))
    # by Note object: pitch equality
    for qp in (52, 61):
        def mk2():
            ns = build()
            return [AObj(ci, {"notes": ns}, name="c"), note_stub(repo, "query", pitch=qp)]
        paths = run_method(repo, fi, mk2, summaries=pitch_compare_summaries())
        want = [(n, o) for n, o, p in spec if p != qp]
        ok = len(paths) == 1 and paths[0].kind == "return"
        got = None
        if ok:
            got = [(x.attrs["name"], x.attrs["octave"]) for x in paths[0].interp.args[0].attrs["notes"]]
            ok = got == want
        ctx.check(ok, R, "remove_note[Note pitch %d]" % qp, fi.where(), "remove_note(<Note>)", "leaves %s, expected %s" % (got, want))
    # removal of a whole container: another one with the same notes, a sub-container, and the container itself ('c - c')
    frs = repo.find_method(ci, "remove_notes")
    for label in ("equal container", "sub-container", "itself"):
        def mk4(label=label):
            ns = build()
            c = AObj(ci, {"notes": ns}, name="c")
            if label == "itself":
                return [c, c]
            other = build() if label == "equal container" else build()[1:4]
            return [c, AObj(ci, {"notes": other}, name="other")]
        try:
            paths = run_method(repo, frs, mk4, summaries=pitch_compare_summaries())
        except CannotDecide as e:
            raise AnalysisError("remove_notes(<%s>): %s" % (label, e))
        gone = {p_ for n, o, p_ in (spec if label != "sub-container" else spec[1:4])}
        want = [(n, o) for n, o, p_ in spec if p_ not in gone]
        ok = len(paths) == 1 and paths[0].kind == "return"
        got = None
        if ok:
            got = [(x.attrs["name"], x.attrs["octave"]) for x in paths[0].interp.args[0].attrs["notes"]]
            ok = got == want
        ctx.check(ok, R, "remove_notes[%s]" % label, frs.where(), "remove_notes(<%s>)" % label,
                  "leaves %s, the set model predicts %s%s" % (got, want, " (the operand is walked while it shrinks)" if label == "itself" else ""))
    # removal by the text forms add_note accepts, on real notes (no comparison summaries): a bare name, a name carrying its octave
    noteci = repo.mod(NOTE).cls("Note")
    real = [("C", 4), ("E", 4), ("G", 4), ("C", 5), ("Eb", 5)]

    def real_notes():
        return [AObj(noteci, {"name": n, "octave": o, "velocity": 64, "channel": 1}, name="%s-%d" % (n, o)) for n, o in real]
    for fn_name, operand, want in (("remove_note", "C-4", [x for x in real if x != ("C", 4)]), ("remove_note", "C", [x for x in real if x[0] != "C"]),
                                   ("remove_note", "Eb-5", real[:4]), ("remove_note", "D-4", real), ("remove_note", "C-6", real),
                                   ("remove_notes", "C-5", [x for x in real if x != ("C", 5)]), ("remove_notes", ["C-4", "E-4"], real[2:]),
                                   ("__sub__", "C-4", [x for x in real if x != ("C", 4)])):
        fx = repo.find_method(ci, fn_name)
        try:
            paths = run_method(repo, fx, lambda operand=operand: [AObj(ci, {"notes": real_notes()}, name="c"), list(operand) if isinstance(operand, list) else operand])
        except CannotDecide as e:
            raise AnalysisError("%s(%r): %s" % (fn_name, operand, e))
        ok = len(paths) == 1 and paths[0].kind == "return"
        got = [(p.kind, short(repr(p.value), 60)) for p in paths]
        if ok:
            got = [(x.attrs["name"], x.attrs["octave"]) for x in paths[0].interp.args[0].attrs["notes"]]
            ok = got == want
        ctx.check(ok, R, "%s[text %r]" % (fn_name, operand), fx.where(), "%s(%r) on %s" % (fn_name, operand, ["%s-%d" % x for x in real]),
                  "leaves %s, the set model predicts %s" % (got, want))
    # a note may sit in octave -1 (B## voiced just above C-0 does): removing it "with octave" takes that one only
    low = [("B##", -1), ("C", 0), ("B##", 3)]
    for qo, want in ((-1, low[1:]), (3, low[:2]), (None, [low[1]])):
        def mk5(qo=qo):
            ns = [AObj(noteci, {"name": n, "octave": o, "velocity": 64, "channel": 1}, name="%s%d" % (n, o)) for n, o in low]
            return [AObj(ci, {"notes": ns}, name="c"), "B##"] + ([qo] if qo is not None else [])
        try:
            paths = run_method(repo, fi, mk5)
        except CannotDecide as e:
            raise AnalysisError("remove_note('B##', %r): %s" % (qo, e))
        ok = len(paths) == 1 and paths[0].kind == "return"
        got = [(p.kind, short(repr(p.value), 60)) for p in paths]
        if ok:
            got = [(x.attrs["name"], x.attrs["octave"]) for x in paths[0].interp.args[0].attrs["notes"]]
            ok = got == want
        ctx.check(ok, R, "remove_note[B##,%s of octaves -1 and 3]" % (qo,), fi.where(), "remove_note('B##'%s) on B##--1, C-0, B##-3" % ("" if qo is None else ", %d" % qo),
                  "leaves %s, the set model predicts %s" % (got, want))
    # octave 0 is an octave too (not "no octave given")
    zero = [("C", 0), ("E", 0), ("C", 4)]
    for fn_name, operand, extra, want in (("remove_note", "C", [0], zero[1:]), ("remove_note", "C-0", [], zero[1:]), ("remove_notes", ["C-0"], [], zero[1:]),
                                          ("__sub__", "E-0", [], [zero[0], zero[2]]), ("remove_note", "C", [4], zero[:2])):
        fx = repo.find_method(ci, fn_name)
        try:
            paths = run_method(repo, fx, lambda operand=operand, extra=extra: [AObj(ci, {"notes": [AObj(noteci, {"name": n, "octave": o, "velocity": 64, "channel": 1}, name="%s%d" % (n, o)) for n, o in zero]}, name="c"),
                                                                               list(operand) if isinstance(operand, list) else operand] + list(extra))
        except CannotDecide as e:
            raise AnalysisError("%s(%r): %s" % (fn_name, operand, e))
        ok = len(paths) == 1 and paths[0].kind == "return"
        got = [(p.kind, short(repr(p.value), 60)) for p in paths]
        if ok:
            got = [(x.attrs["name"], x.attrs["octave"]) for x in paths[0].interp.args[0].attrs["notes"]]
            ok = got == want
        ctx.check(ok, R, "%s[%r%s in octave 0]" % (fn_name, operand, "".join(", %d" % e for e in extra)), fx.where(), "%s(%r%s) on C-0, E-0, C-4" % (fn_name, operand, "".join(", %d" % e for e in extra)),
                  "leaves %s, the set model predicts %s" % (got, want))
    fd = repo.find_method(ci, "remove_duplicate_notes")

    def mk3():
        return [AObj(ci, {"notes": build()}, name="c")]
    paths = run_method(repo, fd, mk3, summaries=pitch_compare_summaries())
    got = [(x.attrs["name"], x.attrs["octave"]) for x in paths[0].interp.args[0].attrs["notes"]] if len(paths) == 1 and paths[0].kind == "return" else None
    ctx.check(got == [(n, o) for n, o, p in spec[:4] + spec[5:]], R, "remove_duplicate_notes", fd.where(), "remove_duplicate_notes()",
              "leaves %s, expected the first note of each pitch in order" % (got,))


def rule_constructors(ctx, ci):
    R = "R-C12-4"
    repo = ctx.repo
    marker = Opaque("core-result")
    rec = record_class(repo, NC, "NoteContainer", ["empty", "add_notes"], result=None)
    cases = [
        ("from_chord_shorthand", ["Am7"], {"mingus.core.chords.from_shorthand": recorder("chords.from_shorthand", marker)}, ("chords.from_shorthand", ["Am7"])),
        ("from_progression_shorthand", ["VI", "C"], {"mingus.core.progressions.to_chords": recorder("to_chords", [marker])}, ("to_chords", ["VI", "C"])),
    ]
    for mname, args, core, (corekey, coreargs) in cases:
        fi = repo.find_method(ci, mname)
        summ = dict(rec)
        summ.update(core)
        paths = run_method(repo, fi, lambda: [AObj(ci, {"notes": [Opaque("stale")]}, name="c")] + list(args), summaries=summ)
        ok, why = len(paths) == 1 and paths[0].kind == "return", "outcome %s" % [(p.kind, p.value) for p in paths]
        if ok:
            seq = [(e[0], e[1]) for e in log_of(paths[0].interp)]
            keys = [k for k, a in seq]
            if keys[:1] != ["NoteContainer.empty"] or "NoteContainer.add_notes" not in keys or corekey not in keys:
                ok, why = False, "call sequence %s: must empty the container first, then add the core module's result" % keys
            else:
                added = [a[1] for k, a in seq if k == "NoteContainer.add_notes"]
                corecall = [a for k, a in seq if k == corekey][0]
                if added != [marker] or list(corecall) != list(coreargs):
                    ok, why = False, "adds %s from %s(%s)" % (added, corekey, corecall)
                elif paths[0].value is not paths[0].interp.args[0]:
                    ok, why = False, "does not return the container"
        ctx.check(ok, R, mname, fi.where(), "NoteContainer.%s" % mname, why)
    # unknown progression -> False
    fi = repo.find_method(ci, "from_progression_shorthand")
    summ = dict(rec)
    summ["mingus.core.progressions.to_chords"] = recorder("to_chords", [])
    paths = run_method(repo, fi, lambda: [AObj(ci, {"notes": []}, name="c"), "X", "C"], summaries=summ)
    ctx.check(len(paths) == 1 and paths[0].value is False, R, "from_progression_shorthand.unknown", fi.where(),
              "from_progression_shorthand('X')", "an unknown numeral gives %s" % [(p.kind, p.value) for p in paths])
    # interval constructor: start note + transposed copy
    fi = repo.find_method(ci, "from_interval_shorthand")
    nci = repo.mod(NOTE).cls("Note")
    start = note_stub(repo, "start", octave=4, dynamics={})
    start.attrs["name"] = "C"

    def ctor(it, args, kwargs, node):
        o = AObj(nci, {"name": args[0], "octave": args[1] if len(args) > 1 else 4}, name="copy")
        log_of(it).append(("Note()", list(args), {}))
        return o
    summ = dict(rec)
    summ[NOTE + ".Note"] = ctor
    summ.update(record_class(repo, NOTE, "Note", ["transpose"]))
    sh, up = Opaque("shorthand"), Opaque("up")
    paths = run_method(repo, fi, lambda: [AObj(ci, {"notes": []}, name="c"), start, sh, up], summaries=summ)
    ok, why = len(paths) == 1 and paths[0].kind == "return", "outcome %s" % [(p.kind, p.value) for p in paths]
    if ok:
        log = log_of(paths[0].interp)
        tr = [e for e in log if e[0] == "Note.transpose"]
        add = [e for e in log if e[0] == "NoteContainer.add_notes"]
        if len(tr) != 1 or tr[0][1][1] is not sh or tr[0][1][2] is not up or tr[0][1][0] is start:
            ok, why = False, "the copy is not transposed by (shorthand, up), or the start note itself is transposed: %s" % (tr,)
        elif len(add) != 1 or not isinstance(add[0][1][1], list) or add[0][1][1][0] is not start or add[0][1][1][1] is not tr[0][1][0]:
            ok, why = False, "does not add [start note, transposed copy]"
        elif [e[0] for e in log][0] != "NoteContainer.empty":
            ok, why = False, "does not empty the container first"
    ctx.check(ok, R, "from_interval_shorthand", fi.where(), "NoteContainer.from_interval_shorthand", why)
    # ... and with the real Note / interval code: the start note and the note the interval leads to, by pitch
    SIZES = {"1": 0, "b2": 1, "2": 2, "b3": 3, "3": 4, "4": 5, "#4": 6, "5": 7, "b6": 8, "6": 9, "b7": 10, "7": 11, "bb2": 0, "#1": 1}
    bad = []
    for startname, startpitch in (("C", 48), ("B#", 60), ("Cb", 47), ("F#", 54), ("C-2", 24), ("Bb-5", 70)):
        def go(it, startname=startname):
            out = []
            for sh_, size in sorted(SIZES.items()):
                for up_ in (True, False):
                    c = it.call(AClass(ci), [], {}, None)
                    try:
                        r = it.call_method(c, "from_interval_shorthand", [startname, sh_, up_], {}, None)
                        ns = it.getattr(c, "notes")
                        out.append((sh_, up_, "return", [nd.pitch_number(n.attrs.get("name"), n.attrs.get("octave")) for n in ns]))
                    except RaiseEx as r_:
                        out.append((sh_, up_, "raise", r_.exc))
            return out
        try:
            ps = explore(lambda ch: Interp(repo, ch, max_depth=60), go)
        except CannotDecide as e:
            raise AnalysisError("from_interval_shorthand(%r, ..): %s" % (startname, e))
        if len(ps) != 1 or ps[0].kind != "return":
            bad.append((startname, [(p.kind, short(repr(p.value), 60)) for p in ps]))
            continue
        for sh_, up_, kind, v in ps[0].value:
            other = startpitch + SIZES[sh_] if up_ else startpitch - SIZES[sh_]
            want = sorted({startpitch, other})
            if kind != "return" or v != want:
                bad.append(("from_interval_shorthand(%r, %r, %s)" % (startname, sh_, up_), kind, v, "expected the pitches", want))
    # a bare name into an empty container is that name in octave 4, whatever it is called (Cb-4 is 47, B#-4 is 60)
    bad0 = []

    def go0(it):
        out = []
        for name in ("C", "Cb", "Cbb", "B#", "B##", "E#", "Fb", "G"):
            c1 = it.call(AClass(ci), [name], {}, None)
            c2 = it.call(AClass(ci), [], {}, None)
            it.call_method(c2, "add_note", [name], {}, None)
            c3 = it.call(AClass(ci), [["A", "C"]], {}, None)
            it.call_method(c3, "remove_notes", [["A", "C"]], {}, None)
            it.call_method(c3, "add_notes", [[name]], {}, None)
            for label, c in (("NoteContainer(%r)" % name, c1), ("add_note(%r) to an empty container" % name, c2), ("add_notes([%r]) to an emptied container" % name, c3)):
                ns = it.getattr(c, "notes")
                out.append((label, name, [(n.attrs.get("name"), n.attrs.get("octave")) for n in ns]))
        return out
    try:
        ps0 = explore(lambda ch: Interp(repo, ch, max_depth=60), go0)
    except CannotDecide as e:
        raise AnalysisError("a bare name into an empty container: %s" % e)
    if len(ps0) != 1 or ps0[0].kind != "return":
        bad0.append(("outcome", [(p.kind, short(repr(p.value), 80)) for p in ps0]))
    else:
        bad0 = [(label, got) for label, name, got in ps0[0].value if got != [(name, 4)]]
    # names are names: two spellings of one pitch class held in different octaves are two names, and an octave that is
    # given is the octave (0 is an octave)
    def go1(it):
        out = {}
        c = it.call(AClass(ci), [["C#-4", "Db-5"]], {}, None)
        out["names C#-4 Db-5"] = (it.call_method(c, "get_note_names", [], {}, None), it.compare(ast.In, "Db", c), it.compare(ast.In, "C#", c))
        c = it.call(AClass(ci), [["C-4", "B#-4"]], {}, None)
        out["names C-4 B#-4"] = (it.call_method(c, "get_note_names", [], {}, None), it.compare(ast.In, "B#", c), it.compare(ast.In, "C", c))
        c = it.call(AClass(ci), [["E-4", "Fb-5", "E-5"]], {}, None)
        out["names E-4 Fb-5 E-5"] = (it.call_method(c, "get_note_names", [], {}, None), it.compare(ast.In, "Fb", c), it.compare(ast.In, "E", c))
        c = it.call(AClass(ci), [["G-4"]], {}, None)
        it.call_method(c, "add_note", ["C", 0], {}, None)
        out["add_note('C', 0)"] = [(n.attrs.get("name"), n.attrs.get("octave")) for n in it.getattr(c, "notes")]
        c = it.call(AClass(ci), [[["C", 0], ["E", 0]]], {}, None)
        out["[['C', 0], ['E', 0]]"] = [(n.attrs.get("name"), n.attrs.get("octave")) for n in it.getattr(c, "notes")]
        c = it.call(AClass(ci), [["A-4"]], {}, None)
        it.binop(ast.Add, c, [["D", 0]])
        out["+ [['D', 0]]"] = [(n.attrs.get("name"), n.attrs.get("octave")) for n in it.getattr(c, "notes")]
        return out
    try:
        ps1 = explore(lambda ch: Interp(repo, ch, max_depth=60), go1)
    except CannotDecide as e:
        raise AnalysisError("names and given octaves: %s" % e)
    want1 = {"names C#-4 Db-5": (["C#", "Db"], True, True), "names C-4 B#-4": (["C", "B#"], True, True), "names E-4 Fb-5 E-5": (["E", "Fb"], True, True),
             "add_note('C', 0)": [("C", 0), ("G", 4)], "[['C', 0], ['E', 0]]": [("C", 0), ("E", 0)], "+ [['D', 0]]": [("D", 0), ("A", 4)]}
    bad1 = [("outcome", [(p.kind, short(repr(p.value), 80)) for p in ps1])] if len(ps1) != 1 or ps1[0].kind != "return" else \
        [(k, ps1[0].value.get(k), "expected", w) for k, w in want1.items() if (tuple(ps1[0].value.get(k)) if isinstance(w, tuple) else ps1[0].value.get(k)) != w]
    ctx.check(not bad1, R, "names-and-given-octaves", repo.find_method(ci, "get_note_names").where(), "get_note_names / membership with enharmonic spellings in different octaves; octave 0 given to add_note, to a list and to +",
              "%d differ: %s" % (len(bad1), bad1[:3]))
    ctx.check(not bad0, R, "first-note[octave 4]", repo.find_method(ci, "add_note").where(), "a bare name placed in an empty container, 8 names x 3 ways",
              "%d are not the name in octave 4: e.g. %s" % (len(bad0), bad0[:3]))
    ctx.check(not bad, R, "from_interval_shorthand[pitches]", fi.where(), "from_interval_shorthand(start, shorthand, up) for 6 start notes x 14 shorthands x both directions",
              "%d containers do not hold the start note and the note the interval leads to: e.g. %s" % (len(bad), bad[:2]))


def rule_consonance(ctx, ci):
    R = "R-C12-5"
    repo = ctx.repo
    ft = repo.find_method(ci, "_consonance_test")
    names = ["a", "b", "c", "d"]
    for fail_at in (None, 0, 2, 5):
        for param in (None, "FLAG"):
            def mk():
                ns = [note_stub(repo, x) for x in names]
                for x, nm in zip(ns, names):
                    x.attrs["name"] = nm
                calls = []

                class TestFunc:
                    def a_call(self, it, args):
                        pass
                return [AObj(ci, {"notes": ns}, name="c"), _TestFunc(fail_at), param]
            paths = run_method(repo, ft, mk, on_call=_testfunc_call)
            ok, why = len(paths) == 1 and paths[0].kind == "return", "outcome %s" % [(p.kind, p.value) for p in paths]
            if ok:
                tf = paths[0].interp.args[1]
                pairs = [tuple(c[:2]) for c in tf.calls]
                allpairs = [(x, y) for i, x in enumerate(names) for y in names[i + 1:]]
                if fail_at is None:
                    good = sorted(tuple(sorted(p_)) for p_ in pairs) == sorted(allpairs) and paths[0].value is True
                else:
                    good = len(pairs) == fail_at + 1 and len({tuple(sorted(p_)) for p_ in pairs}) == len(pairs) and paths[0].value is False
                extra_ok = all((len(c) == 3 and c[2] is param) if param is not None else len(c) == 2 for c in tf.calls)
                if not good or not extra_ok:
                    ok, why = False, "pairs tested %s -> %r (failing test #%s, param forwarded: %s)" % (pairs, paths[0].value, fail_at, extra_ok)
            ctx.check(ok, R, "_consonance_test[fail=%s,param=%s]" % (fail_at, param is not None), ft.where(), "_consonance_test", why)
    imod = repo.mod("mingus.core.intervals")
    rec = record_class(repo, NC, "NoteContainer", ["_consonance_test"], result=lambda it, a, k: it.fork("pairwise result"))
    for mname, func, flag_mode in (("is_consonant", "is_consonant", "same"), ("is_perfect_consonant", "is_perfect_consonant", "same"),
                                   ("is_imperfect_consonant", "is_imperfect_consonant", "none")):
        fi = repo.find_method(ci, mname)
        flag = Opaque("flag")
        args = [flag] if flag_mode != "none" else []
        paths = run_method(repo, fi, lambda: [AObj(ci, {"notes": []}, name="c")] + args, summaries=rec)
        ok, why = len(paths) == 2, "expected the pairwise result to decide, got %d paths" % len(paths)
        for p in paths if ok else []:
            e = log_of(p.interp)[0]
            fn = e[1][1]
            res = dict(p.trace).get("pairwise result")
            if not isinstance(fn, AFunc) or fn.fi is not imod.func(func) or (flag_mode == "same" and (len(e[1]) < 3 or e[1][2] is not flag)) or p.value is not res:
                ok, why = False, "binds %r with %s and returns %r for a pairwise result of %r" % (fn, e[1][2:], p.value, res)
        ctx.check(ok, R, mname, fi.where(), "NoteContainer.%s" % mname, why)
    # is_dissonant == not is_consonant(not flag)
    fi = repo.find_method(ci, "is_dissonant")
    rec = record_class(repo, NC, "NoteContainer", ["is_consonant"], result=lambda it, a, k: it.fork("consonant"))
    for flag in (True, False):
        paths = run_method(repo, fi, lambda: [AObj(ci, {"notes": []}, name="c"), flag], summaries=rec)
        ok = len(paths) == 2 and all(p.value is (not dict(p.trace)["consonant"]) and log_of(p.interp)[0][1][1:] == [not flag] for p in paths)
        ctx.check(ok, R, "is_dissonant[%s]" % flag, fi.where(), "NoteContainer.is_dissonant(%s)" % flag,
                  "must be the negation of is_consonant with the inverted flag: %s" % [(p.trace, p.value) for p in paths])


class _TestFunc:
    def __init__(self, fail_at):
        self.fail_at = fail_at
        self.calls = []


def _testfunc_call(it, fn, args, kwargs, node):
    if isinstance(fn, _TestFunc):
        fn.calls.append(list(args))
        return not (fn.fail_at is not None and len(fn.calls) - 1 == fn.fail_at)
    return NotImplemented


def rule_protocol(ctx, ci):
    R = "R-C12-6"
    repo = ctx.repo
    ns = lambda: [note_stub(repo, "a", pitch=1), note_stub(repo, "b", pitch=2), note_stub(repo, "c", pitch=3)]
    pc = pitch_compare_summaries()
    f = repo.find_method(ci, "__len__")
    paths = run_method(repo, f, lambda: [AObj(ci, {"notes": ns()}, name="c")])
    ctx.check(len(paths) == 1 and paths[0].value == 3, R, "__len__", f.where(), "len(container)", "len gives %s" % [(p.kind, p.value) for p in paths])
    f = repo.find_method(ci, "__getitem__")
    paths = run_method(repo, f, lambda: [AObj(ci, {"notes": ns()}, name="c"), 1])
    ok = len(paths) == 1 and paths[0].value is paths[0].interp.args[0].attrs["notes"][1]
    ctx.check(ok, R, "__getitem__", f.where(), "container[1]", "indexing gives %s" % [(p.kind, p.value) for p in paths])
    f = repo.find_method(ci, "__contains__")
    for pitch, want in ((2, True), (7, False)):
        paths = run_method(repo, f, lambda: [AObj(ci, {"notes": ns()}, name="c"), note_stub(repo, "q", pitch=pitch)], summaries=pc)
        ctx.check(len(paths) == 1 and paths[0].value is want, R, "__contains__[%s]" % want, f.where(), "note in container",
                  "membership of an equal-pitch note gives %s, expected %s" % ([(p.kind, p.value) for p in paths], want))
    noteci = repo.mod(NOTE).cls("Note")
    real = [("C", 4), ("E", 4), ("C", 5), ("Eb", 5)]
    for held in (real, []):
        for q in ("C", "D", "Eb", "E", "C-4", "C-5", "C-6", "D-4", AObj(noteci, {"name": "E", "octave": 4, "velocity": 64, "channel": 1}, name="q"),
                  AObj(noteci, {"name": "F", "octave": 4, "velocity": 64, "channel": 1}, name="q")):
            if isinstance(q, AObj):
                want = (q.attrs["name"], q.attrs["octave"]) in held
            elif "-" in q:
                want = (q.split("-")[0], int(q.split("-")[1])) in held
            else:
                want = q in [n for n, o in held]
            try:
                paths = run_method(repo, f, lambda: [AObj(ci, {"notes": [AObj(noteci, {"name": n, "octave": o, "velocity": 64, "channel": 1}, name="%s-%d" % (n, o)) for n, o in held]}, name="c"), q])
            except CannotDecide as e:
                raise AnalysisError("%r in container: %s" % (q, e))
            ql = q if isinstance(q, str) else "Note %s-%d" % (q.attrs["name"], q.attrs["octave"])
            ctx.check(len(paths) == 1 and paths[0].kind == "return" and paths[0].value is want, R, "__contains__[%s in %d notes]" % (ql, len(held)), f.where(),
                      "%r in container of %s" % (ql, ["%s-%d" % x for x in held]),
                      "membership gives %s, the content says %s" % ([(p.kind, short(repr(p.value), 60)) for p in paths], want))
    f = repo.find_method(ci, "__eq__")
    for other_pitches, want in (([3, 2, 1], True), ([1, 2], False), ([1, 2, 4], False)):
        def mk():
            other = AObj(ci, {"notes": [note_stub(repo, "o%d" % p, pitch=p) for p in other_pitches]}, name="other")
            return [AObj(ci, {"notes": ns()}, name="c"), other]
        try:
            paths = run_method(repo, f, mk, summaries=pc)
        except CannotDecide as e:
            raise AnalysisError("NoteContainer.__eq__: %s" % e)
        ctx.check(len(paths) == 1 and paths[0].value is want, R, "__eq__%s" % other_pitches, f.where(), "container == other",
                  "equality with pitches %s gives %s, expected %s" % (other_pitches, [(p.kind, p.value) for p in paths], want))
    f = repo.find_method(ci, "get_note_names")

    def mk2():
        xs = ns()
        for x, nm in zip(xs, ["C", "E", "C"]):
            x.attrs["name"] = nm
        return [AObj(ci, {"notes": xs}, name="c")]
    paths = run_method(repo, f, mk2)
    ctx.check(len(paths) == 1 and paths[0].value == ["C", "E"], R, "get_note_names", f.where(), "get_note_names()", "unique names: %s" % [(p.kind, p.value) for p in paths])
