"""C19 -- notation exports (mingus/extra/lilypond.py, mingus/extra/musicxml.py)."""
from __future__ import annotations

import ast
import re
from fractions import Fraction

from ..engine.absval import Lin, Sym, AbsStr, Rep, Run, MappedRun, Token, Opaque, AObj, AClass, INF
from ..engine.absint import CannotDecide, Interp, explore, RaiseEx
from ..engine.loader import AnalysisError, short
from ..engine import notesdom as nd
from ..engine import domdom as dd
from ..engine.stubs import log_of, recorder, stub, record_class, run_method

PROP = "C19"
EXPLANATION = (
    "Static rules over the exporters. LilyPond: from_Note is evaluated on letter x symbolic accidental run x symbolic "
    "octave (fold summary: '#' -> is, 'b' -> es in order; count-down summaries: octave-3 primes / 3-octave commas); "
    "from_NoteContainer / from_Bar / from_Track / from_Composition are evaluated on shapes (rest, note, chord; base "
    "values incl. longa/breve, dots, tuplets; key and meter changes) with note rendering summarised, and the produced "
    "text is parsed by an independent reader of the LilyPond subset and compared with the music. MusicXML: the "
    "builders are evaluated over an abstract DOM with faithful appendChild semantics (a node has one parent; "
    "re-appending moves it), the resulting tree is decoded (step / alter / octave, chord marks on every chord note "
    "after the first, dot count, tuplet ratio, duration / divisions == length in quarter notes as exact fractions, "
    "meter, fifths, mode, part ids, measure numbers) and every re-appended element is reported; user strings must "
    "enter only as text nodes / attributes.")
TRUSTED = ["CPython ast module", "mingus_static abstract evaluator + abstract DOM (engine/domdom.py)", "C09 (value.determine)",
           "independent LilyPond-subset reader and MusicXML decoder in rules/c19.py"]
NOT_DECIDED = ("well-formedness of the serialised XML text (delegated to xml.dom.minidom) and XML unescaping of titles; longa/breve in MusicXML; "
               "shapes beyond one bar of five entries and three bars per track are covered by the per-entry argument")

LY, MX, NOTE, NC, BAR, TR, COMP, KEYS, INS = ("mingus.extra.lilypond", "mingus.extra.musicxml", "mingus.containers.note",
                                              "mingus.containers.note_container", "mingus.containers.bar", "mingus.containers.track",
                                              "mingus.containers.composition", "mingus.core.keys", "mingus.containers.instrument")


def run(ctx):
    repo = ctx.repo
    ctx.touch(repo.mod(LY), repo.mod(MX))
    for m in list(repo.mod(LY).functions.values()) + list(repo.mod(MX).functions.values()):
        ctx.touch(m)
    rule_ly_note(ctx)
    rule_ly_container(ctx)
    rule_ly_bar(ctx)
    rule_ly_track(ctx)
    rule_xml_note(ctx)
    rule_xml_bar(ctx)
    rule_xml_score(ctx)
    ctx.floor("R-C19-1", 14)
    ctx.floor("R-C19-2", 20)
    ctx.floor("R-C19-3", 5)
    ctx.floor("R-C19-6", 6)


# ================================================================================ LilyPond
def rule_ly_note(ctx):
    R = "R-C19-1"
    repo = ctx.repo
    f = repo.mod(LY).func("from_Note")
    nci = repo.mod(NOTE).cls("Note")
    # the accidentals of a name: any run of sharps, any run of flats, and the two-character names that mix them
    # (LilyPond pitch names are letter + 'is'*k or letter + 'es'*k: what matters is the net alteration)
    kinds = [("sharps", lambda: Run("R", [nd.SHARP])), ("flats", lambda: Run("R", [nd.FLAT])), ("#b", lambda: "#b"), ("b#", lambda: "b#")]
    for L in nd.LETTERS:
      for klabel, mkrun in kinds:
        for standalone in (False, True):
            run = mkrun()
            net = (Lin.of(run.count.get("#", 0)) - Lin.of(run.count.get("b", 0))) if isinstance(run, Run) else Lin.of(run.count("#") - run.count("b"))
            o = Sym("octave", 0, INF)
            note = AObj(nci, {"name": AbsStr([L, run]), "octave": Lin.of(o)}, name="note")
            try:
                paths = run_method(repo, f, [note, True, standalone])
            except CannotDecide as e:
                raise AnalysisError("lilypond.from_Note(%s..): %s" % (L, e))
            ok, why = bool(paths), "no outcome"
            for p in paths:
                lo, hi = p.interp.lin_interval(Lin.of(o))
                v = p.value if not isinstance(p.value, str) else AbsStr([p.value])
                if p.kind != "return" or not isinstance(v, AbsStr):
                    ok, why = False, "%s %r" % (p.kind, p.value)
                    break
                atoms = list(p.interp.norm_str(v).atoms)
                if standalone:
                    if not (isinstance(atoms[0], str) and atoms[0].startswith("{") and isinstance(atoms[-1], str) and atoms[-1].rstrip().endswith("}")):
                        ok, why = False, "standalone form %r is not wrapped in braces" % (v,)
                        break
                    atoms[0] = atoms[0][1:].lstrip()
                    atoms[-1] = atoms[-1].rstrip()[:-1].rstrip()
                    atoms = [a for a in atoms if a != ""]
                if not atoms or not (isinstance(atoms[0], str) and atoms[0][:1] == L.lower()):
                    ok, why = False, "the pitch name %r does not start with the lower-cased letter" % (v,)
                    break
                atoms[0] = atoms[0][1:]
                # decode: 'is' / 'es' units, then octave marks
                n_is, n_es, primes, commas, junk = Lin({}, 0), Lin({}, 0), Lin({}, 0), Lin({}, 0), None
                for a in atoms:
                    if isinstance(a, str):
                        rest = a
                        while rest:
                            if rest.startswith("is"):
                                n_is, rest = n_is + 1, rest[2:]
                            elif rest.startswith("es"):
                                n_es, rest = n_es + 1, rest[2:]
                            elif rest[0] == "'":
                                primes, rest = primes + 1, rest[1:]
                            elif rest[0] == ",":
                                commas, rest = commas + 1, rest[1:]
                            else:
                                junk, rest = a, ""
                    elif isinstance(a, Rep) and a.lit in ("is", "es", "'", ","):
                        if a.lit == "is":
                            n_is = n_is + a.count
                        elif a.lit == "es":
                            n_es = n_es + a.count
                        elif a.lit == "'":
                            primes = primes + a.count
                        else:
                            commas = commas + a.count
                    elif isinstance(a, MappedRun) and a.run is run and a.mapping == {"#": "is", "b": "es"}:
                        n_is, n_es = n_is + Lin.of(run.count.get("#", 0)), n_es + Lin.of(run.count.get("b", 0))
                    else:
                        junk = a
                if junk is not None:
                    ok, why = False, "the text %r has a part %r that is neither 'is'/'es' units nor octave marks" % (v, junk)
                    break
                if not nd.same(p.interp, n_is - n_es, net):
                    ok, why = False, "the name %r carries %s 'is' and %s 'es' units, not the net alteration %s of the accidentals" % (v, n_is, n_es, net)
                    break
                if p.interp.lin_interval(n_is)[1] > 0 and p.interp.lin_interval(n_es)[1] > 0:
                    ok, why = False, "the name %r mixes 'is' and 'es' units (%s and %s): that is not a LilyPond pitch name" % (v, n_is, n_es)
                    break
                want_p = (Lin.of(o) - 3) if lo >= 4 else Lin.of(0)
                want_c = (Lin.of(3) - Lin.of(o)) if hi <= 2 else Lin.of(0)
                if not (lo >= 4 or hi <= 2 or lo == hi == 3):
                    ok, why = False, "octave marks do not depend on the octave (path covers octaves %s..%s)" % (lo, hi)
                    break
                if not nd.same(p.interp, primes, want_p) or not nd.same(p.interp, commas, want_c):
                    ok, why = False, "octave %s..%s gets %s primes and %s commas, expected %s and %s" % (lo, hi, primes, commas, want_p, want_c)
                    break
            ctx.check(ok, R, "from_Note[%s,%s,%s]" % (L, klabel, "standalone" if standalone else "inner"), f.where(), "lilypond.from_Note(%s<%s>, octave)" % (L, klabel), why)
    # octaves ignored on request
    note = AObj(nci, {"name": "F#", "octave": 6}, name="note")
    paths = run_method(repo, f, [note, False, False])
    ctx.check(len(paths) == 1 and paths[0].value == "fis", R, "from_Note.no-octaves", f.where(), "from_Note(F#-6, process_octaves=False)",
              "gives %s" % [(p.kind, p.value) for p in paths])


_DUR = re.compile(r"^(\\longa|\\breve|\d+)(\.*)$")


def parse_ly(text):
    """Independent reader of the LilyPond subset mingus emits -> dict(time, key, entries)."""
    toks = text.replace("{", " { ").replace("}", " } ").replace("<", " < ").replace(">", " > ").split()
    out = {"time": None, "key": None, "entries": []}
    ratio_stack = [(1, 1)]
    i = 0
    depth = 0
    tuplet_depths = []
    while i < len(toks):
        t = toks[i]
        if t == "{":
            depth += 1
        elif t == "}":
            if tuplet_depths and tuplet_depths[-1] == depth:
                tuplet_depths.pop()
                ratio_stack.pop()
            depth -= 1
        elif t == "\\time":
            a, b = toks[i + 1].split("/")
            out["time"] = (int(a), int(b))
            i += 1
        elif t == "\\key":
            out["key"] = (toks[i + 1], toks[i + 2].lstrip("\\"))
            i += 2
        elif t == "\\times":
            a, b = toks[i + 1].split("/")
            ratio_stack.append((int(b), int(a)))  # \times 2/3 = three in the time of two
            if toks[i + 2] != "{":
                raise ValueError("\\times without a group")
            depth += 1
            tuplet_depths.append(depth)
            i += 2
        elif t == "<":
            j = toks.index(">", i)
            members = toks[i + 1:j]
            dur = toks[j + 1] if j + 1 < len(toks) and _DUR.match(toks[j + 1]) else None
            out["entries"].append(("chord", members, dur, ratio_stack[-1]))
            i = j + (1 if dur else 0)
        else:
            m = re.match(r"^(r|note[a-z])((?:\\longa|\\breve|\d+)\.*)?$", t)
            if not m:
                raise ValueError("unexpected token %r in %r" % (t, text))
            out["entries"].append(("rest" if m.group(1) == "r" else "note", [m.group(1)], m.group(2), ratio_stack[-1]))
        i += 1
    if depth != 0:
        raise ValueError("unbalanced braces in %r" % text)
    return out


def dur_fields(d):
    if d is None:
        return None
    m = _DUR.match(d)
    base = {"\\longa": Fraction(1, 4), "\\breve": Fraction(1, 2)}.get(m.group(1)) or Fraction(int(m.group(1)))
    return base, len(m.group(2))


def ly_world(repo):
    """from_Note summarised to a marker naming the note."""
    def from_note(it, args, kwargs, node):
        n = args[0]
        if not isinstance(n, AObj):
            return False
        return "note%s" % chr(97 + n.attrs["idx"]) if "idx" in n.attrs else "notez"
    return {LY + ".from_Note": from_note}


def make_container(repo, idxs):
    nci, noteci = repo.mod(NC).cls("NoteContainer"), repo.mod(NOTE).cls("Note")
    if idxs is None:
        return None
    return AObj(nci, {"notes": [AObj(noteci, {"idx": i, "name": "C", "octave": 4}, name="n%d" % i) for i in idxs]}, name="cont")


VALUES = {  # label -> (value expression evaluated by the module's own constructors, (base, dots, ratio))
    "quarter": (4, (Fraction(4), 0, (1, 1))), "whole": (1, (Fraction(1), 0, (1, 1))), "breve": (0.5, (Fraction(1, 2), 0, (1, 1))),
    "longa": (0.25, (Fraction(1, 4), 0, (1, 1))), "dotted-quarter": (4 / 1.5, (Fraction(4), 1, (1, 1))),
    "double-dotted-half": (2 / 1.75, (Fraction(2), 2, (1, 1))), "triplet-eighth": (12.0, (Fraction(8), 0, (3, 2))),
    "quintuplet-16th": (20.0, (Fraction(16), 0, (5, 4))), "sixteenth": (16, (Fraction(16), 0, (1, 1))),
    "eighth": (8, (Fraction(8), 0, (1, 1))),
    "dotted-breve": (0.5 / 1.5, (Fraction(1, 2), 1, (1, 1))), "double-dotted-longa": (0.25 / 1.75, (Fraction(1, 4), 2, (1, 1))),
    # the value Track.from_chords stores for the last piece of a double-dotted breve split over 7/8 bars (value.subtract
    # twice): ten ulps off dots(4, 2); and subtract(add(dots(16, 2), dots(1)), dots(1))
    "carried-double-dotted-quarter": (2.2857142857142834, (Fraction(4), 2, (1, 1))),
    "round-trip-double-dotted-16th": (9.142857142857125, (Fraction(16), 2, (1, 1))),
}


def rule_ly_container(ctx):
    R = "R-C19-2"
    repo = ctx.repo
    f = repo.mod(LY).func("from_NoteContainer")
    summ = ly_world(repo)
    for clabel, idxs, kind in (("rest", None, "rest"), ("empty", [], "rest"), ("single", [0], "note"), ("chord", [0, 1, 2], "chord")):
        for vlabel, (val, (base, dots, ratio)) in VALUES.items():
            if ratio != (1, 1):
                continue
            paths = run_method(repo, f, lambda: [make_container(repo, idxs), val, False], summaries=summ)
            ok, why = len(paths) == 1 and paths[0].kind == "return" and isinstance(paths[0].value, str), "outcome %s" % [(p.kind, p.value) for p in paths]
            if ok:
                try:
                    parsed = parse_ly(paths[0].value)
                    e = parsed["entries"]
                    want_members = ["r"] if kind == "rest" else ["note%s" % chr(97 + i) for i in idxs]
                    if len(e) != 1 or e[0][0] != kind or e[0][1] != want_members or dur_fields(e[0][2]) != (base, dots):
                        ok, why = False, "%r reads back as %s, expected %s %s with base %s and %d dots" % (paths[0].value, e, kind, want_members, base, dots)
                except ValueError as ex:
                    ok, why = False, str(ex)
            ctx.check(ok, R, "container[%s,%s]" % (clabel, vlabel), f.where(), "lilypond.from_NoteContainer(<%s>, <%s>)" % (clabel, vlabel), why)
    # standalone text of a container is a complete expression: it carries the tuplet ratio too
    for vlabel, (val, (base, dots, ratio)) in VALUES.items():
        paths = run_method(repo, f, lambda: [make_container(repo, [0, 1]), val, True], summaries=summ)
        ok, why = len(paths) == 1 and paths[0].kind == "return" and isinstance(paths[0].value, str), "outcome %s" % [(p.kind, p.value) for p in paths]
        if ok:
            try:
                e = parse_ly(paths[0].value)["entries"]
                if len(e) != 1 or e[0][0] != "chord" or dur_fields(e[0][2]) != (base, dots) or tuple(e[0][3]) != tuple(ratio):
                    ok, why = False, "%r reads back as %s, expected one chord with base %s, %d dots and tuplet ratio %s:%s" % (paths[0].value, e, base, dots, ratio[0], ratio[1])
            except ValueError as ex:
                ok, why = False, str(ex)
        ctx.check(ok, R, "container.standalone[%s]" % vlabel, f.where(), "lilypond.from_NoteContainer(<chord>, <%s>, standalone=True)" % vlabel, why)
    paths = run_method(repo, f, lambda: [make_container(repo, [0]), None, True], summaries=summ)
    ok = len(paths) == 1 and isinstance(paths[0].value, str) and paths[0].value.split() == ["{", "notea", "}"]
    ctx.check(ok, R, "container.standalone", f.where(), "from_NoteContainer(<single>, None, standalone=True)", "gives %s" % [(p.kind, p.value) for p in paths])


def make_bar(repo, entries, key="C", meter=(4, 4)):
    barci, keyci = repo.mod(BAR).cls("Bar"), repo.mod(KEYS).cls("Key")
    k = AObj(keyci, {"key": key, "mode": "minor" if key[0].islower() else "major", "name": "display name", "signature": nd.oracle_key_notes(key)[1]}, name="key")
    lst = [[Token("beat"), VALUES[v][0], make_container(repo, idxs)] for idxs, v in entries]
    return AObj(barci, {"bar": lst, "key": k, "meter": meter}, name="bar")


def rule_ly_bar(ctx):
    R = "R-C19-2"
    repo = ctx.repo
    f = repo.mod(LY).func("from_Bar")
    summ = ly_world(repo)
    shapes = {
        "plain": [([0], "quarter"), (None, "quarter"), ([1, 2], "dotted-quarter"), ([3], "sixteenth")],
        "triplets": [([0], "triplet-eighth"), ([1], "triplet-eighth"), (None, "triplet-eighth"), ([2], "quarter")],
        "mixed-tuplets": [([0], "quarter"), ([1], "triplet-eighth"), ([2], "quintuplet-16th"), ([3, 4], "whole")],
        "long": [([0], "breve"), ([1], "longa"), ([2], "double-dotted-half")],
        "empty": [],
    }
    for label, entries in shapes.items():
        for showkey, showtime in ((True, True), (False, False)):
            paths = run_method(repo, f, lambda: [make_bar(repo, entries, "f#", (6, 8)), showkey, showtime], summaries=summ)
            ok, why = len(paths) == 1 and paths[0].kind == "return" and isinstance(paths[0].value, str), "outcome %s" % [(p.kind, short(repr(p.value), 80)) for p in paths]
            if ok:
                try:
                    parsed = parse_ly(paths[0].value)
                    got = [(k, m, dur_fields(d), r) for k, m, d, r in parsed["entries"]]
                    want = []
                    for idxs, v in entries:
                        base, dots, ratio = VALUES[v][1]
                        kind = "rest" if not idxs else ("note" if len(idxs) == 1 else "chord")
                        want.append((kind, ["r"] if not idxs else ["note%s" % chr(97 + i) for i in idxs], (base, dots), ratio))
                    if got != want:
                        ok, why = False, "%r reads back as %s, the bar holds %s" % (short(paths[0].value, 120), got, want)
                    elif showtime and parsed["time"] != (6, 8) or (not showtime and parsed["time"] is not None):
                        ok, why = False, "time signature shown as %r (showtime=%s, bar in 6/8)" % (parsed["time"], showtime)
                    elif (showkey and parsed["key"] != ("notez", "minor")) or (not showkey and parsed["key"] is not None):
                        ok, why = False, "key shown as %r (showkey=%s)" % (parsed["key"], showkey)
                except ValueError as ex:
                    ok, why = False, str(ex)
            ctx.check(ok, R, "bar[%s,key=%s,time=%s]" % (label, showkey, showtime), f.where(), "lilypond.from_Bar(<%s>)" % label, why)
    # key rendering for all 30 keys (real from_Note)
    for ma, mi in nd.oracle_key_table():
        for key in (ma, mi):
            paths = run_method(repo, f, lambda: [make_bar(repo, [], key), True, False])
            want_tonic = key[0].lower() + key[1:].replace("#", "is").replace("b", "es")
            ok = len(paths) == 1 and isinstance(paths[0].value, str)
            if ok:
                mm = re.search(r"\\key (\S+) \\(\w+)", paths[0].value)
                ok = mm is not None and mm.groups() == (want_tonic, "minor" if key[0].islower() else "major")
            ctx.check(ok, R, "key[%s]" % key, f.where(), "lilypond.from_Bar(<bar in %s>)" % key,
                      "key %r is rendered as %r, expected '\\key %s \\%s'" % (key, paths[0].value if paths else None, want_tonic, "minor" if key[0].islower() else "major"))


def rule_ly_track(ctx):
    R = "R-C19-2"
    repo = ctx.repo
    f = repo.mod(LY).func("from_Track")
    rec = {LY + ".from_Bar": recorder("from_Bar", "BAR")}
    # includes relative keys (C / a, f# / A): same signature, different key -- the mode must still be written
    # ... and bars where key and meter change together (both are written), and where neither does
    keys = ["C", "C", "a", "f#", "f#", "A", "C", "Eb", "Eb", "g", "C"]
    meters = [(4, 4), (3, 4), (3, 4), (3, 4), (4, 4), (4, 4), (4, 4), (6, 8), (6, 8), (2, 2), (4, 4)]

    def mk():
        trci = repo.mod(TR).cls("Track")
        return [AObj(trci, {"bars": [make_bar(repo, [], k, m) for k, m in zip(keys, meters)]}, name="track")]
    paths = run_method(repo, f, mk, summaries=rec)
    ok, why = len(paths) == 1 and paths[0].kind == "return", "outcome %s" % [(p.kind, p.value) for p in paths]
    if ok:
        fb = repo.mod(LY).func("from_Bar")

        def arg(e, name):
            # by position or by keyword, whichever the call used
            i = fb.params.index(name)
            return e[1][i] if i < len(e[1]) else e[2].get(name, ctx.repo.try_const(repo.mod(LY), fb.defaults.get(name)))
        flags = [(arg(e, "showkey"), arg(e, "showtime")) for e in log_of(paths[0].interp)]
        want = []
        lk, lm = "C", (4, 4)
        for k, m in zip(keys, meters):
            want.append((k != lk, m != lm))
            lk, lm = k, m
        if flags != want:
            ok, why = False, "(showkey, showtime) per bar is %s, expected %s (shown exactly when the key / meter differs from the previous bar)" % (flags, want)
    ctx.check(ok, R, "from_Track", f.where(), "lilypond.from_Track(<11 bars>)", why)
    fc = repo.mod(LY).func("from_Composition")
    rec = {LY + ".from_Track": recorder("from_Track", "TRACK")}
    comp = AObj(repo.mod(COMP).cls("Composition"), {"tracks": [Token("t0"), Token("t1")], "title": "My Title", "author": "Some Author", "subtitle": "Op. 1"}, name="comp")
    paths = run_method(repo, fc, [comp], summaries=rec)
    ok = len(paths) == 1 and isinstance(paths[0].value, str)
    if ok:
        v = paths[0].value
        m = re.search(r'title\s*=\s*"([^"]*)"\s*composer\s*=\s*"([^"]*)"\s*opus\s*=\s*"([^"]*)"', v)
        ok = m is not None and m.groups() == ("My Title", "Some Author", "Op. 1") and v.count("TRACK") == 2 and v.startswith("\\header")
    ctx.check(ok, R, "from_Composition", fc.where(), "lilypond.from_Composition", "header must carry title, author (composer) and subtitle (opus), then every track: %s" % [(p.kind, p.value) for p in paths])
    # strings with LilyPond's own markup characters must still decode to themselves (a LilyPond string ends at the
    # first unescaped double quote; a backslash starts an escape)
    def ly_strings(text):
        out, i = [], 0
        while True:
            i = text.find('"', i)
            if i < 0:
                return out
            j, cur = i + 1, []
            while j < len(text) and text[j] != '"':
                if text[j] == "\\" and j + 1 < len(text):
                    cur.append({"n": "\n", "t": "\t"}.get(text[j + 1], text[j + 1]))
                    j += 2
                else:
                    cur.append(text[j])
                    j += 1
            out.append("".join(cur))
            i = j + 1
    for label, title, author, sub in (("quotes", 'Say "hi"', 'A "B" C', 'Op. "1"'), ("backslash", "C:\\new", "a\\b", "x\\")):
        comp2 = AObj(repo.mod(COMP).cls("Composition"), {"tracks": [Token("t0")], "title": title, "author": author, "subtitle": sub}, name="comp")
        paths = run_method(repo, fc, [comp2], summaries=rec)
        ok = len(paths) == 1 and isinstance(paths[0].value, str)
        got = ly_strings(paths[0].value)[:3] if ok else None
        ok = ok and got == [title, author, sub]
        ctx.check(ok, R, "from_Composition.header[%s]" % label, fc.where(), "lilypond.from_Composition(<title with %s>)" % label,
                  "the header strings read back as %r, written %r: a double quote or backslash in a text must be escaped" % (got, [title, author, sub]))


# ================================================================================ MusicXML
def xml_interp(repo, summaries=None):
    def mk(ch):
        it = Interp(repo, ch, summaries=summaries, max_depth=30)
        dd.install(it)
        return it
    return mk


def rule_xml_note(ctx):
    R = "R-C19-6"
    repo = ctx.repo
    f = repo.mod(MX).func("_note2musicxml")
    noteci = repo.mod(NOTE).cls("Note")
    # every letter with every alteration up to two signs (the names that cross the B/C line included: Cb, Cbb, B#, B##)
    cases = [("C", 4), ("Eb", 3), ("F##", 6), ("Abb", 0), ("B#b", 5)]
    cases += [(L + acc, 4) for L in "CDEFGAB" for acc in ("#", "b", "##", "bb") if (L + acc, 4) not in cases] + [("B#", 0), ("Cb", 8)]
    for name, octave in cases:
        n = AObj(noteci, {"name": name, "octave": octave}, name="n")
        p = explore(xml_interp(repo), lambda it: it.call_function(f, [n], {}))
        ok, why = len(p) == 1 and p[0].kind == "return" and isinstance(p[0].value, dd.ANode), "outcome %s" % [(x.kind, x.value) for x in p]
        if ok:
            el = p[0].value
            pitch = el.first("pitch")
            net = name.count("#") - name.count("b")
            got = (el.tag, pitch.textof("step") if pitch else None, pitch.textof("octave") if pitch else None, pitch.textof("alter") if pitch else None)
            want = ("note", name[0], str(octave), str(net) if net else None)
            if got != want:
                ok, why = False, "note %s-%d becomes %s, expected %s" % (name, octave, got, want)
        ctx.check(ok, R, "note[%s-%d]" % (name, octave), f.where(), "_note2musicxml(%s-%d)" % (name, octave), why)
    p = explore(xml_interp(repo), lambda it: it.call_function(f, [None], {}))
    ok = len(p) == 1 and isinstance(p[0].value, dd.ANode) and p[0].value.first("rest") is not None and p[0].value.first("pitch") is None
    ctx.check(ok, R, "note[rest]", f.where(), "_note2musicxml(None)", "a rest must be a <note> with a <rest/> child")


def make_xml_bar(repo, entries, key="Eb", meter=(3, 4), concrete_beats=False):
    barci, keyci, nci, noteci = repo.mod(BAR).cls("Bar"), repo.mod(KEYS).cls("Key"), repo.mod(NC).cls("NoteContainer"), repo.mod(NOTE).cls("Note")
    k = AObj(keyci, {"key": key, "mode": "minor" if key[0].islower() else "major", "name": "display", "signature": nd.oracle_key_notes(key)[1]}, name="key")
    lst = []
    for names, v in entries:
        cont = None if names is None else AObj(nci, {"notes": [AObj(noteci, {"name": nm, "octave": 4}, name=nm) for nm in names]}, name="cont")
        lst.append([float(len(lst)) / 4 if concrete_beats else Token("beat"), VALUES[v][0], cont])
    return AObj(barci, {"bar": lst, "key": k, "meter": meter}, name="bar")


def rule_xml_bar(ctx):
    R = "R-C19-3"
    repo = ctx.repo
    f = repo.mod(MX).func("_bar2musicxml")
    shapes = {
        "chords": [(["C", "E", "G"], "quarter"), (["D"], "quarter"), (["F#", "A"], "quarter")],
        "dots": [(["C"], "dotted-quarter"), (["D"], "double-dotted-half"), (None, "quarter")],
        "tuplets": [(["C"], "triplet-eighth"), (["D", "F"], "triplet-eighth"), (None, "triplet-eighth"), (["E"], "quarter")],
        "rests": [(None, "quarter"), ([], "quarter"), (["C"], "sixteenth")],
        # denominators 3, 2 and 5 of a quarter note: divisions must be a common multiple, not the largest
        "mixed-subdivisions": [(["C"], "triplet-eighth"), (["D"], "eighth"), (["E"], "quintuplet-16th"), (None, "dotted-quarter")],
        "coarse-then-fine": [(["C"], "eighth"), (["D"], "triplet-eighth")],
        "empty": [],
    }
    for label, entries in shapes.items():
        try:
            p = explore(xml_interp(repo), lambda it: it.call_function(f, [make_xml_bar(repo, entries)], {}))
        except CannotDecide as e:
            raise AnalysisError("_bar2musicxml(<%s>): %s" % (label, e))
        ok, why = len(p) == 1 and p[0].kind == "return" and isinstance(p[0].value, dd.ANode), "outcome %s" % [(x.kind, short(repr(x.value), 60)) for x in p]
        if ok:
            it = p[0].interp
            m = p[0].value
            attrs = m.first("attributes")
            moved = [x for x in it.__dict__.get("dom_log", []) if x[0] == "moved"]
            try:
                div = Fraction(str(attrs.textof("divisions")))
            except (ValueError, TypeError, AttributeError):
                div = None
            notes = m.find("note")
            want = []
            for names, v in entries:
                base, dots, ratio = VALUES[v][1]
                qlen = Fraction(4) / base * (2 - Fraction(1, 2 ** dots)) * Fraction(ratio[1], ratio[0])
                members = names if names else [None]
                for i, nm in enumerate(members):
                    want.append((nm, i > 0, dots, ratio, qlen))
            if moved:
                el = moved[0][1]
                ok, why = False, ("the single <%s> element is appended %d times: each appendChild moves it, so only its last position survives "
                                  "(%s)" % (el.tag, el.appended, "only the last chord note is marked" if el.tag == "chord" else "a note with several dots gets one"))
            elif div is None or div <= 0:
                ok, why = False, "divisions is %r" % (attrs.textof("divisions") if attrs else None,)
            elif len(notes) != len(want):
                ok, why = False, "%d note elements for %d notes/rests" % (len(notes), len(want))
            else:
                for el, (nm, in_chord, dots, ratio, qlen) in zip(notes, want):
                    pitch = el.first("pitch")
                    step = pitch.textof("step") if pitch else None
                    if (nm is None) != (el.first("rest") is not None) or (nm is not None and step != nm[0]):
                        ok, why = False, "note element %r does not denote %r" % (step, nm)
                    elif (el.first("chord") is not None) != in_chord:
                        ok, why = False, "chord mark on %r is %s, expected %s (every chord note after the first)" % (nm, el.first("chord") is not None, in_chord)
                    elif len(el.find("dot")) != dots:
                        ok, why = False, "%d dot elements for a value with %d dots" % (len(el.find("dot")), dots)
                    else:
                        tm = el.first("time-modification")
                        got_ratio = (int(tm.textof("actual-notes")), int(tm.textof("normal-notes"))) if tm else (1, 1)
                        try:
                            dur = Fraction(str(el.textof("duration")))
                        except (ValueError, TypeError):
                            dur = None
                        if got_ratio != ratio:
                            ok, why = False, "tuplet ratio %s, expected %s" % (got_ratio, ratio)
                        elif dur is not None and dur.denominator != 1:
                            ok, why = False, "duration %s is not a whole number of divisions" % dur
                        elif dur is None or dur / div != qlen:
                            ok, why = False, ("duration %s / divisions %s = %s quarter notes, the entry lasts %s (dots and tuplet ratio must enter the duration)"
                                              % (dur, div, (dur / div) if dur is not None else None, qlen))
                    if not ok:
                        break
            if ok:
                t = attrs.first("time")
                k = attrs.first("key")
                if (t.textof("beats"), t.textof("beat-type")) != ("3", "4") or k is None or (k.textof("fifths"), k.textof("mode")) != ("-3", "major"):
                    ok, why = False, "meter / key rendered as %s / %s, the bar is 3/4 in Eb major (-3)" % (
                        (t.textof("beats"), t.textof("beat-type")), (k.textof("fifths"), k.textof("mode")) if k else None)
        ctx.check(ok, R, "bar[%s]" % label, f.where(), "_bar2musicxml(<%s>)" % label, why)


def rule_xml_score(ctx):
    R = "R-C19-6"
    repo = ctx.repo
    f = repo.mod(MX).func("_composition2musicxml")
    trci, compci = repo.mod(TR).cls("Track"), repo.mod(COMP).cls("Composition")
    title, author = "Tom & <Jerry>", "A \"B\""

    def go(it):
        mi = AObj(repo.mod(INS).cls("MidiInstrument"), {"name": "Vio<lin", "instrument_nr": 41, "clef": "treble"}, name="mi")
        t0 = AObj(trci, {"bars": [make_xml_bar(repo, [(["C"], "quarter")]), make_xml_bar(repo, [(None, "quarter")]), make_xml_bar(repo, [])], "name": "Lead & Co", "instrument": mi}, name="t0")
        t1 = AObj(trci, {"bars": [make_xml_bar(repo, [(["D"], "quarter")])], "name": "Second", "instrument": None}, name="t1")
        comp = AObj(compci, {"tracks": [t0, t1], "title": title, "author": author}, name="comp")
        return it.call_function(f, [comp], {}), (t0, t1)
    try:
        p = explore(xml_interp(repo), go)
    except CannotDecide as e:
        raise AnalysisError("_composition2musicxml: %s" % e)
    ok, why = len(p) == 1 and p[0].kind == "return", "outcome %s" % [(x.kind, short(repr(x.value), 80)) for x in p]
    if ok:
        score, (t0, t1) = p[0].value
        parts = score.find("part")
        plist = score.first("part-list")
        sparts = plist.find("score-part") if plist else []
        ids_p = [x.attrs.get("id") for x in parts]
        ids_s = [x.attrs.get("id") for x in sparts]
        if score.tag != "score-partwise" or len(parts) != 2 or ids_p != ids_s or len(set(ids_p)) != 2 or any(not i for i in ids_p):
            ok, why = False, "parts %s vs part list %s: one uniquely identified part per track matching the part list" % (ids_p, ids_s)
        else:
            nums = [[m.attrs.get("number") for m in pt.find("measure")] for pt in parts]
            if nums != [["1", "2", "3"], ["1"]]:
                ok, why = False, "measure numbers %s, expected 1..n per part" % (nums,)
            elif score.textof("movement-title") != title or score.first("identification").textof("creator") != author:
                ok, why = False, "title / author are not carried as text nodes unchanged: %r / %r" % (score.textof("movement-title"), score.first("identification").textof("creator"))
            elif [sp.textof("part-name") for sp in sparts] != ["Lead & Co", "Second"]:
                ok, why = False, "part names %s" % [sp.textof("part-name") for sp in sparts]
            else:
                si = sparts[0].first("score-instrument")
                midi = sparts[0].first("midi-instrument")
                if si is None or si.textof("instrument-name") != "Vio<lin" or midi is None or midi.textof("midi-program") != "41":
                    ok, why = False, "instrument name / program are not carried over"
    ctx.check(ok, R, "score", f.where(), "_composition2musicxml(<2 tracks>)", why)
    # tracks that compare equal (a unison doubling, two empty staves) are still separate parts
    def go2(it):
        ts = [AObj(trci, {"bars": [make_xml_bar(repo, [(["D"], "quarter")], concrete_beats=True)], "name": "Voice %d" % i, "instrument": None}, name="t%d" % i) for i in range(3)]
        ts.append(AObj(trci, {"bars": [make_xml_bar(repo, [])], "name": "Empty A", "instrument": None}, name="e0"))
        ts.append(AObj(trci, {"bars": [make_xml_bar(repo, [], key="C", meter=(4, 4))], "name": "Empty B", "instrument": None}, name="e1"))
        ts.append(ts[0])  # the same Track object added twice is still two parts
        comp = AObj(compci, {"tracks": ts, "title": "t", "author": "a"}, name="comp")
        return it.call_function(f, [comp], {})
    try:
        p = explore(xml_interp(repo), go2)
    except CannotDecide as e:
        raise AnalysisError("_composition2musicxml (equal tracks): %s" % e)
    ok, why = len(p) == 1 and p[0].kind == "return", "outcome %s" % [(x.kind, short(repr(x.value), 80)) for x in p]
    if ok:
        score = p[0].value
        parts, plist = score.find("part"), score.first("part-list")
        ids_p = [x.attrs.get("id") for x in parts]
        ids_s = [x.attrs.get("id") for x in (plist.find("score-part") if plist else [])]
        names = [sp.textof("part-name") for sp in (plist.find("score-part") if plist else [])]
        if len(ids_p) != 6 or ids_p != ids_s or len(set(ids_p)) != 6 or any(not i for i in ids_p):
            ok, why = False, "six tracks (three in unison, two empty, the first one again) give part ids %s / part-list ids %s: every track needs its own id, the same in both places" % (ids_p, ids_s)
        elif names != ["Voice 0", "Voice 1", "Voice 2", "Empty A", "Empty B", "Voice 0"]:
            ok, why = False, "part names %s" % names
    ctx.check(ok, R, "score.equal-tracks", f.where(), "_composition2musicxml(<tracks that compare equal>)", why)
    # public entry points: the composition handed to the exporter holds the argument, whole and once
    noteci, nci = repo.mod(NOTE).cls("Note"), repo.mod(NC).cls("NoteContainer")

    def held(comp):
        tracks = comp.attrs.get("tracks") if isinstance(comp, AObj) else None
        if not isinstance(tracks, list):
            return None
        out = []
        for t in tracks:
            bars = t.attrs.get("bars") if isinstance(t, AObj) else None
            if not isinstance(bars, list):
                return None
            out.append(bars)
        return out
    for fname in ("from_Note", "from_Bar", "from_Track", "from_Composition"):
        fi = repo.mod(MX).func(fname)
        ctx.touch(fi)
        cap = []

        def summ(it, a, k, n, cap=cap):
            cap.append(a[0])
            return Token("score")
        note = AObj(noteci, {"name": "F#", "octave": 5, "velocity": 64, "channel": 1}, name="n")
        bar = make_xml_bar(repo, [(["D"], "quarter")], concrete_beats=True)
        track = AObj(trci, {"bars": [bar], "name": "T", "instrument": None}, name="t")
        comp = AObj(compci, {"tracks": [track], "selected_tracks": [0], "title": "t", "author": "a"}, name="comp")
        arg = {"from_Note": note, "from_Bar": bar, "from_Track": track, "from_Composition": comp}[fname]

        def mk3(ch, summ=summ):
            return Interp(repo, ch, summaries={MX + "._composition2musicxml": summ}, max_depth=40)
        try:
            p = explore(mk3, lambda it, fi=fi, arg=arg: it.call_function(fi, [arg], {}))
        except CannotDecide as e:
            raise AnalysisError("musicxml.%s: %s" % (fname, e))
        ok, why = len(p) == 1 and p[0].kind == "return" and len(cap) >= 1, "outcome %s; the exporter was called %d times" % ([(x.kind, short(repr(x.value), 60)) for x in p], len(cap))
        if ok:
            got = held(cap[-1])
            if got is None or len(got) != 1:
                ok, why = False, "the exported composition has %s tracks, expected the one holding the argument" % (None if got is None else len(got))
            elif fname == "from_Composition":
                ok, why = cap[-1] is comp, "the exported composition is not the argument"
            elif fname == "from_Track":
                ok, why = cap[-1].attrs["tracks"][0] is track, "the exported track is not the argument"
            elif fname == "from_Bar":
                ok, why = len(got[0]) == 1 and got[0][0] is bar, "the exported track holds bars %s, expected the argument alone" % (got[0],)
            else:
                entries = [e for b_ in got[0] for e in (b_.attrs.get("bar") or [])] if all(isinstance(b_, AObj) for b_ in got[0]) else []
                notes = [x for e in entries for x in ((e[2].attrs.get("notes") or []) if isinstance(e[2], AObj) else [])]
                ok = len(entries) == 1 and len(notes) == 1 and (notes[0] is note or (notes[0].attrs.get("name"), notes[0].attrs.get("octave")) == ("F#", 5))
                why = "the exported composition holds %d entries with notes %s, expected one entry holding F#-5" % (len(entries), [(x.attrs.get("name"), x.attrs.get("octave")) for x in notes])
        ctx.check(ok, R, fname, fi.where(), "musicxml.%s(<argument>)" % fname, why)
