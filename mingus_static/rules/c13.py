"""C13 -- Bar time accounting (mingus/containers/bar.py)."""
from __future__ import annotations

import ast
from fractions import Fraction

from ..engine.absval import Lin, Sym, AbsStr, Opaque, AObj, AClass, INF
from ..engine.absint import CannotDecide, Interp, explore, RaiseEx
from ..engine.loader import AnalysisError, short
from ..engine.numdom import RatFun, FInt, fint_builtin_wrap
from ..engine.stubs import log_of, recorder, stub, record_class, run_method

PROP = "C13"
EXPLANATION = (
    "Static rules over containers/bar.py. (1) One placement on an abstract Bar that is consistent with itself (one entry "
    "of symbolic value v0, current beat 1/v0, symbolic length and new value, all rational functions): accepted -- "
    "exactly one entry [total of the lengths before it, value, normalised content] appended and the beat advanced by "
    "1/value; refused -- nothing changed, False returned; the accepting comparison is total <= length, exactly or with a "
    "float tolerance that is larger than accumulated rounding error and smaller than the smallest gap between distinct "
    "totals; only the (0, 0) meter is unbounded. (2) Placement histories evaluated on the real Bar / NoteContainer / Note "
    "code with the float values of the documented vocabulary (triplets, quintuplets, septuplets, dotted values; five "
    "meters), compared with an exact Fraction model: acceptance, every start beat, the current beat, current beat + space "
    "left, is_full, refusals that change nothing, an entry found again at its exact beat, remove-then-place, and index "
    "assignment taking every form placement takes. (3) remove_last_entry, set_meter, space_left, value_left, '+', "
    "is_full, __setitem__, place_notes_at, empty evaluated against their formulas.")
TRUSTED = ["CPython ast module", "mingus_static abstract evaluator + rational-function domain", "C09 (valid_beat_duration)"]
NOT_DECIDED = ("histories beyond the ten fills and the forms battery of R-C13-7 are covered only through the one-placement rules "
               "(an implementation that goes wrong after the Nth entry for some N not among the fills is not seen); "
               "change_note_duration (outside the statement)")

BAR, NC = "mingus.containers.bar", "mingus.containers.note_container"
TOL_MIN, TOL_MAX = Fraction(1, 10 ** 12), Fraction(1, 10 ** 5)


def bar_obj(ci, **attrs):
    return AObj(ci, attrs, name="bar")


def run(ctx):
    repo = ctx.repo
    mod = repo.mod(BAR)
    ci = mod.cls("Bar")
    ctx.touch(mod)
    for m in ci.methods.values():
        ctx.touch(m)
    rule_place(ctx, ci)
    rule_content(ctx, ci)
    rule_undo(ctx, ci)
    rule_derived(ctx, ci)
    rule_slots(ctx, ci)
    rule_gate(ctx, ci)
    rule_histories(ctx, ci)
    ctx.floor("R-C13-7", 18)
    ctx.floor("R-C13-1", 2)
    ctx.floor("R-C13-2", 5)
    ctx.floor("R-C13-3", 4)
    ctx.floor("R-C13-4", 12)
    ctx.floor("R-C13-5", 3)
    ctx.floor("R-C13-6", 1)


def _place_paths(ctx, ci, notes_factory, summaries=None):
    fi = ctx.repo.find_method(ci, "place_notes")
    # a bar holding one entry of value v0 (so its current beat is 1/v0), of any length, and a new value
    v0, ln, d = RatFun.var("v0"), RatFun.var("length"), RatFun.var("value")
    one = RatFun.of(1)
    cb = RatFun(one.num * v0.den, one.den * v0.num)

    def mk():
        old = [[RatFun.of(0), v0, None]]
        return [bar_obj(ci, bar=old, current_beat=cb, length=ln, meter=(4, 4), key=Opaque("key")), notes_factory(), d]

    def mk_interp(ch):
        it = Interp(ctx.repo, ch, summaries=summaries)
        fint_builtin_wrap(it)
        return it

    def runit(it):
        args = mk()
        it.args = args
        it.snapshot = (list(args[0].attrs["bar"]), dict(args[0].attrs))
        return it.call_function(fi, args, {})
    return fi, (cb, ln, d), explore(mk_interp, runit)


def rule_place(ctx, ci, R="R-C13-1"):
    nc = stub(ctx.repo, NC, "NoteContainer", name="content")
    fi, (cb, ln, d), paths = _place_paths(ctx, ci, lambda: nc)
    ok_acc, ok_ref, why_acc, why_ref = False, False, "no accepting path", "no refusing path"
    bad = None
    for p in paths:
        bar = p.interp.args[0]
        before_list, before_attrs = p.interp.snapshot
        lst = bar.attrs["bar"]
        if p.kind != "return" or not isinstance(p.value, bool):
            bad = "%s %r" % (p.kind, p.value)
            break
        if p.value is True:
            new = lst[len(before_list):] if lst[:len(before_list)] == before_list else None
            if new is None or len(new) != 1 or not isinstance(new[0], list) or len(new[0]) != 3:
                bad = "an accepted placement does not append exactly one [beat, value, content] entry (%d -> %d entries)" % (len(before_list), len(lst))
                break
            e = new[0]
            if RatFun.of(e[0]) is None or not RatFun.of(e[0]).same(cb) or e[1] is not d or e[2] is not nc:
                bad = "the appended entry is %r, expected [total length of the entries before it, value, content]" % (e,)
                break
            nb = RatFun.of(bar.attrs.get("current_beat"))
            if nb is None or not nb.same(RatFun(cb.num * d.num + d.den * cb.den, cb.den * d.num)):
                bad = "current beat becomes %r, expected beat + 1/value" % (bar.attrs.get("current_beat"),)
                break
            ok_acc = True
        else:
            if lst is not before_attrs["bar"] or lst != before_list or any(bar.attrs.get(k) is not v for k, v in before_attrs.items()):
                bad = "a refused placement (returning False) still changes the bar: %s" % (
                    [k for k, v in before_attrs.items() if bar.attrs.get(k) is not v] or "entries")
                break
            ok_ref = True
    ctx.check(bad is None and ok_acc, R, "place_notes.accept", fi.where(), "Bar.place_notes (accepting paths)", bad or why_acc)
    ctx.check(bad is None and ok_ref, R, "place_notes.refuse", fi.where(), "Bar.place_notes (refusing paths)", bad or why_ref)
    # place_rest == place_notes(None, value)
    fr = ctx.repo.find_method(ci, "place_rest")
    rec = record_class(ctx.repo, BAR, "Bar", ["place_notes"], result=Opaque("result"))
    dd = Opaque("value")
    paths = run_method(ctx.repo, fr, lambda: [bar_obj(ci), dd], summaries=rec)
    ok = len(paths) == 1 and paths[0].kind == "return" and [e[1][1:] for e in log_of(paths[0].interp)] == [[None, dd]]
    ctx.check(ok, R, "place_rest", fr.where(), "Bar.place_rest(value)", "a rest must be place_notes(None, value) and return its result")


def rule_content(ctx, ci):
    R = "R-C13-2"
    repo = ctx.repo
    nci = repo.mod(NC).cls("NoteContainer")

    def ctor(it, args, kwargs, node):
        o = AObj(nci, {"made_from": args[0] if args else None}, name="made")
        return o
    summ = {NC + ".NoteContainer": ctor}
    note = stub(repo, "mingus.containers.note", "Note", name="note")
    existing = stub(repo, NC, "NoteContainer", name="content")
    kinds = [("container", existing, "same"), ("note", note, "wrap"), ("string", "C", "wrap"),
             ("list", ["C", "E"], "wrap"), ("rest", None, "none")]
    for label, val, mode in kinds:
        fi, _, paths = _place_paths(ctx, ci, lambda: val, summaries=summ)
        ok, why = bool(paths), "no outcome"
        for p in paths:
            if p.value is not True:
                continue
            e = p.interp.args[0].attrs["bar"][-1]
            c = e[2] if isinstance(e, list) and len(e) == 3 else "?"
            good = (mode == "same" and c is val) or (mode == "none" and c is None) or \
                (mode == "wrap" and isinstance(c, AObj) and c.cls is nci and (c.attrs.get("made_from") is val or c.attrs.get("made_from") == val))
            if not good:
                ok, why = False, "content of kind %s is stored as %r" % (label, c)
        ctx.check(ok, R, "content[%s]" % label, fi.where(), "Bar.place_notes(<%s>, value)" % label, why)


def rule_undo(ctx, ci):
    R = "R-C13-3"
    fi = ctx.repo.find_method(ci, "remove_last_entry")
    cb, v1 = RatFun.var("beat"), RatFun.var("v1")
    # the state satisfies the bar's invariant: the last entry starts 1/value before the current beat
    start1 = RatFun(cb.num * v1.num - v1.den * cb.den, cb.den * v1.num)
    e0, e1 = [Opaque("b0"), Opaque("v0"), None], [start1, v1, Opaque("c1")]

    def mk():
        return [bar_obj(ci, bar=[e0, e1], current_beat=cb, length=RatFun.var("length"))]
    paths = run_method(ctx.repo, fi, mk)
    ok, why = len(paths) == 1 and paths[0].kind == "return", "outcome %s" % [(p.kind, p.value) for p in paths]
    if ok:
        b = paths[0].interp.args[0]
        nb = RatFun.of(b.attrs.get("current_beat"))
        lst = b.attrs.get("bar")
        if nb is None or not nb.same(RatFun(cb.num * v1.num - v1.den * cb.den, cb.den * v1.num)):
            ok, why = False, "current beat becomes %r, expected the beat the last entry started on (beat - 1/value)" % (b.attrs.get("current_beat"),)
        elif not (isinstance(lst, list) and len(lst) == 1 and lst[0] is e0):
            ok, why = False, "entries become %r, expected all but the last" % (lst,)
    ctx.check(ok, R, "remove_last_entry", fi.where(), "Bar.remove_last_entry()", why)
    # in floats too: removing what was placed leaves exactly the beat it was placed on (no rounding residue that a
    # later place_notes_at(beat) would miss, no drift over place / remove cycles)
    fp = ctx.repo.find_method(ci, "place_notes")
    for label, values in (("quarter, triplet-half", [4, 3]), ("half, triplet-half", [2, 3]), ("sixth, fifth, seventh", [6, 5, 7])):
        def go(it, values=values):
            b = bar_obj(ci, bar=[], current_beat=0.0, length=1.0, meter=(4, 4), key=Opaque("key"))
            beats = []
            for v in values:
                beats.append(b.attrs["current_beat"])
                it.call_function(fp, [b, None, v], {})
            after = []
            for _ in values:
                it.call_function(fi, [b], {})
                after.append(b.attrs["current_beat"])
            return beats, after
        ps = explore(lambda ch: Interp(ctx.repo, ch), go)
        ok_ = len(ps) == 1 and ps[0].kind == "return" and list(reversed(ps[0].value[0])) == ps[0].value[1]
        ctx.check(ok_, R, "remove_last_entry.exact[%s]" % label, fi.where(), "place %s, then remove them again" % values,
                  "the current beat after each removal is %s, the entries had started on %s" % (
                      ps[0].value[1] if len(ps) == 1 and ps[0].kind == "return" else [(p_.kind, p_.value) for p_ in ps],
                      list(reversed(ps[0].value[0])) if len(ps) == 1 and ps[0].kind == "return" else "?"))


def rule_derived(ctx, ci):
    R = "R-C13-4"
    repo = ctx.repo
    cb, ln = RatFun.var("beat"), RatFun.var("length")
    f = repo.find_method(ci, "space_left")
    paths = run_method(repo, f, lambda: [bar_obj(ci, current_beat=cb, length=ln)])
    want = RatFun(ln.num * cb.den - cb.num * ln.den, ln.den * cb.den)
    r = RatFun.of(paths[0].value) if len(paths) == 1 and paths[0].kind == "return" else None
    ctx.check(r is not None and r.same(want), R, "space_left", f.where(), "Bar.space_left()", "space left is %r, expected length - beat" % (r,))
    # value_left on a bar that is consistent with itself: one entry of value v0, current beat 1/v0
    f = repo.find_method(ci, "value_left")
    v0 = RatFun.var("v0")
    one = RatFun.of(1)
    cb1 = RatFun(one.num * v0.den, one.den * v0.num)
    want1 = RatFun(ln.num * cb1.den - cb1.num * ln.den, ln.den * cb1.den)

    def mk_interp(ch):
        it = Interp(repo, ch)
        fint_builtin_wrap(it)
        return it
    try:
        paths = explore(mk_interp, lambda it: it.call_function(f, [bar_obj(ci, bar=[[RatFun.of(0), v0, None]], current_beat=cb1, length=ln, meter=(4, 4))], {}))
    except CannotDecide as e:
        raise AnalysisError("Bar.value_left: %s" % e)
    rets = [RatFun.of(p.value) for p in paths if p.kind == "return"]
    ok = bool(rets) and all(r is not None and r.same(RatFun(want1.den, want1.num)) for r in rets)
    ctx.check(ok, R, "value_left", f.where(), "Bar.value_left()", "value left is %r, expected 1/(length - total of the entries)" % ([(p.kind, p.value) for p in paths],))
    # set_meter
    f = repo.find_method(ci, "set_meter")
    m0, m1 = RatFun.var("count"), RatFun.var("unit")
    vb = lambda res: {"mingus.core.meter.valid_beat_duration": recorder("vbd", res)}
    paths = run_method(repo, f, lambda: [bar_obj(ci), (m0, m1)], summaries=vb(True))
    ok, why = len(paths) == 1 and paths[0].kind == "return", "outcome %s" % [(p.kind, p.value) for p in paths]
    if ok:
        b = paths[0].interp.args[0]
        L = RatFun.of(b.attrs.get("length"))
        mt = b.attrs.get("meter")
        arg = log_of(paths[0].interp)[0][1][0]
        if not (isinstance(mt, tuple) and mt[0] is m0 and mt[1] is m1) or L is None or not L.same(RatFun(m0.num * m1.den, m0.den * m1.num)) or arg is not m1:
            ok, why = False, "meter=%r length=%r (validity asked of %r); expected (count, unit), count/unit, unit" % (mt, b.attrs.get("length"), arg)
    ctx.check(ok, R, "set_meter.valid", f.where(), "Bar.set_meter((count, unit)) with a valid unit", why)
    paths = run_method(repo, f, lambda: [bar_obj(ci), (0, 0)], summaries=vb(False))
    b = paths[0].interp.args[0] if paths else None
    ok = len(paths) == 1 and paths[0].kind == "return" and b.attrs.get("meter") == (0, 0) and b.attrs.get("length") == 0.0
    ctx.check(ok, R, "set_meter.(0,0)", f.where(), "Bar.set_meter((0, 0))", "the unbounded meter gives %s" % [(p.kind, p.value) for p in paths])
    paths = run_method(repo, f, lambda: [bar_obj(ci), (3, 7)], summaries=vb(False))
    ok = bool(paths) and all(p.kind == "raise" and p.value == "MeterFormatError" for p in paths)
    ctx.check(ok, R, "set_meter.invalid", f.where(), "Bar.set_meter((3, 7))", "an invalid unit gives %s" % [(p.kind, p.value) for p in paths])
    # the same with the repository's own validity test: a meter is (count, power of two) or (0, 0)
    # (fractions such as 1/2 are left out: 'log2 is an integer' reads either way for them)
    for unit, valid in ((1, True), (2, True), (4, True), (8, True), (16, True), (32, True), (64, True),
                        (-4, False), (-1, False), (-2, False), (3, False), (6, False), (12, False), (0, False), (1.5, False)):
        made = []

        def fresh():
            made.append(bar_obj(ci, meter=(3, 8), length=0.375))
            return [made[-1], (4, unit)]
        try:
            paths = run_method(repo, f, fresh)
        except CannotDecide as e:
            raise AnalysisError("Bar.set_meter((4, %r)): %s" % (unit, e))
        if valid:
            ok = bool(paths) and all(p.kind == "return" and p.interp.args[0].attrs.get("meter") == (4, unit) and p.interp.args[0].attrs.get("length") == 4.0 / unit for p in paths)
            why = "a power of two as the beat unit must be accepted and give length %r: %s" % (4.0 / unit, [(p.kind, p.value, p.interp.args[0].attrs.get("meter"), p.interp.args[0].attrs.get("length")) for p in paths])
        else:
            ok = bool(paths) and all(p.kind == "raise" and p.value == "MeterFormatError" and p.interp.args[0].attrs.get("meter") == (3, 8) and p.interp.args[0].attrs.get("length") == 0.375 for p in paths)
            why = "a beat unit that is no power of two >= 1 must be refused with MeterFormatError and leave the bar as it was: %s" % [(p.kind, p.value, p.interp.args[0].attrs.get("meter"), p.interp.args[0].attrs.get("length")) for p in paths]
        ctx.check(ok, R, "set_meter[(4, %r)]" % (unit,), f.where(), "Bar.set_meter((4, %r)) on a 3/8 bar" % (unit,), why)
    # '+': place with the beat unit (4 for the unbounded meter)
    f = repo.find_method(ci, "__add__")
    rec = record_class(repo, BAR, "Bar", ["place_notes"], result=Opaque("placed"))
    x = Opaque("content")
    for meter, want in (((3, 8), 8), ((0, 0), 4), ((6, 16), 16)):
        paths = run_method(repo, f, lambda: [bar_obj(ci, meter=meter), x], summaries=rec)
        ok = len(paths) == 1 and paths[0].kind == "return" and [e[1][1:] for e in log_of(paths[0].interp)] == [[x, want]]
        ctx.check(ok, R, "__add__%s" % (meter,), f.where(), "Bar + content in %s" % (meter,), "'+' must place the content with value %d" % want)
    # is_full
    f = repo.find_method(ci, "is_full")
    cases = [("unbounded", 0.0, FInt(0, 100), [[1, 1, None]], False), ("empty", 1.0, 0.0, [], False),
             ("exactly-full", 1.0, 1.0, [[0, 1, None]], True), ("within-tolerance", 1.0, FInt(Fraction(9991, 10000), 1), [[0, 1, None]], True),
             ("not-full", 1.0, FInt(0, Fraction(9989, 10000)), [[0, 2, None]], False), ("zero-length", 0.0, 0.25, [[0, 4, None]], True), ("3/4-full", 0.75, FInt(Fraction(7491, 10000), Fraction(3, 4)), [[0, 1, None]], True)]
    for label, ln_, cb_, entries, want in cases:
        def mk_interp(ch):
            it = Interp(repo, ch)
            fint_builtin_wrap(it)
            return it
        meter_ = (0, 0) if label == "unbounded" else ((0, 4) if label == "zero-length" else (4, 4))
        paths = explore(mk_interp, lambda it: it.call_function(f, [bar_obj(ci, length=ln_, current_beat=cb_, bar=list(entries), meter=meter_)], {}))
        ok = bool(paths) and all(p.kind == "return" and p.value is want for p in paths)
        ctx.check(ok, R, "is_full[%s]" % label, f.where(), "Bar.is_full() [%s]" % label, "gives %s, expected %s" % ([(p.kind, p.value) for p in paths], want))


def rule_slots(ctx, ci):
    R = "R-C13-5"
    repo = ctx.repo
    nci = repo.mod(NC).cls("NoteContainer")
    f = repo.find_method(ci, "__setitem__")
    newc = stub(repo, NC, "NoteContainer", name="new")

    def entries():
        return [[Opaque("b0"), Opaque("v0"), Opaque("c0")], [Opaque("b1"), Opaque("v1"), Opaque("c1")]]
    paths = run_method(repo, f, lambda: [bar_obj(ci, bar=entries(), current_beat=Opaque("cb")), 1, newc])
    ok, why = len(paths) == 1 and paths[0].kind == "return", "outcome %s" % [(p.kind, p.value) for p in paths]
    if ok:
        lst = paths[0].interp.args[0].attrs["bar"]
        if not (len(lst) == 2 and lst[1][2] is newc and [getattr(x, "tag", None) for x in lst[0]] == ["b0", "v0", "c0"]
                and [getattr(x, "tag", None) for x in lst[1][:2]] == ["b1", "v1"]):
            ok, why = False, "entries become %r: only the content slot of the indexed entry may change" % (lst,)
    ctx.check(ok, R, "__setitem__", f.where(), "bar[i] = content", why)
    f = repo.find_method(ci, "place_notes_at")
    at = 0.5
    extra = Opaque("extra")

    def mk():
        c = [stub(repo, NC, "NoteContainer", name="c%d" % i) for i in range(3)]
        return [bar_obj(ci, bar=[[0.0, 4, c[0]], [0.5, 4, c[1]], [0.75, 4, c[2]]]), extra, at]
    rec = record_class(repo, NC, "NoteContainer", ["__add__", "__iadd__", "add_notes"], result=lambda it, a, k: a[0])
    paths = run_method(repo, f, mk, summaries=rec)
    ok, why = len(paths) == 1 and paths[0].kind == "return", "outcome %s" % [(p.kind, p.value) for p in paths]
    if ok:
        lst = paths[0].interp.args[0].attrs["bar"]
        touched = [e[1][0].name for e in log_of(paths[0].interp)]
        if touched != ["c1"] or [x[0] for x in lst] != [0.0, 0.5, 0.75] or [x[1] for x in lst] != [4, 4, 4]:
            ok, why = False, "notes are added to %s (expected only the entry starting at beat %s); beats/values %s" % (touched, at, [x[:2] for x in lst])
    ctx.check(ok, R, "place_notes_at", f.where(), "Bar.place_notes_at(notes, beat)", why)
    f = repo.find_method(ci, "empty")
    paths = run_method(repo, f, lambda: [bar_obj(ci, bar=[[0, 1, None]], current_beat=1.0, length=1.0)])
    b = paths[0].interp.args[0] if paths else None
    ok = len(paths) == 1 and b.attrs.get("bar") == [] and b.attrs.get("current_beat") == 0.0 and b.attrs.get("length") == 1.0
    ctx.check(ok, R, "empty", f.where(), "Bar.empty()", "empty() must reset entries and the current beat together")


def rule_gate(ctx, ci, R="R-C13-6"):
    """The accepting comparison decides like exact rational arithmetic."""
    nc = stub(ctx.repo, NC, "NoteContainer", name="content")
    fi, (cb, ln, d), paths = _place_paths(ctx, ci, lambda: nc)
    total = RatFun(cb.num * d.num + d.den * cb.den, cb.den * d.num)
    # Every ordering comparison on a path is a fact "X <= Y" / "X < Y" (as it came out on that path, whichever way round
    # and with whichever operator the code wrote it).  On an accepting path the facts must say total <= length (exactly, or
    # up to a tolerance); on a refusing path the opposite.
    why = ""
    ok = True
    n_facts = 0

    def sub(x, y):
        return RatFun(x.num * y.den - y.num * x.den, x.den * y.den)

    def const_of(rf):
        num, den = rf.num, rf.den
        if not num.terms:
            return Fraction(0)
        if set(num.terms) == set(den.terms):
            ratios = {num.terms[m] / den.terms[m] for m in num.terms}
            if len(ratios) == 1:
                return ratios.pop()
        return None
    for p in paths:
        if p.kind != "return" or not isinstance(p.value, bool):
            continue
        for e in log_of(p.interp):
            if e[0] != "cmp" or e[1] in ("Eq", "NotEq"):
                continue
            op, x, y, res = e[1], e[2], e[3], e[4]
            # the fact as "small (<= or <) big"
            if (op, res) in (("LtE", True), ("Gt", False)):
                small, big, strict = x, y, False
            elif (op, res) in (("Lt", True), ("GtE", False)):
                small, big, strict = x, y, True
            elif (op, res) in (("GtE", True), ("Lt", False)):
                small, big, strict = y, x, False
            else:
                small, big, strict = y, x, True
            n_facts += 1
            room = sub(ln, total)  # length - (beat + 1/value)
            if p.value is True:
                # accepted: the fact must be total <= length + tol, i.e. (big - small) - room == tol
                tol = const_of(sub(sub(big, small), room))
                good = tol is not None and ((tol == 0 and not strict) or TOL_MIN <= tol <= TOL_MAX)
            else:
                # refused: the fact must be length + tol < total (or <=, with a tolerance), i.e. (small - big) - room == tol ... with roles swapped
                tol = const_of(sub(sub(small, big), room))
                good = tol is not None and ((tol == 0 and strict) or TOL_MIN <= tol <= TOL_MAX)
            if not good:
                ok = False
                why = ("on a path where the placement is %s the deciding comparison says %r %s %r: that is not 'total of the entries + 1/value <= length' "
                       "(exactly, or with a tolerance between %s and %s)" % ("accepted" if p.value else "refused", small, "<" if strict else "<=", big, float(TOL_MIN), float(TOL_MAX)))
                break
        if not ok:
            break
    if ok and not n_facts:
        ok, why = False, "no ordering comparison decides acceptance"
    ctx.check(ok, R, "gate", fi.where(), "Bar.place_notes: accepting comparison", why)
    # the unbounded (0, 0) meter always accepts; a bar of length zero in another meter, e.g. (0, 4), accepts nothing
    for label, meter_, want in (("(0, 0)", (0, 0), True), ("(0, 4)", (0, 4), False)):
        def go(it, meter_=meter_):
            b = bar_obj(ci, bar=[], current_beat=0.0, length=0.0, meter=meter_, key=Opaque("key"))
            return it.call_function(fi, [b, nc, 4], {}), len(b.attrs["bar"])
        ps = explore(lambda ch: Interp(ctx.repo, ch), go)
        ok_ = len(ps) == 1 and ps[0].kind == "return" and ps[0].value == (want, 1 if want else 0)
        ctx.check(ok_, R, "gate.unbounded%s" % label, fi.where(), "Bar.place_notes in meter %s (length 0)" % label,
                  "a quarter note placed in an empty bar of meter %s gives %s: %s" % (label, [(p_.kind, p_.value) for p_ in ps],
                                                                                   "the unbounded meter must always accept" if want else "a bar of length zero has no room"))


# ------------------------------------------------------------------------------ R-C13-7
# note values of the documented vocabulary as the floats / ints mingus.core.value produces, with their exact lengths
VOCAB = {
    "quarter": (4, Fraction(1, 4)), "half": (2, Fraction(1, 2)), "eighth": (8, Fraction(1, 8)), "sixteenth": (16, Fraction(1, 16)), "whole": (1, Fraction(1)),
    "dotted quarter": (4 / 1.5, Fraction(3, 8)), "dotted eighth": (8 / 1.5, Fraction(3, 16)), "double-dotted half": (2 / 1.75, Fraction(7, 8)),
    "triplet eighth": (12.0, Fraction(1, 12)), "triplet quarter": (6.0, Fraction(1, 6)), "triplet sixteenth": (24.0, Fraction(1, 24)),
    "quintuplet sixteenth": (20.0, Fraction(1, 20)), "quintuplet eighth": (10.0, Fraction(1, 10)),
    "septuplet quarter": (7.0, Fraction(1, 7)), "septuplet eighth": (14.0, Fraction(1, 14)),
}


def rule_histories(ctx, ci):
    """Placement histories run on the real Bar / NoteContainer / Note code with concrete values and compared with an exact
    (Fraction) model of the statement: acceptance is the rational test, every start beat is the (float nearest to the)
    exact sum of the lengths before it, the current beat is the exact total, current beat + space left is the bar
    length, a refusal changes nothing, an entry can be found again at its exact beat, and index assignment takes what
    placement takes and touches one entry only."""
    R = "R-C13-7"
    repo = ctx.repo
    nci, noteci = repo.mod(NC).cls("NoteContainer"), repo.mod("mingus.containers.note").cls("Note")
    fplace = repo.find_method(ci, "place_notes")
    from ..engine import notesdom as nd

    def new(it, c, *args):
        return it.call(AClass(c), list(args), {}, None)

    def pitches(cont):
        if cont is None:
            return None
        return tuple(sorted(nd.pitch_number(n.attrs["name"], n.attrs["octave"]) for n in cont.attrs["notes"]))

    def snapshot(b):
        return ([(e[0], e[1], id(e[2])) for e in b.attrs["bar"]], b.attrs.get("current_beat", "class default"), b.attrs.get("length", "class default"))

    def run1(label, fn):
        try:
            ps = explore(lambda ch: Interp(repo, ch, max_depth=60, max_iter=5000), fn)
        except CannotDecide as e:
            raise AnalysisError("bar history %r: %s" % (label, e))
        except (IndexError, KeyError) as e:
            # the history itself reads entries back: one that is missing is a placement that was wrongly refused
            return None, "the history cannot be completed (%s: %s): an entry that should have been placed is not there" % (type(e).__name__, e)
        if len(ps) != 1 or ps[0].kind != "return":
            return None, "outcome %s" % [(p.kind, short(repr(p.value), 80)) for p in ps][:2]
        return ps[0].value, None

    # (a) fills: n equal values that fill the bar exactly, then a half / one more
    fills = [
        ("six triplet eighths then a half", (4, 4), ["triplet eighth"] * 6 + ["half"]),
        ("six triplet quarters fill 4/4", (4, 4), ["triplet quarter"] * 6),
        ("twenty quintuplet sixteenths fill 4/4", (4, 4), ["quintuplet sixteenth"] * 20),
        ("ten quintuplet eighths fill 4/4", (4, 4), ["quintuplet eighth"] * 10),
        ("seven septuplet quarters fill 4/4", (4, 4), ["septuplet quarter"] * 7),
        ("three quintuplet sixteenths then a quarter", (4, 4), ["quintuplet sixteenth"] * 3 + ["quarter"]),
        ("triplet sixteenths fill 12/8", (12, 8), ["triplet sixteenth"] * 36),
        ("dotted values in 6/8", (6, 8), ["dotted quarter", "dotted eighth", "dotted eighth"]),
        ("mixed tuplets in 3/4", (3, 4), ["triplet eighth"] * 3 + ["quintuplet sixteenth"] * 5 + ["septuplet eighth"] * 3 + ["eighth"]),
        ("plain values in 2/2", (2, 2), ["quarter", "eighth", "eighth", "half"]),
    ]
    for label, meter, names in fills:
        def go(it, meter=meter, names=names):
            b = new(it, ci, "C", meter)
            trace = []
            for nm in names + ["sixteenth"]:
                before = snapshot(b)
                r = it.call_method(b, "place_notes", ["C", VOCAB[nm][0]], {}, None)
                trace.append((nm, r, before, snapshot(b)))
            space = it.call_method(b, "space_left", [], {}, None)
            full = it.call_method(b, "is_full", [], {}, None)
            return b, trace, space, full
        v, err = run1(label, go)
        ok, why = err is None, err
        if ok:
            b, trace, space, full = v
            length = Fraction(meter[0], meter[1])
            total, n_acc = Fraction(0), 0
            for nm, r, before, after in trace:
                ln = VOCAB[nm][1]
                want_acc = total + ln <= length
                if r is not want_acc:
                    ok, why = False, "placing a %s after a total of %s in %d/%d is %s, exact arithmetic says %s" % (nm, total, meter[0], meter[1], "accepted" if r else "refused", "accept" if want_acc else "refuse")
                    break
                if not want_acc:
                    if before != after:
                        ok, why = False, "a refused %s changed the bar" % nm
                        break
                    continue
                entries = after[0]
                if len(entries) != n_acc + 1 or entries[:n_acc] != before[0]:
                    ok, why = False, "an accepted %s does not append exactly one entry" % nm
                    break
                if entries[-1][0] != float(total):
                    ok, why = False, "entry %d (a %s) starts at beat %r; the lengths before it add up to %s = %r" % (n_acc, nm, entries[-1][0], total, float(total))
                    break
                total += ln
                n_acc += 1
                if after[1] != float(total):
                    ok, why = False, "after %d entries the current beat is %r; the lengths add up to %s = %r" % (n_acc, after[1], total, float(total))
                    break
            if ok and after[1] + space != float(length):
                ok, why = False, "current beat %r + space left %r is not the bar length %r" % (after[1], space, float(length))
            if ok and space < 0:
                ok, why = False, "space left is negative (%r)" % space
            if ok and full is not (n_acc > 0 and abs(length - total) <= Fraction(1, 1000)):
                ok, why = False, "is_full() is %s with %s of %s filled" % (full, total, length)
        ctx.check(ok, R, "fill[%s]" % label, fplace.where(), "Bar(%d/%d): %s, then one sixteenth more" % (meter[0], meter[1], label), why)

    # (b) an entry is found again at its exact beat; remove-last then place again restores the state
    def go_at(it):
        b = new(it, ci, "C", (4, 4))
        for _ in range(6):
            it.call_method(b, "place_notes", ["C", 12.0], {}, None)
        it.call_method(b, "place_notes", ["E", 2], {}, None)
        it.call_method(b, "place_notes_at", ["G", 0.5], {}, None)
        found = pitches(b.attrs["bar"][6][2])
        s1 = snapshot(b)
        it.call_method(b, "remove_last_entry", [], {}, None)
        mid = (len(b.attrs["bar"]), b.attrs["current_beat"])
        it.call_method(b, "place_notes", ["E", 2], {}, None)
        s2 = snapshot(b)
        return found, mid, [(x[0], x[1]) for x in s1[0]], s1[1], [(x[0], x[1]) for x in s2[0]], s2[1]
    v, err = run1("found at its beat", go_at)
    ok, why = err is None, err
    if ok:
        found, mid, e1, cb1, e2, cb2 = v
        if found != (52, 55):
            ok, why = False, "place_notes_at(<G>, 0.5) after six triplet eighths and a half note leaves the half-note entry as %s: it starts at beat 1/2" % (found,)
        elif mid != (6, 0.5):
            ok, why = False, "removing the last entry leaves (%d entries, beat %r), expected (6, 0.5)" % mid
        elif (e1, cb1) != (e2, cb2):
            ok, why = False, "remove-last then the same placement does not restore beats %s / %r (now %s / %r)" % (e1, cb1, e2, cb2)
    ctx.check(ok, R, "found-at-beat", repo.find_method(ci, "place_notes_at").where(), "six triplet eighths, a half note, place_notes_at(<G>, 0.5), remove-last, place again", why)

    # (b2) notes added at the beat an entry starts on go to that entry and to no other (the float end of the entry before
    #      may lie an ulp above that beat: 0.1 + 1/5.0 > 0.3)
    for label, values in (("10, 5, 8", (10.0, 5.0, 8)), ("12, 12, 12, 4", (12.0, 12.0, 12.0, 4)), ("5, 5, 10, 4", (5.0, 5.0, 10.0, 4)), ("3, 6, 4", (3.0, 6.0, 4))):
        def go_only(it, values=values):
            out = []
            for k in range(len(values)):
                b = new(it, ci, "C", (4, 4))
                for v_ in values:
                    it.call_method(b, "place_notes", ["C", v_], {}, None)
                at = b.attrs["bar"][k][0]
                it.call_method(b, "place_notes_at", ["G", at], {}, None)
                out.append((k, at, [pitches(e[2]) for e in b.attrs["bar"]]))
            return out
        v, err = run1("place_notes_at on %s" % label, go_only)
        ok, why = err is None, err
        if ok:
            for k, at, conts in v:
                want = [(48, 55) if i == k else (48,) for i in range(len(conts))]
                if conts != want:
                    ok, why = False, "values %s: place_notes_at(<G>, %r) (the start of entry %d) leaves the entries as %s, expected %s" % (label, at, k, conts, want)
                    break
        ctx.check(ok, R, "at-beat-only[%s]" % label, repo.find_method(ci, "place_notes_at").where(), "entries of value %s, place_notes_at(<G>, start of each entry in turn)" % label, why)

    # (c) what placement takes, index assignment takes, and it touches that entry only
    forms = [("name", lambda it: "D", (50,)), ("Note", lambda it: new(it, noteci, "D", 5), (62,)), ("list of names", lambda it: ["D", "F"], (50, 53)),
             ("list of [name, octave]", lambda it: [["C", 5], ["E", 5]], (60, 64)), ("list of Notes", lambda it: [new(it, noteci, "C", 3), new(it, noteci, "G", 3)], (36, 43)),
             ("NoteContainer", lambda it: new(it, nci, ["A", "C"]), (57, 60)), ("empty list", lambda it: [], ())]
    for label, mk, want in forms:
        def go(it, mk=mk):
            b = new(it, ci, "C", (4, 4))
            for nm in ("C", "E", "G"):
                it.call_method(b, "place_notes", [nm, 4], {}, None)
            placed = it.call_method(b, "place_notes", [mk(it), 4], {}, None)
            via_place = pitches(b.attrs["bar"][3][2])
            before = snapshot(b)
            others = [pitches(e[2]) for e in b.attrs["bar"]]
            try:
                it.call_method(b, "__setitem__", [1, mk(it)], {}, None)
                raised = None
            except RaiseEx as r:
                raised = r.exc
            after = snapshot(b)
            return placed, via_place, raised, [(x[0], x[1]) for x in before[0]], [(x[0], x[1]) for x in after[0]], before[1:], after[1:], others, [pitches(e[2]) for e in b.attrs["bar"]]
        v, err = run1("forms " + label, go)
        ok, why = err is None, err
        if ok:
            placed, via_place, raised, be, af, bm, am, others, now = v
            if placed is not True or via_place != want:
                ok, why = False, "place_notes(<%s>) gives %s and stores pitches %s, expected %s" % (label, placed, via_place, want)
            elif raised is not None:
                ok, why = False, "bar[1] = <%s> raises %s although place_notes takes the same form" % (label, raised)
            elif now[1] != want:
                ok, why = False, "bar[1] = <%s> stores pitches %s, place_notes stores %s" % (label, now[1], want)
            elif be != af or bm != am or now[:1] + now[2:] != others[:1] + others[2:]:
                ok, why = False, "bar[1] = <%s> changes more than the content of entry 1" % label
        ctx.check(ok, R, "forms[%s]" % label, repo.find_method(ci, "__setitem__").where(), "place_notes(<%s>, 4) and bar[1] = <%s>" % (label, label), why)
