"""C13 -- Bar time accounting (mingus/containers/bar.py)."""
from __future__ import annotations

import ast
from fractions import Fraction

from ..engine.absval import Lin, Sym, AbsStr, Opaque, AObj, AClass, INF
from ..engine.absint import CannotDecide, Interp, explore, RaiseEx
from ..engine.loader import AnalysisError, short
from ..engine.numdom import RatFun, FInt, fint_builtin_wrap
from ..engine.stubs import log_of, recorder, stub, record_class, run_method

PROP = "C13"
EXPLANATION = (
    "Static rules over containers/bar.py on abstract Bar objects whose beat, length and note values are symbolic "
    "rational functions: place_notes is evaluated on every path (accepted: exactly one entry [old current beat, "
    "value, normalised content] appended and the beat advanced by exactly 1/value; refused: no attribute or list "
    "changed, False returned); the accepting comparison itself is inspected (operands = beat + 1/value against the "
    "length, 'length == 0' escape, and a tolerance that is larger than accumulated float error but smaller than "
    "the smallest gap between distinct totals, i.e. the float gate decides like exact rational arithmetic); "
    "remove_last_entry is the inverse (subtracts 1/value of the last entry, drops exactly it); set_meter, "
    "space_left, value_left, '+', is_full, __setitem__, place_notes_at, empty are evaluated against their formulas.")
TRUSTED = ["CPython ast module", "mingus_static abstract evaluator + rational-function domain", "C09 (valid_beat_duration)"]
NOT_DECIDED = ("cumulative floating-point drift over very long histories (the tolerance bound assumes fewer than ~10^5 "
               "entries per bar); change_note_duration (outside the statement)")

BAR, NC = "mingus.containers.bar", "mingus.containers.note_container"
TOL_MIN, TOL_MAX = Fraction(1, 10 ** 12), Fraction(1, 10 ** 5)


def bar_obj(ci, **attrs):
    return AObj(ci, attrs, name="bar")


def run(ctx):
    repo = ctx.repo
    mod = repo.mod(BAR)
    ci = mod.cls("Bar")
    ctx.touch(mod)
    for m in ci.methods.values():
        ctx.touch(m)
    rule_place(ctx, ci)
    rule_content(ctx, ci)
    rule_undo(ctx, ci)
    rule_derived(ctx, ci)
    rule_slots(ctx, ci)
    rule_gate(ctx, ci)
    ctx.floor("R-C13-1", 2)
    ctx.floor("R-C13-2", 5)
    ctx.floor("R-C13-3", 4)
    ctx.floor("R-C13-4", 12)
    ctx.floor("R-C13-5", 3)
    ctx.floor("R-C13-6", 1)


def _place_paths(ctx, ci, notes_factory, summaries=None):
    fi = ctx.repo.find_method(ci, "place_notes")
    cb, ln, d = RatFun.var("beat"), RatFun.var("length"), RatFun.var("value")

    def mk():
        old = [[Opaque("b0"), Opaque("v0"), None]]
        return [bar_obj(ci, bar=old, current_beat=cb, length=ln, meter=(4, 4), key=Opaque("key")), notes_factory(), d]

    def mk_interp(ch):
        it = Interp(ctx.repo, ch, summaries=summaries)
        fint_builtin_wrap(it)
        return it

    def runit(it):
        args = mk()
        it.args = args
        it.snapshot = (list(args[0].attrs["bar"]), dict(args[0].attrs))
        return it.call_function(fi, args, {})
    return fi, (cb, ln, d), explore(mk_interp, runit)


def rule_place(ctx, ci, R="R-C13-1"):
    nc = stub(ctx.repo, NC, "NoteContainer", name="content")
    fi, (cb, ln, d), paths = _place_paths(ctx, ci, lambda: nc)
    ok_acc, ok_ref, why_acc, why_ref = False, False, "no accepting path", "no refusing path"
    bad = None
    for p in paths:
        bar = p.interp.args[0]
        before_list, before_attrs = p.interp.snapshot
        lst = bar.attrs["bar"]
        if p.kind != "return" or not isinstance(p.value, bool):
            bad = "%s %r" % (p.kind, p.value)
            break
        if p.value is True:
            new = lst[len(before_list):] if lst[:len(before_list)] == before_list else None
            if new is None or len(new) != 1 or not isinstance(new[0], list) or len(new[0]) != 3:
                bad = "an accepted placement does not append exactly one [beat, value, content] entry (%d -> %d entries)" % (len(before_list), len(lst))
                break
            e = new[0]
            if e[0] is not cb or e[1] is not d or e[2] is not nc:
                bad = "the appended entry is %r, expected [beat before the placement, value, content]" % (e,)
                break
            nb = RatFun.of(bar.attrs.get("current_beat"))
            if nb is None or not nb.same(RatFun(cb.num * d.num + d.den * cb.den, cb.den * d.num)):
                bad = "current beat becomes %r, expected beat + 1/value" % (bar.attrs.get("current_beat"),)
                break
            ok_acc = True
        else:
            if lst is not before_attrs["bar"] or lst != before_list or any(bar.attrs.get(k) is not v for k, v in before_attrs.items()):
                bad = "a refused placement (returning False) still changes the bar: %s" % (
                    [k for k, v in before_attrs.items() if bar.attrs.get(k) is not v] or "entries")
                break
            ok_ref = True
    ctx.check(bad is None and ok_acc, R, "place_notes.accept", fi.where(), "Bar.place_notes (accepting paths)", bad or why_acc)
    ctx.check(bad is None and ok_ref, R, "place_notes.refuse", fi.where(), "Bar.place_notes (refusing paths)", bad or why_ref)
    # place_rest == place_notes(None, value)
    fr = ctx.repo.find_method(ci, "place_rest")
    rec = record_class(ctx.repo, BAR, "Bar", ["place_notes"], result=Opaque("result"))
    dd = Opaque("value")
    paths = run_method(ctx.repo, fr, lambda: [bar_obj(ci), dd], summaries=rec)
    ok = len(paths) == 1 and paths[0].kind == "return" and [e[1][1:] for e in log_of(paths[0].interp)] == [[None, dd]]
    ctx.check(ok, R, "place_rest", fr.where(), "Bar.place_rest(value)", "a rest must be place_notes(None, value) and return its result")


def rule_content(ctx, ci):
    R = "R-C13-2"
    repo = ctx.repo
    nci = repo.mod(NC).cls("NoteContainer")

    def ctor(it, args, kwargs, node):
        o = AObj(nci, {"made_from": args[0] if args else None}, name="made")
        return o
    summ = {NC + ".NoteContainer": ctor}
    note = stub(repo, "mingus.containers.note", "Note", name="note")
    existing = stub(repo, NC, "NoteContainer", name="content")
    kinds = [("container", existing, "same"), ("note", note, "wrap"), ("string", "C", "wrap"),
             ("list", ["C", "E"], "wrap"), ("rest", None, "none")]
    for label, val, mode in kinds:
        fi, _, paths = _place_paths(ctx, ci, lambda: val, summaries=summ)
        ok, why = bool(paths), "no outcome"
        for p in paths:
            if p.value is not True:
                continue
            e = p.interp.args[0].attrs["bar"][-1]
            c = e[2] if isinstance(e, list) and len(e) == 3 else "?"
            good = (mode == "same" and c is val) or (mode == "none" and c is None) or \
                (mode == "wrap" and isinstance(c, AObj) and c.cls is nci and (c.attrs.get("made_from") is val or c.attrs.get("made_from") == val))
            if not good:
                ok, why = False, "content of kind %s is stored as %r" % (label, c)
        ctx.check(ok, R, "content[%s]" % label, fi.where(), "Bar.place_notes(<%s>, value)" % label, why)


def rule_undo(ctx, ci):
    R = "R-C13-3"
    fi = ctx.repo.find_method(ci, "remove_last_entry")
    cb, v1 = RatFun.var("beat"), RatFun.var("v1")
    # the state satisfies the bar's invariant: the last entry starts 1/value before the current beat
    start1 = RatFun(cb.num * v1.num - v1.den * cb.den, cb.den * v1.num)
    e0, e1 = [Opaque("b0"), Opaque("v0"), None], [start1, v1, Opaque("c1")]

    def mk():
        return [bar_obj(ci, bar=[e0, e1], current_beat=cb, length=RatFun.var("length"))]
    paths = run_method(ctx.repo, fi, mk)
    ok, why = len(paths) == 1 and paths[0].kind == "return", "outcome %s" % [(p.kind, p.value) for p in paths]
    if ok:
        b = paths[0].interp.args[0]
        nb = RatFun.of(b.attrs.get("current_beat"))
        lst = b.attrs.get("bar")
        if nb is None or not nb.same(RatFun(cb.num * v1.num - v1.den * cb.den, cb.den * v1.num)):
            ok, why = False, "current beat becomes %r, expected the beat the last entry started on (beat - 1/value)" % (b.attrs.get("current_beat"),)
        elif not (isinstance(lst, list) and len(lst) == 1 and lst[0] is e0):
            ok, why = False, "entries become %r, expected all but the last" % (lst,)
    ctx.check(ok, R, "remove_last_entry", fi.where(), "Bar.remove_last_entry()", why)
    # in floats too: removing what was placed leaves exactly the beat it was placed on (no rounding residue that a
    # later place_notes_at(beat) would miss, no drift over place / remove cycles)
    fp = ctx.repo.find_method(ci, "place_notes")
    for label, values in (("quarter, triplet-half", [4, 3]), ("half, triplet-half", [2, 3]), ("sixth, fifth, seventh", [6, 5, 7])):
        def go(it, values=values):
            b = bar_obj(ci, bar=[], current_beat=0.0, length=1.0, meter=(4, 4), key=Opaque("key"))
            beats = []
            for v in values:
                beats.append(b.attrs["current_beat"])
                it.call_function(fp, [b, None, v], {})
            after = []
            for _ in values:
                it.call_function(fi, [b], {})
                after.append(b.attrs["current_beat"])
            return beats, after
        ps = explore(lambda ch: Interp(ctx.repo, ch), go)
        ok_ = len(ps) == 1 and ps[0].kind == "return" and list(reversed(ps[0].value[0])) == ps[0].value[1]
        ctx.check(ok_, R, "remove_last_entry.exact[%s]" % label, fi.where(), "place %s, then remove them again" % values,
                  "the current beat after each removal is %s, the entries had started on %s" % (
                      ps[0].value[1] if len(ps) == 1 and ps[0].kind == "return" else [(p_.kind, p_.value) for p_ in ps],
                      list(reversed(ps[0].value[0])) if len(ps) == 1 and ps[0].kind == "return" else "?"))


def rule_derived(ctx, ci):
    R = "R-C13-4"
    repo = ctx.repo
    cb, ln = RatFun.var("beat"), RatFun.var("length")
    f = repo.find_method(ci, "space_left")
    paths = run_method(repo, f, lambda: [bar_obj(ci, current_beat=cb, length=ln)])
    want = RatFun(ln.num * cb.den - cb.num * ln.den, ln.den * cb.den)
    r = RatFun.of(paths[0].value) if len(paths) == 1 and paths[0].kind == "return" else None
    ctx.check(r is not None and r.same(want), R, "space_left", f.where(), "Bar.space_left()", "space left is %r, expected length - beat" % (r,))
    f = repo.find_method(ci, "value_left")
    paths = run_method(repo, f, lambda: [bar_obj(ci, current_beat=cb, length=ln)])
    r = RatFun.of(paths[0].value) if len(paths) == 1 and paths[0].kind == "return" else None
    ctx.check(r is not None and r.same(RatFun(want.den, want.num)), R, "value_left", f.where(), "Bar.value_left()", "value left is %r, expected 1/(length - beat)" % (r,))
    # set_meter
    f = repo.find_method(ci, "set_meter")
    m0, m1 = RatFun.var("count"), RatFun.var("unit")
    vb = lambda res: {"mingus.core.meter.valid_beat_duration": recorder("vbd", res)}
    paths = run_method(repo, f, lambda: [bar_obj(ci), (m0, m1)], summaries=vb(True))
    ok, why = len(paths) == 1 and paths[0].kind == "return", "outcome %s" % [(p.kind, p.value) for p in paths]
    if ok:
        b = paths[0].interp.args[0]
        L = RatFun.of(b.attrs.get("length"))
        mt = b.attrs.get("meter")
        arg = log_of(paths[0].interp)[0][1][0]
        if not (isinstance(mt, tuple) and mt[0] is m0 and mt[1] is m1) or L is None or not L.same(RatFun(m0.num * m1.den, m0.den * m1.num)) or arg is not m1:
            ok, why = False, "meter=%r length=%r (validity asked of %r); expected (count, unit), count/unit, unit" % (mt, b.attrs.get("length"), arg)
    ctx.check(ok, R, "set_meter.valid", f.where(), "Bar.set_meter((count, unit)) with a valid unit", why)
    paths = run_method(repo, f, lambda: [bar_obj(ci), (0, 0)], summaries=vb(False))
    b = paths[0].interp.args[0] if paths else None
    ok = len(paths) == 1 and paths[0].kind == "return" and b.attrs.get("meter") == (0, 0) and b.attrs.get("length") == 0.0
    ctx.check(ok, R, "set_meter.(0,0)", f.where(), "Bar.set_meter((0, 0))", "the unbounded meter gives %s" % [(p.kind, p.value) for p in paths])
    paths = run_method(repo, f, lambda: [bar_obj(ci), (3, 7)], summaries=vb(False))
    ok = bool(paths) and all(p.kind == "raise" and p.value == "MeterFormatError" for p in paths)
    ctx.check(ok, R, "set_meter.invalid", f.where(), "Bar.set_meter((3, 7))", "an invalid unit gives %s" % [(p.kind, p.value) for p in paths])
    # '+': place with the beat unit (4 for the unbounded meter)
    f = repo.find_method(ci, "__add__")
    rec = record_class(repo, BAR, "Bar", ["place_notes"], result=Opaque("placed"))
    x = Opaque("content")
    for meter, want in (((3, 8), 8), ((0, 0), 4), ((6, 16), 16)):
        paths = run_method(repo, f, lambda: [bar_obj(ci, meter=meter), x], summaries=rec)
        ok = len(paths) == 1 and paths[0].kind == "return" and [e[1][1:] for e in log_of(paths[0].interp)] == [[x, want]]
        ctx.check(ok, R, "__add__%s" % (meter,), f.where(), "Bar + content in %s" % (meter,), "'+' must place the content with value %d" % want)
    # is_full
    f = repo.find_method(ci, "is_full")
    cases = [("unbounded", 0.0, FInt(0, 100), [[1, 1, None]], False), ("empty", 1.0, 0.0, [], False),
             ("exactly-full", 1.0, 1.0, [[0, 1, None]], True), ("within-tolerance", 1.0, FInt(Fraction(9991, 10000), 1), [[0, 1, None]], True),
             ("not-full", 1.0, FInt(0, Fraction(9989, 10000)), [[0, 2, None]], False), ("zero-length", 0.0, 0.25, [[0, 4, None]], True), ("3/4-full", 0.75, FInt(Fraction(7491, 10000), Fraction(3, 4)), [[0, 1, None]], True)]
    for label, ln_, cb_, entries, want in cases:
        def mk_interp(ch):
            it = Interp(repo, ch)
            fint_builtin_wrap(it)
            return it
        meter_ = (0, 0) if label == "unbounded" else ((0, 4) if label == "zero-length" else (4, 4))
        paths = explore(mk_interp, lambda it: it.call_function(f, [bar_obj(ci, length=ln_, current_beat=cb_, bar=list(entries), meter=meter_)], {}))
        ok = bool(paths) and all(p.kind == "return" and p.value is want for p in paths)
        ctx.check(ok, R, "is_full[%s]" % label, f.where(), "Bar.is_full() [%s]" % label, "gives %s, expected %s" % ([(p.kind, p.value) for p in paths], want))


def rule_slots(ctx, ci):
    R = "R-C13-5"
    repo = ctx.repo
    nci = repo.mod(NC).cls("NoteContainer")
    f = repo.find_method(ci, "__setitem__")
    newc = stub(repo, NC, "NoteContainer", name="new")

    def entries():
        return [[Opaque("b0"), Opaque("v0"), Opaque("c0")], [Opaque("b1"), Opaque("v1"), Opaque("c1")]]
    paths = run_method(repo, f, lambda: [bar_obj(ci, bar=entries(), current_beat=Opaque("cb")), 1, newc])
    ok, why = len(paths) == 1 and paths[0].kind == "return", "outcome %s" % [(p.kind, p.value) for p in paths]
    if ok:
        lst = paths[0].interp.args[0].attrs["bar"]
        if not (len(lst) == 2 and lst[1][2] is newc and [getattr(x, "tag", None) for x in lst[0]] == ["b0", "v0", "c0"]
                and [getattr(x, "tag", None) for x in lst[1][:2]] == ["b1", "v1"]):
            ok, why = False, "entries become %r: only the content slot of the indexed entry may change" % (lst,)
    ctx.check(ok, R, "__setitem__", f.where(), "bar[i] = content", why)
    f = repo.find_method(ci, "place_notes_at")
    at = 0.5
    extra = Opaque("extra")

    def mk():
        c = [stub(repo, NC, "NoteContainer", name="c%d" % i) for i in range(3)]
        return [bar_obj(ci, bar=[[0.0, 4, c[0]], [0.5, 4, c[1]], [0.75, 4, c[2]]]), extra, at]
    rec = record_class(repo, NC, "NoteContainer", ["__add__", "__iadd__", "add_notes"], result=lambda it, a, k: a[0])
    paths = run_method(repo, f, mk, summaries=rec)
    ok, why = len(paths) == 1 and paths[0].kind == "return", "outcome %s" % [(p.kind, p.value) for p in paths]
    if ok:
        lst = paths[0].interp.args[0].attrs["bar"]
        touched = [e[1][0].name for e in log_of(paths[0].interp)]
        if touched != ["c1"] or [x[0] for x in lst] != [0.0, 0.5, 0.75] or [x[1] for x in lst] != [4, 4, 4]:
            ok, why = False, "notes are added to %s (expected only the entry starting at beat %s); beats/values %s" % (touched, at, [x[:2] for x in lst])
    ctx.check(ok, R, "place_notes_at", f.where(), "Bar.place_notes_at(notes, beat)", why)
    f = repo.find_method(ci, "empty")
    paths = run_method(repo, f, lambda: [bar_obj(ci, bar=[[0, 1, None]], current_beat=1.0, length=1.0)])
    b = paths[0].interp.args[0] if paths else None
    ok = len(paths) == 1 and b.attrs.get("bar") == [] and b.attrs.get("current_beat") == 0.0 and b.attrs.get("length") == 1.0
    ctx.check(ok, R, "empty", f.where(), "Bar.empty()", "empty() must reset entries and the current beat together")


def rule_gate(ctx, ci, R="R-C13-6"):
    """The accepting comparison decides like exact rational arithmetic."""
    nc = stub(ctx.repo, NC, "NoteContainer", name="content")
    fi, (cb, ln, d), paths = _place_paths(ctx, ci, lambda: nc)
    total = RatFun(cb.num * d.num + d.den * cb.den, cb.den * d.num)
    gates = []
    unbounded = False
    for p in paths:
        for e in log_of(p.interp):
            if e[0] != "cmp":
                continue
            op, a, b = e[1], e[2], e[3]
            if op in ("Eq", "NotEq"):
                if (a.same(ln) and b.same(0)) or (b.same(ln) and a.same(0)):
                    unbounded = True
                continue
            lhs, rhs = (a, b) if op in ("LtE", "Lt") else (b, a)
            diff = RatFun(rhs.num * lhs.den - lhs.num * rhs.den, rhs.den * lhs.den)  # rhs - lhs
            base = RatFun(ln.num * total.den - total.num * ln.den, ln.den * total.den)  # length - (beat + 1/value)
            tol = RatFun(diff.num * base.den - base.num * diff.den, diff.den * base.den)  # (rhs - lhs) - (length - total)
            gates.append((op, tol))
    why = ""
    ok = bool(gates)
    if not ok:
        why = "no ordering comparison decides acceptance"
    for op, tol in gates:
        num, den = tol.num, tol.den
        const = None
        if not num.terms:
            const = Fraction(0)
        elif set(num.terms) == set(den.terms):
            ratios = {num.terms[m] / den.terms[m] for m in num.terms}
            if len(ratios) == 1:
                const = ratios.pop()
        if const is None:
            ok, why = False, "the accepting comparison is not 'beat + 1/value <= length (+ tolerance)': it differs from it by %r" % (tol,)
            break
        if not (TOL_MIN <= const <= TOL_MAX) or op not in ("LtE", "Lt"):
            ok, why = False, ("the gate compares float running sums with tolerance %s: accumulated rounding error (about 1e-13 per bar) "
                              "makes it refuse placements whose exact total equals the bar length (e.g. the 20th quintuplet-sixteenth in 4/4); "
                              "a tolerance between %s and %s decides exactly like rational arithmetic" % (float(const), float(TOL_MIN), float(TOL_MAX)))
            break
    ctx.check(ok, R, "gate", fi.where(), "Bar.place_notes: accepting comparison", why)
    # the unbounded (0, 0) meter always accepts; a bar of length zero in another meter, e.g. (0, 4), accepts nothing
    for label, meter_, want in (("(0, 0)", (0, 0), True), ("(0, 4)", (0, 4), False)):
        def go(it, meter_=meter_):
            b = bar_obj(ci, bar=[], current_beat=0.0, length=0.0, meter=meter_, key=Opaque("key"))
            return it.call_function(fi, [b, nc, 4], {}), len(b.attrs["bar"])
        ps = explore(lambda ch: Interp(ctx.repo, ch), go)
        ok_ = len(ps) == 1 and ps[0].kind == "return" and ps[0].value == (want, 1 if want else 0)
        ctx.check(ok_, R, "gate.unbounded%s" % label, fi.where(), "Bar.place_notes in meter %s (length 0)" % label,
                  "a quarter note placed in an empty bar of meter %s gives %s: %s" % (label, [(p_.kind, p_.value) for p_ in ps],
                                                                                   "the unbounded meter must always accept" if want else "a bar of length zero has no room"))
