"""C04 -- keys (mingus/core/keys.py, intervals.interval)."""
from __future__ import annotations

from ..engine.absval import Lin, Sym, Ch, Run, AbsStr, Rep, Sel, Opaque, AObj, INF
from ..engine.absint import CannotDecide, Interp, explore
from ..engine.loader import AnalysisError, short
from ..engine import notesdom as nd
from ..engine.notesdom import paths_of, NAT, LETTERS

PROP = "C04"
EXPLANATION = (
    "Static rules over mingus/core/keys.py and intervals.interval: the key table and its two column tables are "
    "constant-folded and compared with a circle-of-fifths oracle; get_notes, get_key_signature, "
    "get_key_signature_accidentals, relative_major/minor and Key.__init__ are *specialised* (partially "
    "evaluated by the abstract evaluator) to each of the 30 rows of that constant table and the residual "
    "constants compared with the oracle; get_key is evaluated on a symbolic signature (in range: row selection "
    "index == signature + offset; out of range: RangeError on both unbounded sides); the rejection clauses are "
    "evaluated on malformed-key classes; the diatonic steps second..seventh are evaluated for 30 keys x 7 "
    "letters x symbolic accidentals.")
TRUSTED = ["CPython ast module", "mingus_static abstract evaluator", "circle-of-fifths oracle in engine/notesdom.py (self-checked against the major / natural-minor step patterns)"]
NOT_DECIDED = "transparency of the _key_cache memo under mutation of returned lists (decided under C15)"

K = "mingus.core.keys"
I = "mingus.core.intervals"


def run(ctx):
    repo = ctx.repo
    mod = repo.mod(K)
    imod = repo.mod(I)
    ctx.touch(mod, imod)
    table = nd.oracle_key_table()
    all_keys = [(ma, "major", i - 7) for i, (ma, mi) in enumerate(table)] + \
               [(mi, "minor", i - 7) for i, (ma, mi) in enumerate(table)]
    rule_tables(ctx, mod, table)
    rule_notes(ctx, mod, all_keys)
    rule_asked_again(ctx, mod, all_keys)
    rule_signature(ctx, mod, table, all_keys)
    rule_rejections(ctx, mod, table)
    rule_relatives(ctx, mod, table)
    rule_key_object(ctx, mod, all_keys)
    rule_steps(ctx, imod, all_keys)
    ctx.floor("R-C04-1", 4)
    ctx.floor("R-C04-N", 30)
    ctx.floor("R-C04-2", 30 + 15 + 2)
    ctx.floor("R-C04-4", 30)
    ctx.floor("R-C04-5", 30 + 2)
    ctx.floor("R-C04-6", 30)
    ctx.floor("R-C04-7", 30 * 7)


def _single(paths):
    return paths[0] if len(paths) == 1 else None


def rule_tables(ctx, mod, table):
    R = "R-C04-1"
    for name, want in (("keys", table), ("major_keys", [r[0] for r in table]), ("minor_keys", [r[1] for r in table]),
                       ("base_scale", list(LETTERS))):
        node = mod.glob(name)
        try:
            got = mod.const(name)
        except Exception as e:
            raise AnalysisError("%s.%s is not a constant table: %s" % (K, name, e))
        got_n = [tuple(r) if isinstance(r, (list, tuple)) else r for r in got]
        want_n = [tuple(r) if isinstance(r, (list, tuple)) else r for r in want]
        bad = [i for i, (g, w) in enumerate(zip(got_n, want_n)) if g != w]
        ctx.check(got_n == want_n, R, name, mod.where(node), "%s = %s" % (name, short(node, 60)),
                  "table %s differs from the circle-of-fifths oracle at rows %s (have %s, theory %s)"
                  % (name, bad or "length", [got_n[i] for i in bad][:3], [want_n[i] for i in bad][:3]))


def rule_notes(ctx, mod, all_keys):
    R = "R-C04-N"
    fi = mod.func("get_notes")
    ctx.touch(fi, mod.func("get_key_signature_accidentals"), mod.func("is_valid_key"))
    for key, mode, sig in all_keys:
        want, _ = nd.oracle_key_notes(key)
        try:
            paths = paths_of(ctx.repo, fi, [key])
        except CannotDecide as e:
            raise AnalysisError("get_notes(%r): %s" % (key, e))
        p = _single(paths)
        ok = p is not None and p.kind == "return" and p.value == want
        ctx.check(ok, R, "get_notes[%s]" % key, fi.where(), "get_notes(%r)" % key,
                  "specialising get_notes to the table row %r leaves %s, theory says %s"
                  % (key, [(q.kind, q.value) for q in paths], want))
    # accidentals of the signature, in circle-of-fifths order
    fa = mod.func("get_key_signature_accidentals")
    for key, mode, sig in all_keys:
        want = nd.oracle_signature_accidentals(sig)
        paths = paths_of(ctx.repo, fa, [key])
        p = _single(paths)
        ok = p is not None and p.kind == "return" and p.value == want
        ctx.check(ok, R, "signature_accidentals[%s]" % key, fa.where(), "get_key_signature_accidentals(%r)" % key,
                  "signature accidentals of %r: %s, theory says %s" % (key, [(q.kind, q.value) for q in paths], want))


def rule_asked_again(ctx, mod, all_keys):
    """'For each key' holds whenever the key is asked for: the answer for a key, and for its relative, is the same after
    an earlier answer has been edited by its receiver."""
    R = "R-C04-1"
    from ..engine.absint import RaiseEx
    for fname, oracle in (("get_notes", lambda key, sig: nd.oracle_key_notes(key)[0]), ("get_key_signature_accidentals", lambda key, sig: nd.oracle_signature_accidentals(sig))):
        fi = mod.func(fname)
        for key, mode, sig in all_keys:
            rel = [k for k, m_, s_ in all_keys if s_ == sig and k != key][0]

            def go(it, key=key, rel=rel, fi=fi):
                first = it.call_function(fi, [key], {})
                if isinstance(first, list):
                    first.append("X")
                    first.reverse()
                return it.call_function(fi, [key], {}), it.call_function(fi, [rel], {})
            try:
                ps = explore(lambda ch: Interp(ctx.repo, ch), go)
            except CannotDecide as e:
                raise AnalysisError("%s(%r) asked again: %s" % (fname, key, e))
            ok = len(ps) == 1 and ps[0].kind == "return" and list(ps[0].value[0]) == oracle(key, sig) and list(ps[0].value[1]) == oracle(rel, sig)
            ctx.check(ok, R, "%s.again[%s]" % (fname, key), fi.where(), "%s(%r), the answer edited, then %s(%r) and %s(%r)" % (fname, key, fname, key, fname, rel),
                      "after the first answer was edited the library answers %s, theory says %s and %s" % (
                          [(q.kind, short(repr(q.value), 90)) for q in ps], oracle(key, sig), oracle(rel, sig)))


def rule_signature(ctx, mod, table, all_keys):
    R = "R-C04-2"
    fs = mod.func("get_key_signature")
    fk = mod.func("get_key")
    ctx.touch(fs, fk)
    for key, mode, sig in all_keys:
        paths = paths_of(ctx.repo, fs, [key])
        p = _single(paths)
        ok = p is not None and p.kind == "return" and p.value == sig and isinstance(p.value, int)
        ctx.check(ok, R, "get_key_signature[%s]" % key, fs.where(), "get_key_signature(%r)" % key,
                  "signature of %r: %s, theory says %d" % (key, [(q.kind, q.value) for q in paths], sig))
    n = Sym("accidentals", -7, 7)
    paths = paths_of(ctx.repo, fk, [Lin.of(n)])
    p = _single(paths)
    if p is None or p.kind != "return" or not isinstance(p.value, Sel):
        ctx.violated(R, "get_key.select", fk.where(), "get_key(n)", "for -7 <= n <= 7 the result is not one table row selected by n: %r" % (paths,))
    else:
        sel = p.value
        off = sel.index - Lin.of(n)
        if not off.is_const():
            ctx.violated(R, "get_key.select", fk.where(), "get_key(n)", "row index %s is not n + constant" % sel.index)
        else:
            for s in range(-7, 8):
                i = s + off.const
                row = tuple(sel.table[i]) if 0 <= i < len(sel.table) else None
                ctx.check(row == table[s + 7], R, "get_key[%d]" % s, fk.where(), "get_key(%d)" % s,
                          "get_key(%d) selects %r, theory says %r; lookup by number and signature of key are not inverse" % (s, row, table[s + 7]))
    for label, sym in (("below", Sym("accidentals", -INF, -8)), ("above", Sym("accidentals", 8, INF))):
        paths = paths_of(ctx.repo, fk, [Lin.of(sym)])
        ok = bool(paths) and all(q.kind == "raise" and q.value == "RangeError" for q in paths)
        ctx.check(ok, R, "get_key.range." + label, fk.where(), "get_key(n) for n %s -7..7" % label,
                  "signature numbers %s -7..7 are not all rejected with RangeError: %r" % (label, paths))


    # a signature number written as a float: the number it equals is answered (or it is refused with the range error),
    # never another exception
    for num, want in ((1.0, table[8]), (-7.0, table[0]), (0.0, table[7]), (7.0, table[14]), (8.0, None), (-8.0, None)):
        paths = paths_of(ctx.repo, fk, [num])
        p = _single(paths)
        got = None if p is None else (p.kind, tuple(p.value) if isinstance(p.value, (list, tuple)) else p.value)
        if want is None:
            ok = got == ("raise", "RangeError")
        else:
            ok = got in (("return", tuple(want)), ("raise", "RangeError"))
        ctx.check(ok, R, "get_key[%r]" % num, fk.where(), "get_key(%r)" % num,
                  "get_key(%r) gives %s; expected %s" % (num, got, "RangeError" if want is None else "%r (or RangeError)" % (tuple(want),)))


def _malformed(table):
    heads = {k[0] for row in table for k in row}
    other = nd.other_class(heads, "FOREIGN")
    return [("foreign-first-char", AbsStr([other])), ("foreign+tail", AbsStr([other, "b"])),
            ("G#", "G#"), ("Fb", "Fb"), ("cb", "cb"), ("e#", "e#"), ("C major", "C major"), ("cc", "cc"), ("empty", "")]


def rule_rejections(ctx, mod, table):
    R = "R-C04-4"
    for fname in ("get_key_signature", "get_notes"):
        fi = mod.func(fname)
        for label, s in _malformed(table):
            try:
                paths = paths_of(ctx.repo, fi, [s])

                def twice(it, fi=fi, s=s):
                    from ..engine.absint import RaiseEx
                    out = []
                    for _ in range(2):
                        try:
                            out.append(("return", it.call_function(fi, [s], {})))
                        except RaiseEx as r:
                            out.append(("raise", r.exc))
                    return out
                again = explore(lambda ch: Interp(ctx.repo, ch), twice)
            except CannotDecide as e:
                raise AnalysisError("%s(<%s>): %s" % (fname, label, e))
            ok = bool(paths) and all(q.kind == "raise" and q.value == "NoteFormatError" for q in paths)
            ctx.check(ok, R, "%s.rejects[%s]" % (fname, label), fi.where(), "%s(<%s>)" % (fname, label),
                      "unknown key (%s) gives %s instead of NoteFormatError" % (label, [(q.kind, q.value) for q in paths]))
            ok2 = bool(again) and all(q.kind == "return" and all(o == ("raise", "NoteFormatError") for o in q.value) for q in again)
            ctx.check(ok2, R, "%s.rejects-again[%s]" % (fname, label), fi.where(), "%s(<%s>) asked twice" % (fname, label),
                      "the second request for the same unknown key (%s) gives %s: a failed lookup must not leave an entry in the memo" % (
                          label, [q.value for q in again][:2]))
    # the key object rejects them the same way
    ci = mod.cls("Key")
    init = ctx.repo.find_method(ci, "__init__")
    for label, s in _malformed(table):
        try:
            paths = paths_of(ctx.repo, init, lambda s=s: [AObj(ci, {}, name="key_obj"), s])
        except CannotDecide as e:
            raise AnalysisError("Key(<%s>): %s" % (label, e))
        ok = bool(paths) and all(q.kind == "raise" and q.value == "NoteFormatError" for q in paths)
        ctx.check(ok, R, "Key.rejects[%s]" % label, init.where(), "Key(<%s>)" % label,
                  "unknown key (%s) gives %s instead of NoteFormatError" % (label, sorted({(q.kind, q.value if q.kind == "raise" else "...") for q in paths})))
    fv = mod.func("is_valid_key")
    for label, s in _malformed(table):
        paths = paths_of(ctx.repo, fv, [s])
        ok = bool(paths) and all(q.kind == "return" and q.value is False for q in paths)
        ctx.check(ok, R, "is_valid_key[%s]" % label, fv.where(), "is_valid_key(<%s>)" % label,
                  "is_valid_key accepts a non-key (%s): %r" % (label, [(q.kind, q.value) for q in paths]))


def rule_relatives(ctx, mod, table):
    R = "R-C04-5"
    rmaj, rmin = mod.func("relative_major"), mod.func("relative_minor")
    ctx.touch(rmaj, rmin)
    for ma, mi in table:
        for fi, arg, want in ((rmin, ma, mi), (rmaj, mi, ma)):
            paths = paths_of(ctx.repo, fi, [arg])
            p = _single(paths)
            ok = p is not None and p.kind == "return" and p.value == want
            ctx.check(ok, R, "%s[%s]" % (fi.name, arg), fi.where(), "%s(%r)" % (fi.name, arg),
                      "%s(%r) gives %s, the table pairs it with %r" % (fi.name, arg, [(q.kind, q.value) for q in paths], want))
    for fi, arg in ((rmin, "a"), (rmaj, "C")):
        paths = paths_of(ctx.repo, fi, [arg])
        ok = bool(paths) and all(q.kind == "raise" and q.value == "NoteFormatError" for q in paths)
        ctx.check(ok, R, "%s.rejects[%s]" % (fi.name, arg), fi.where(), "%s(%r)" % (fi.name, arg),
                  "a key of the wrong mode gives %s instead of NoteFormatError" % [(q.kind, q.value) for q in paths])


def rule_key_object(ctx, mod, all_keys):
    R = "R-C04-6"
    ci = mod.cls("Key")
    init = ctx.repo.find_method(ci, "__init__")
    if init is None:
        raise AnalysisError("Key.__init__ vanished")
    ctx.touch(init)
    for key, mode, sig in all_keys:
        holder = {}

        def mk_args():
            holder["o"] = AObj(ci, {}, name="key_obj")
            return [holder["o"], key]
        paths = paths_of(ctx.repo, init, mk_args)
        acc = {"#": "sharp ", "b": "flat "}.get(key[1:2], "")
        want = {"key": key, "mode": mode, "signature": sig, "name": "%s %s%s" % (key[0].upper(), acc, mode)}
        ok = len(paths) == 1 and paths[0].kind == "return"
        got = {}
        if ok:
            o = holder["o"]
            got = {k: o.attrs.get(k) for k in want}
            ok = got == want
        ctx.check(ok, R, "Key[%s]" % key, init.where(), "Key(%r)" % key,
                  "Key(%r) reports %s, expected %s" % (key, got or paths, want))


def rule_steps(ctx, imod, all_keys):
    R = "R-C04-7"
    names = ["second", "third", "fourth", "fifth", "sixth", "seventh"]
    fis = [imod.func(n) for n in names]
    ctx.touch(imod.func("interval"), *fis)
    for key, mode, sig in all_keys:
        knotes, _ = nd.oracle_key_notes(key)
        for L in LETTERS:
            bad = []
            for k, fi in enumerate(fis, start=1):
                run = nd.acc_run("R")
                try:
                    paths = paths_of(ctx.repo, fi, [AbsStr([L, run]), key])
                except CannotDecide as e:
                    raise AnalysisError("%s(%s.., %r): %s" % (fi.name, L, key, e))
                idx = [n[0] for n in knotes].index(L)
                want = knotes[(idx + k) % 7]
                if not (paths and all(p.kind == "return" and p.value == want for p in paths)):
                    bad.append((fi.name, [(p.kind, p.value) for p in paths], want))
            ctx.check(not bad, R, "steps[%s,%s]" % (key, L), fis[0].where(), "second..seventh(%s.., %r)" % (L, key),
                      "diatonic step from letter %s in key %r: %s" % (L, key, bad[:2]))
