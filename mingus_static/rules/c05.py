"""C05 -- scales (mingus/core/scales.py)."""
from __future__ import annotations

import ast

from ..engine.absval import Lin, Sym, Ch, Run, AbsStr, Rep, Sel, Opaque, AObj, AIter, RepList, AClass, INF
from ..engine.absint import CannotDecide, Interp, explore, RaiseEx
from ..engine.loader import AnalysisError, short
from ..engine import notesdom as nd
from ..engine.notesdom import paths_of, NAT, LETTERS

PROP = "C05"
EXPLANATION = (
    "Static rules over mingus/core/scales.py: every scale class is instantiated abstractly (tonic = 7 letters x "
    "symbolic accidentals for the interval-built scales, each row of the constant key table for the key-built "
    "ones; octave count a symbol n >= 1) and ascending()/descending() are evaluated in the offset domain; the "
    "result must be period * n + [period[0]] with the period's (letter, semitone) list equal to the defining step "
    "pattern, and descending the exact reverse (melodic minor / minor Neapolitan: their documented forms); "
    "degree() is evaluated with a symbolic degree number for both directions (value kinds: an iterator is not "
    "subscriptable); scales.determine is evaluated under comparison policies that expose which note sets it "
    "tests and which names it appends, and compared with the oracle's scale sets for all 15 key pairs x 7 "
    "major/minor-family classes.")
TRUSTED = ["CPython ast module", "mingus_static abstract evaluator", "C01/C02/C04 summaries (engine/notesdom.interval_model)",
           "step-pattern oracle PATTERNS in rules/c05.py"]
NOT_DECIDED = ("per-tonic validity domains beyond the key table for key-built scales; __eq__/__len__ beyond being "
               "defined through the note lists; behaviour of recognition on note *spellings* outside the key spellings")

S = "mingus.core.scales"

MAJ = [2, 2, 1, 2, 2, 2, 1]


def rot(p, k):
    return p[k:] + p[:k]


PATTERNS = {  # ascending step patterns
    "Ionian": rot(MAJ, 0), "Dorian": rot(MAJ, 1), "Phrygian": rot(MAJ, 2), "Lydian": rot(MAJ, 3),
    "Mixolydian": rot(MAJ, 4), "Aeolian": rot(MAJ, 5), "Locrian": rot(MAJ, 6),
    "Major": rot(MAJ, 0), "HarmonicMajor": [2, 2, 1, 2, 1, 3, 1],
    "NaturalMinor": rot(MAJ, 5), "HarmonicMinor": [2, 1, 2, 2, 1, 3, 1],
    "MelodicMinor": [2, 1, 2, 2, 2, 2, 1], "Bachian": [2, 1, 2, 2, 2, 2, 1],
    "MinorNeapolitan": [1, 2, 2, 2, 1, 3, 1],
    "WholeTone": [2] * 6, "Octatonic": [2, 1] * 4, "Chromatic": [1] * 12,
}
# descending forms that are not the reverse of ascending (given as ascending-order step patterns)
DESC_PATTERNS = {"MelodicMinor": rot(MAJ, 5), "MinorNeapolitan": [1, 2, 2, 2, 1, 2, 2]}
HEPTATONIC = {k for k, v in PATTERNS.items() if len(v) == 7}
ANY_TONIC = ["Ionian", "Dorian", "Phrygian", "Lydian", "Mixolydian", "Aeolian", "Locrian", "WholeTone", "Octatonic"]
MAJOR_KEYED = ["Major", "HarmonicMajor"]
MINOR_KEYED = ["NaturalMinor", "HarmonicMinor", "MelodicMinor", "Bachian", "MinorNeapolitan"]
FAMILY = {"major": MAJOR_KEYED, "minor": MINOR_KEYED}


def cum(pattern):
    out, t = [0], 0
    for s in pattern[:-1]:
        t += s
        out.append(t)
    assert t + pattern[-1] == 12
    return out


def instance(ctx, it, cname, tonic, octaves=None):
    ci = ctx.repo.mod(S).cls(cname)
    args = [tonic] + ([octaves] if octaves is not None else [])
    return it.call(AClass(ci), args, {}, None)


def eval_method(ctx, cname, tonic, method, octaves, extra_args=(), model=None):
    """Paths of <cname>(tonic, octaves).<method>(*extra_args)."""
    def mk(ch):
        return Interp(ctx.repo, ch, summaries=model)

    def run(it):
        obj = instance(ctx, it, cname, tonic, octaves)
        return it.call_method(obj, method, list(extra_args), {}, None)
    return explore(mk, run)


def tonic_domain(cname):
    """[(label, tonic value factory, root letter, root pitch Lin factory)]"""
    table = nd.oracle_key_table()
    out = []
    if cname in ANY_TONIC:
        for L in LETTERS:
            run = nd.acc_run("R")
            out.append((L + "..", AbsStr([L, run]), L, Lin.of(NAT[L]) + nd.run_net(run)))
    elif cname in MAJOR_KEYED:
        for ma, mi in table:
            out.append((ma, ma, ma[0], Lin.of(nd.pitch_of_concrete(ma))))
    elif cname in MINOR_KEYED:
        for ma, mi in table:
            t = mi[0].upper() + mi[1:]
            out.append((t, t, t[0], Lin.of(nd.pitch_of_concrete(t))))
    elif cname == "Chromatic":
        for ma, mi in table:
            for k in (ma, mi):
                t = k[0].upper() + k[1:]
                out.append((k, k, t[0], Lin.of(nd.pitch_of_concrete(t))))
    return out


def split_octaves(it, v, n):
    """v must denote period * n + [period[0]] -> (period, closing note), or a string describing the mismatch.
    The reverse of such a list, [first] + reversed(period) * n, is the same sequence and accepted too."""
    if isinstance(v, AIter):
        v = v.items
    if not isinstance(v, RepList):
        return "result %r is not <period> * octaves + [first]" % (v,)
    if not nd.same(it, v.count, Lin.of(n)):
        return "period repeated %s times instead of the octave count" % v.count
    if not v.head and len(v.tail) == 1:
        return v.period, v.tail[0]
    if len(v.head) == 1 and not v.tail and v.period:
        return v.head + v.period[:-1], v.period[-1]
    return "result has extra notes around the repeated period: %s" % short(repr(v), 200)


def formula_of(it, notes, L, root_pitch):
    return [nd.rel(it, x, L, root_pitch) for x in notes]


def want_formula(cname, pattern, descending=False):
    sem = cum(pattern)
    if cname in HEPTATONIC:
        f = [(i, s) for i, s in enumerate(sem)]
    else:
        f = [(None, s) for s in sem]
    if descending:
        f = [f[0]] + list(reversed(f[1:]))
    return f


def match(got, want):
    if len(got) != len(want):
        return False
    for g, w in zip(got, want):
        if not isinstance(g, tuple):
            return False
        if w[0] is not None and g[0] != w[0]:
            return False
        if g[1] != w[1] % 12:
            return False
    return True


def run(ctx):
    mod = ctx.repo.mod(S)
    ctx.touch(mod)
    model = nd.interval_model(ctx.repo)
    for c in PATTERNS:
        ci = mod.cls(c)
        for m in ci.methods.values():
            ctx.touch(m)
    rule_patterns(ctx, mod, model)
    rule_degree(ctx, mod, model)
    rule_recognition(ctx, mod, model)
    rule_after_edited_keys(ctx, mod)
    ctx.floor("R-C05-A", 100)
    ctx.floor("R-C05-D", 100)
    ctx.floor("R-C05-6", 17 * 2)
    ctx.floor("R-C05-7", 3)


def rule_patterns(ctx, mod, model):
    n = Sym("octaves", 1, INF)
    for cname, pattern in PATTERNS.items():
        ci = mod.cls(cname)
        for label, tonic, L, root_pitch in tonic_domain(cname):
            for direction in ("ascending", "descending"):
                R = "R-C05-A" if direction == "ascending" else "R-C05-D"
                if direction == "ascending":
                    want = want_formula(cname, pattern)
                else:
                    want = want_formula(cname, DESC_PATTERNS.get(cname, pattern), descending=True)
                try:
                    runs = [(None, eval_method(ctx, cname, tonic, direction, Lin.of(n), model=model))]
                except (CannotDecide, nd.Shape) as e:
                    # the method does more with the octave count than repeat one period: specialise the count
                    ctx.note(R, "%s(%s).%s() is not <period> * octaves + [tonic] for a symbolic octave count (%s); specialised to 1, 2, 3 octaves"
                             % (cname, label, direction, short(str(e), 90)))
                    try:
                        runs = [(k, eval_method(ctx, cname, tonic, direction, k, model=model)) for k in (1, 2, 3)]
                    except (CannotDecide, nd.Shape) as e2:
                        if not isinstance(tonic, AbsStr):
                            raise AnalysisError("%s(%s).%s(): %s" % (cname, label, direction, e2))
                        # the method cannot be followed for a tonic with unknown accidentals either: the tonic is specialised
                        # to the spellings the property names (up to double accidentals), with the real code
                        ctx.note(R, "%s(%s).%s() cannot be evaluated for unknown accidentals (%s); specialised to '', '#', 'b', '##', 'bb'"
                                 % (cname, label, direction, short(str(e2), 90)))
                        runs = []
                        for acc in ("", "#", "b", "##", "bb"):
                            t_ = L + acc
                            try:
                                ps_ = eval_method(ctx, cname, t_, direction, 1, model=model)
                            except (CannotDecide, nd.Shape) as e3:
                                raise AnalysisError("%s(%s).%s(): %s" % (cname, t_, direction, e3))
                            runs.append((1, ps_, Lin.of(NAT[L] + acc.count("#") - acc.count("b")), t_))
                ok, why = True, ""
                for entry in runs:
                    k, paths = entry[0], entry[1]
                    root_pitch_ = entry[2] if len(entry) > 2 else root_pitch
                    tlabel = entry[3] if len(entry) > 3 else label
                    if not paths:
                        ok, why = False, "no outcome"
                    for p in paths:
                        if p.kind != "return":
                            ok, why = False, "%s(%s): %s %r" % (cname, tlabel, p.kind, p.value)
                            break
                        if k is None:
                            rl = split_octaves(p.interp, p.value, n)
                        else:
                            v = p.value.items if isinstance(p.value, AIter) else p.value
                            if not isinstance(v, list) or len(v) != len(want) * k + 1:
                                rl = "with octaves=%d the result has %s notes instead of %d * %d + 1" % (
                                    k, len(v) if isinstance(v, list) else repr(v), k, len(want))
                            else:
                                fs = formula_of(p.interp, v, L, root_pitch_)
                                if any(fs[j] != fs[j % len(want)] for j in range(len(want) * k)):
                                    rl = "with octaves=%d the octaves differ from each other: %s" % (k, fs)
                                else:
                                    rl = (v[:len(want)], v[-1])
                        if isinstance(rl, str):
                            ok, why = False, rl
                            break
                        got = formula_of(p.interp, rl[0], L, root_pitch_)
                        last = formula_of(p.interp, [rl[1]], L, root_pitch_)
                        if not match(got, want):
                            ok, why = False, "one octave is (letters up, semitones) %s, the defining pattern %s gives %s" % (
                                got, pattern if direction == "ascending" else "reversed", want)
                            break
                        if last != [(0, 0)]:
                            ok, why = False, "does not end on the tonic: %s" % (last,)
                            break
                    if not ok:
                        break
                ctx.check(ok, R, "%s[%s].%s" % (cname, label, direction), ci.module.where(ci.node),
                          "%s(%s, n).%s()" % (cname, label, direction), why)
        fi = ctx.repo.find_method(ci, "__len__")
    # length/equality are defined through the note lists
    base = mod.cls("_Scale")
    for mname in ("__len__", "__eq__"):
        fi = base.methods.get(mname)
        if fi is None:
            raise AnalysisError("_Scale.%s vanished" % mname)
        import ast as _ast
        called = {c.func.attr for c in _ast.walk(fi.node) if isinstance(c, _ast.Call) and isinstance(c.func, _ast.Attribute)}
        need = {"ascending"} if mname == "__len__" else {"ascending", "descending"}
        ctx.check(need <= called, "R-C05-A", "_Scale.%s" % mname, fi.where(), "_Scale.%s" % mname,
                  "%s no longer consults %s" % (mname, sorted(need - called)))
    # ... and semantically: equality / length of concrete pairs must be the equality / length of their note lists
    def build(it, spec):
        cname, args = spec
        return it.call(AClass(mod.cls(cname)), list(args), {}, None)
    pairs = [
        ("same scale, two objects", ("Major", ["C"]), ("Major", ["C"])),
        ("one vs two octaves", ("Major", ["C"]), ("Major", ["C", 2])),
        ("two vs two octaves", ("NaturalMinor", ["A", 2]), ("NaturalMinor", ["A", 2])),
        ("different semitone positions", ("Diatonic", ["C", (3, 7)]), ("Diatonic", ["C", (2, 6)])),
        ("same semitone positions", ("Diatonic", ["C", (3, 7)]), ("Diatonic", ["C", (3, 7)])),
        ("same class, other tonic", ("Dorian", ["D"]), ("Dorian", ["E"])),
        ("Ionian vs Major (same lists)", ("Ionian", ["C"]), ("Major", ["C"])),
        ("relative major / minor", ("Major", ["C"]), ("NaturalMinor", ["A"])),
        ("melodic vs natural minor (same descent)", ("MelodicMinor", ["A"]), ("NaturalMinor", ["A"])),
        ("chromatic in relative keys", ("Chromatic", ["C"]), ("Chromatic", ["a"])),
    ]
    for label, sa, sb in pairs:
        def go(it, sa=sa, sb=sb):
            x, y = build(it, sa), build(it, sb)
            lists = [it.call_method(o, m, [], {}, None) for o in (x, y) for m in ("ascending", "descending")]
            lists = [l.items if isinstance(l, AIter) else l for l in lists]
            return (it.compare(ast.Eq, x, y), it.compare(ast.NotEq, x, y), it.call_builtin("len", [x], {}), lists)
        try:
            ps = explore(lambda ch: Interp(ctx.repo, ch), go)
        except CannotDecide as e:
            raise AnalysisError("scale equality (%s): %s" % (label, e))
        ok, why = len(ps) == 1 and ps[0].kind == "return", "outcome %s" % [(p.kind, short(repr(p.value), 80)) for p in ps][:2]
        if ok:
            eq, ne, ln, (xa, xd, ya, yd) = ps[0].value
            want = (xa == ya and xd == yd)
            if eq is not want or ne is not (not want):
                ok, why = False, "== gives %r and != gives %r although the note lists are %s" % (eq, ne, "equal" if want else "different")
            elif ln != len(xa):
                ok, why = False, "len() gives %r, the ascending list has %d notes" % (ln, len(xa))
        ctx.check(ok, "R-C05-A", "_Scale.eq[%s]" % label, base.methods["__eq__"].where(), "%s(%s) == %s(%s)" % (sa[0], sa[1], sb[0], sb[1]), why)


def rule_degree(ctx, mod, model):
    R = "R-C05-6"
    for cname, pattern in PATTERNS.items():
        dom = tonic_domain(cname)
        label, tonic, L, root_pitch = dom[len(dom) // 2]
        size = len(pattern)
        for direction in ("a", "d"):
            k = Sym("degree", 1, size)
            try:
                paths = eval_method(ctx, cname, tonic, "degree", 1, [Lin.of(k), direction], model=model)
                ref = eval_method(ctx, cname, tonic, "ascending" if direction == "a" else "descending", 1, model=model)
            except (CannotDecide, nd.Shape) as e:
                raise AnalysisError("%s(%s).degree(k, %r): %s" % (cname, label, direction, e))
            ok, why = bool(paths), "no outcome"
            for p in paths:
                if p.kind != "return" or not isinstance(p.value, Sel):
                    ok, why = False, "for 1 <= k <= %d the lookup gives %s %r instead of a note of the scale" % (size, p.kind, p.value)
                    break
                sel = p.value
                if not nd.same(p.interp, sel.index, Lin.of(k) - 1):
                    ok, why = False, "degree k selects index %s instead of k - 1" % sel.index
                    break
                got = formula_of(p.interp, sel.table, L, root_pitch)
                rv = ref[0].value
                rv = rv.items if isinstance(rv, AIter) else rv
                if isinstance(rv, RepList):
                    raise AnalysisError("octaves=1 did not fold")
                want_list = list(rv)[:-1] if direction == "a" else list(reversed(list(rv)))[:-1]
                want = formula_of(ref[0].interp, want_list, L, root_pitch)
                if got != want:
                    ok, why = False, "degree table %s differs from the %s list %s" % (got, "ascending" if direction == "a" else "reversed descending", want)
                    break
            ctx.check(ok, R, "%s.degree[%s]" % (cname, direction), mod.where(mod.cls("_Scale").node),
                      "%s(%s).degree(k, %r)" % (cname, label, direction), why)
    # rejections
    cname = "Major"
    for label, args, exc in (("degree<1", [Lin.of(Sym("degree", -INF, 0)), "a"], "RangeError"),
                             ("bad-direction", [1, "x"], "FormatError")):
        paths = eval_method(ctx, cname, "C", "degree", 1, args, model=model)
        ok = bool(paths) and all(p.kind == "raise" and p.value == exc for p in paths)
        ctx.check(ok, R, "degree.rejects[%s]" % label, mod.where(mod.cls("_Scale").node), "degree(<%s>)" % label,
                  "%s gives %s instead of %s" % (label, [(p.kind, p.value) for p in paths], exc))


class _Raises(Exception):
    pass


class QuerySet:
    """The note set handed to scales.determine: every subset comparison is recorded and answered by a policy."""

    def __init__(self, policy, log):
        self.policy, self.log = policy, log

    def a_compare(self, interp, op, other, reflected, node):
        import ast as _ast
        if op is _ast.LtE and not reflected and isinstance(other, (set, frozenset)):
            self.log.append(frozenset(other))
            return self.policy(len(self.log) - 1)
        if op is _ast.GtE and reflected and isinstance(other, (set, frozenset)):
            self.log.append(frozenset(other))
            return self.policy(len(self.log) - 1)
        raise CannotDecide("determine compares the query with %r using %s" % (other, op.__name__))

    def a_method(self, interp, name, args, kwargs, node):
        if name == "issubset" and args and isinstance(args[0], (set, frozenset, list)):
            self.log.append(frozenset(args[0]))
            return self.policy(len(self.log) - 1)
        return NotImplemented


def oracle_scale_notes(cname, tonic, descending=False):
    pat = DESC_PATTERNS.get(cname, PATTERNS[cname]) if descending else PATTERNS[cname]
    sem = cum(pat)
    base = nd.pitch_of_concrete(tonic)
    return [nd.spell(nd.letter_up(tonic[0], i), (base + s) % 12) for i, s in enumerate(sem)]


def rule_recognition(ctx, mod, model):
    R = "R-C05-7"
    fi = mod.func("determine")
    ctx.touch(fi)
    base = mod.cls("_Scale")
    subs = ctx.repo.subclasses(base)
    fam = {}
    for c in subs:
        t = ctx.repo.try_const(c.module, c.attrs.get("type")) if "type" in c.attrs else None
        fam.setdefault(t, []).append(c.name)
    for t in ("major", "minor"):
        ctx.check(sorted(fam.get(t, [])) == sorted(FAMILY[t]), R, "family[%s]" % t, mod.where(base.node),
                  "classes with type == %r" % t,
                  "the %s family is %s, the statement's families are %s" % (t, sorted(fam.get(t, [])), sorted(FAMILY[t])))
    table = nd.oracle_key_table()
    # expected (name, asc set, desc set) in iteration order: keys outer, subclasses inner
    expected = []
    for ma, mi in table:
        for c in subs:
            t = fam and next((k for k, v in fam.items() if c.name in v), None)
            if t == "major" and c.name in PATTERNS:
                tonic = ma
            elif t == "minor" and c.name in PATTERNS:
                tonic = mi[0].upper() + mi[1:]
            else:
                continue
            expected.append((c.name, tonic, frozenset(oracle_scale_notes(c.name, tonic)),
                             frozenset(oracle_scale_notes(c.name, tonic, True))))

    def run_policy(policy):
        log = []

        def mk(ch):
            return Interp(ctx.repo, ch, summaries=dict(model, **{
                "builtin:set": None}))
        res = {}

        def run(it):
            q = QuerySet(policy, log)
            # set(notes) -> the query itself
            orig = it.call_builtin

            def cb(name, args, kwargs, node=None):
                if name == "set" and args and args[0] is q:
                    return q
                return orig(name, args, kwargs, node)
            it.call_builtin = cb
            return it.call_function(fi, [q], {})
        paths = explore(lambda ch: Interp(ctx.repo, ch, summaries=model), run)
        if len(paths) == 1 and paths[0].kind == "raise":
            raise _Raises(paths[0].value)
        if len(paths) != 1 or paths[0].kind != "return":
            raise AnalysisError("scales.determine is not a single straight path under a fixed comparison policy: %r" % (paths[:2],))
        return paths[0].value, log
    try:
        res_all, log_all = run_policy(lambda i: True)
        res_none, log_none = run_policy(lambda i: False)
        res_second, log_second = run_policy(lambda i: i % 2 == 1)
    except CannotDecide as e:
        raise AnalysisError("scales.determine: %s" % e)
    except _Raises as e:
        ctx.violated(R, "scope.raises", fi.where(), "determine(notes)",
                     "recognition raises %s while building its candidate scales, whatever the input" % e)
        return
    names = []
    for cname, tonic, a, d in expected:
        names.append((cname, tonic))
    # all-true: one comparison (ascending set) and one name per expected scale
    ok = len(log_all) == len(expected) and all(l == e[2] for l, e in zip(log_all, expected))
    bad = next((i for i, (l, e) in enumerate(zip(log_all, expected)) if l != e[2]), None)
    ctx.check(ok, R, "scope.ascending-sets", fi.where(), "determine: first subset test of every (key, class)",
              "the ascending note sets tested are not those of the %d major/minor-family scales over the 15 key pairs "
              "(%d tests; first difference at #%s: tested %s, expected %s %s)" % (
                  len(expected), len(log_all), bad,
                  sorted(log_all[bad]) if bad is not None and bad < len(log_all) else None,
                  expected[bad][:2] if bad is not None else None, sorted(expected[bad][2]) if bad is not None else None))
    ok = isinstance(res_all, list) and len(res_all) == len(expected) and all(
        isinstance(n, str) and n.startswith(e[1] + " ") for n, e in zip(res_all, expected))
    ctx.check(ok, R, "scope.names", fi.where(), "determine: appended names",
              "when every test succeeds the answer should name each of the %d scales once, on its own tonic; got %d names, e.g. %s"
              % (len(expected), len(res_all) if isinstance(res_all, list) else -1, (res_all or [])[:3] if isinstance(res_all, list) else res_all))
    # all-false: both sets tested for each scale, nothing appended
    ok = res_none == [] and len(log_none) == 2 * len(expected) and all(
        log_none[2 * i] == e[2] and log_none[2 * i + 1] == e[3] for i, e in enumerate(expected))
    ctx.check(ok, R, "scope.descending-sets", fi.where(), "determine: second subset test of every (key, class)",
              "when no test succeeds the answer must be empty and every scale's descending set must have been tested too "
              "(answer %r, %d tests for %d scales)" % (res_none if not isinstance(res_none, list) else res_none[:3], len(log_none), len(expected)))
    # descending-only success appends the same name
    ok = isinstance(res_second, list) and isinstance(res_all, list) and res_second == res_all
    ctx.check(ok, R, "scope.descending-append", fi.where(), "determine: name appended when only the descending set matches",
              "a match on the descending set alone must give the same name as a match on the ascending set")


def rule_after_edited_keys(ctx, mod):
    """The key-built scales read the notes of their key: a caller who asked for those notes before -- first of all callers,
    with a cold table -- and edited the list it got must not change what the scales are (real keys.get_notes, real classes)."""
    R = "R-C05-A"
    kmod = ctx.repo.mod("mingus.core.keys")
    gn = kmod.func("get_notes")
    cases = [("Eb", "Major", [0, 2, 4, 5, 7, 9, 11]), ("A", "HarmonicMajor", [0, 2, 4, 5, 7, 8, 11]), ("f#", "NaturalMinor", [0, 2, 3, 5, 7, 8, 10]),
             ("c", "HarmonicMinor", [0, 2, 3, 5, 7, 8, 11]), ("bb", "MelodicMinor", [0, 2, 3, 5, 7, 9, 11])]
    for key, cname, steps in cases:
        ci = mod.cls(cname)
        tonic = key[0].upper() + key[1:]

        def go(it, key=key, ci=ci, tonic=tonic):
            first = it.call_function(gn, [key], {})
            if isinstance(first, list):
                first.reverse()
                first.append("X")
            sc = it.call(AClass(ci), [tonic], {}, None)
            return it.call_method(sc, "ascending", [], {}, None)
        try:
            ps = explore(lambda ch: Interp(ctx.repo, ch, max_depth=40), go)
        except CannotDecide as e:
            raise AnalysisError("%s(%r) after the key's notes were asked for and edited: %s" % (cname, tonic, e))
        ok, why = len(ps) == 1 and ps[0].kind == "return" and isinstance(ps[0].value, list), "outcome %s" % [(p.kind, short(repr(p.value), 80)) for p in ps]
        if ok:
            got = ps[0].value
            letters = [nd.letter_up(tonic[0], k) for k in range(7)] + [tonic[0]]
            base = nd.pitch_of_concrete(tonic)
            want_pc = [(base + st) % 12 for st in steps] + [base % 12]
            if not all(isinstance(n, str) and n for n in got) or [n[0] for n in got] != letters or [nd.pitch_of_concrete(n) % 12 for n in got] != want_pc:
                ok, why = False, "%s(%r).ascending() is %s after a caller reversed and extended the list keys.get_notes(%r) gave it" % (cname, tonic, got, key)
        ctx.check(ok, R, "%s[%s|after the key's notes were edited]" % (cname, tonic), mod.cls(cname).methods["ascending"].where() if "ascending" in mod.cls(cname).methods else mod.relpath + ":0",
                  "keys.get_notes(%r) (cold), the answer edited, then %s(%r).ascending()" % (key, cname, tonic), why)
