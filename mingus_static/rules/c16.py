"""C16 -- MIDI output (midi_track.py, midi_file_out.py, midi_events.py)."""
from __future__ import annotations

import ast
import itertools

from ..engine.absval import Lin, Sym, AbsStr, Token, Opaque, AObj, AClass, INF
from ..engine.absint import CannotDecide, Interp, explore, RaiseEx
from ..engine.loader import AnalysisError, short
from ..engine.numdom import RatFun
from ..engine import notesdom as nd
from ..engine import mididom as md
from ..engine.stubs import log_of, recorder, stub, record_class, run_method

PROP = "C16"
EXPLANATION = (
    "Static rules over the MIDI writer: the track walkers (play_Track / play_Bar / play_NoteContainer / stop_*) are "
    "evaluated abstractly on a finite partition of track *shapes* (bars x entry kinds: rest, empty, 1/2/3 notes, "
    "tempo-changing container; with and without a MIDI instrument; leading, inner and trailing rests) with symbolic "
    "note values, pitches and velocities. track_data becomes a sequence of (pending delta, payload) records; the "
    "delta-time typestate (a pending non-zero delay is emitted exactly once: never overwritten, never re-used) and "
    "the decoded stream (absolute symbolic tick of every event, note-on/off pairing, pitch+12, channel, velocity, "
    "tempo, bank select + program change on the first note's channel, time and key signature per bar) are compared "
    "with an event model. Separately: header / chunk framing constants and the agreement of header track count and "
    "emitted chunks, argument order of the controller event, key-signature bytes for all 30 keys and for Key objects, "
    "the writer functions' repeat loops, and the variable-length encoder on boundary neighbourhoods.")
TRUSTED = ["CPython ast module", "mingus_static abstract evaluator + MIDI byte-stream domain (engine/mididom.py)",
           "event model EXPECTED in rules/c16.py, SMF constants written from the Standard MIDI File specification"]
NOT_DECIDED = ("well-formedness of whole files under an independent SMF reader for arbitrary compositions (shapes up to 2 bars x 4 entries are "
               "covered symbolically); that float log never misjudges the VLQ length away from the tested neighbourhoods")

MT, MF, ME = "mingus.midi.midi_track", "mingus.midi.midi_file_out", "mingus.midi.midi_events"
NOTE, NC, BAR, TR, INS, KEYS = ("mingus.containers.note", "mingus.containers.note_container", "mingus.containers.bar",
                                "mingus.containers.track", "mingus.containers.instrument", "mingus.core.keys")


# ------------------------------------------------------------------------------ scenario construction
class Scenario:
    def __init__(self, bars, instrument, name="Lead", meters=None):
        self.bars = bars  # list of list of kinds
        self.instrument = instrument  # None | int program number
        self.name = name
        self.meters = meters  # None: (4,4), (6,8), (3,4) in turn


KINDS = {"R": 0, "E": 0, "N1": 1, "N2": 2, "N3": 3, "T2": 2}


def build(repo, sc):
    """-> (track AObj, description) with symbolic values/pitches."""
    nci, noteci, barci, trci = (repo.mod(NC).cls("NoteContainer"), repo.mod(NOTE).cls("Note"), repo.mod(BAR).cls("Bar"), repo.mod(TR).cls("Track"))
    keyci = repo.mod(KEYS).cls("Key")
    desc = []
    bars = []
    n_id = itertools.count()
    for bi, kinds in enumerate(sc.bars):
        entries, edesc = [], []
        for ei, k in enumerate(kinds):
            v = RatFun.var("v%d_%d" % (bi, ei))
            notes = []
            if k == "R":
                content = None
            else:
                for _ in range(KINDS[k]):
                    i = next(n_id)
                    n = AObj(noteci, {"channel": (3 + i) % 16, "velocity": Lin.of(Sym("vel%d" % i, 0, 127)), "pitch": Lin.of(Sym("pitch%d" % i, 0, 115)),
                                      "name": "C", "octave": 4}, name="note%d" % i)
                    notes.append(n)
                content = AObj(nci, {"notes": list(notes)}, name="cont%d_%d" % (bi, ei))
                if k == "T2":
                    content.attrs["bpm"] = 90 + 10 * ei
            entries.append([Opaque("beat"), v, content])
            edesc.append((k, v, notes, content.attrs.get("bpm") if content is not None else None))
        keyname = ["C", "f#", "Bb"][bi % 3]
        key = AObj(keyci, {"key": keyname, "mode": "minor" if keyname[0].islower() else "major", "name": "display name", "signature": None}, name="key")
        meter = sc.meters[bi] if sc.meters else [(4, 4), (6, 8), (3, 4)][bi % 3]
        bars.append(AObj(barci, {"bar": entries, "meter": meter, "key": key}, name="bar%d" % bi))
        desc.append((meter, keyname, edesc))
    ins = None
    if sc.instrument is not None:
        ins = AObj(repo.mod(INS).cls("MidiInstrument"), {"instrument_nr": sc.instrument}, name="instr")
    track = AObj(trci, {"bars": bars, "instrument": ins, "name": sc.name}, name="track")
    return track, desc


def expected_events(sc, desc, tickof):
    """Event model: list of (absolute tick Lin, kind, data)."""
    ev = []
    now = Lin({}, 0)
    ev.append((Lin({}, 0), "tempo", 120))
    ev.append((Lin({}, 0), "name", sc.name))
    need_instr = sc.instrument is not None
    for meter, keyname, entries in desc:
        if meter[1] != 0:
            # (the unbounded (0, 0) meter has no time signature: the bar is written without one)
            ev.append((now, "meter", meter))
        ev.append((now, "key", keyname))
        for k, v, notes, bpm in entries:
            t = tickof(v)
            if notes:
                if bpm is not None:
                    ev.append((now, "tempo", bpm))
                for i, n in enumerate(notes):
                    if need_instr:
                        ev.append((now, "bank", (n.attrs["channel"], 1)))
                        ev.append((now, "program", (n.attrs["channel"], sc.instrument)))
                        need_instr = False
                    ev.append((now, "on", n))
                for n in notes:
                    ev.append((now + t, "off", n))
            now = now + t
    return ev


def decode(it, seq, notes_by_id):
    """EvSeq -> list of (absolute tick Lin, kind, data) or raises ValueError with a description."""
    out = []
    now = Lin({}, 0)
    items = seq.items if isinstance(seq, md.EvSeq) else ([seq] if isinstance(seq, md.Emitted) else [])
    for e in items:
        if isinstance(e, (bytes, bytearray)):
            # an event that carries its own literal delta time: split the variable-length prefix off
            k = 0
            while k < len(e) and e[k] & 0x80:
                k += 1
            if k >= len(e):
                raise ValueError("raw bytes %r are not <delta><event>" % (e,))
            d = Lin.of(md.decode_vlq(bytes(e[:k + 1])))
            p = list(e[k + 1:])
        elif isinstance(e, md.Emitted):
            d = e.delta.ticks() if isinstance(e.delta, md.Delta) else None
            if d is None:
                raise ValueError("delta time %r is not a variable-length quantity" % (e.delta,))
            p = e.payload.items()
        else:
            raise ValueError("unexpected item %r in the track" % (e,))
        now = now + d
        if not p:
            raise ValueError("empty event")
        st = p[0]
        if st == 0xFF:
            typ, ln = p[1], p[2]
            data = p[3:]
            if typ == 0x51:
                if ln != 3 or len(data) != 3:
                    raise ValueError("tempo meta event with length %r" % (ln,))
                mpqn = (data[0] << 16) | (data[1] << 8) | data[2]
                out.append((now, "tempo", ("mpqn", mpqn)))
            elif typ == 0x58:
                if ln != 4 or len(data) != 4:
                    raise ValueError("time signature with length %r" % (ln,))
                out.append((now, "meter", (data[0], 2 ** data[1], data[2], data[3])))
            elif typ == 0x59:
                if ln != 2 or len(data) != 2:
                    raise ValueError("key signature with length %r" % (ln,))
                out.append((now, "key", (data[0] - 256 if data[0] > 127 else data[0], data[1])))
            elif typ == 0x03:
                out.append((now, "name", bytes(data[:]).decode("ascii") if all(isinstance(x, int) for x in data) and ln == len(data) else ("?", ln, data)))
            else:
                out.append((now, "meta", (typ, ln, data)))
        elif isinstance(st, int):
            hi, ch = st >> 4, st & 0x0F
            if hi in (8, 9):
                if len(p) != 3:
                    raise ValueError("note event with %d bytes" % len(p))
                out.append((now, "on" if hi == 9 else "off", (ch, p[1], p[2])))
            elif hi == 0xB:
                out.append((now, "controller", (ch, p[1], p[2]) if len(p) == 3 else tuple(p)))
            elif hi == 0xC:
                out.append((now, "program", (ch, p[1]) if len(p) == 2 else tuple(p)))
            else:
                out.append((now, "channel-event", tuple(p)))
        else:
            raise ValueError("status byte %r is not a byte" % (st,))
    return out


def same_lin(it, a, b):
    return nd.same(it, Lin.of(a), Lin.of(b))


def compare_streams(it, got, want, tickinfo):
    if len(got) != len(want):
        return "%d events written, the music has %d: %s vs expected %s" % (len(got), len(want), [g[1] for g in got], [w[1] for w in want])
    for i, (g, w) in enumerate(zip(got, want)):
        gt, gk, gd = g
        wt, wk, wd = w
        kind_ok = gk == wk or (wk == "bank" and gk == "controller")
        if not kind_ok:
            return "event #%d is a %s, expected %s (%s vs %s)" % (i, gk, wk, [x[1] for x in got], [x[1] for x in want])
        if not same_lin(it, gt, wt):
            return "event #%d (%s) is written at tick %s, expected %s" % (i, gk, it.resolve(Lin.of(gt)), Lin.of(wt))
        if wk in ("on", "off"):
            n = wd
            ch, pitch, vel = gd
            if ch != n.attrs["channel"] or not same_lin(it, pitch, n.attrs["pitch"] + 12) or not same_lin(it, vel, n.attrs["velocity"]):
                return "event #%d (%s) carries (channel %r, pitch %s, velocity %s), the note is (channel %r, pitch %s + 12, velocity %s)" % (
                    i, wk, ch, pitch, vel, n.attrs["channel"], n.attrs["pitch"], n.attrs["velocity"])
        elif wk == "tempo":
            if gd != ("mpqn", 60000000 // wd):
                return "tempo event #%d carries %r, expected 60000000 // %d = %d" % (i, gd, wd, 60000000 // wd)
        elif wk == "name":
            if gd != wd:
                return "track name event carries %r, expected %r" % (gd, wd)
        elif wk == "meter":
            if gd[:2] != wd:
                return "time signature #%d denotes %s/%s, the bar is in %s/%s" % (i, gd[0], gd[1], wd[0], wd[1])
        elif wk == "key":
            notes, sig = nd.oracle_key_notes(wd)
            if gd != (sig, 1 if wd[0].islower() else 0):
                return "key signature #%d denotes (%d accidentals, mode %d), the bar's key %r has (%d, %d)" % (i, gd[0], gd[1], wd, sig, 1 if wd[0].islower() else 0)
        elif wk == "bank":
            if gd != (wd[0], 0, wd[1]):
                return "bank select #%d is controller event %r, expected (channel %d, controller 0, bank %d)" % (i, gd, wd[0], wd[1])
        elif wk == "program":
            if gd != wd:
                return "program change #%d is %r, expected (channel %d, program %d)" % (i, gd, wd[0], wd[1])
    return None


def run_scenario(ctx, sc):
    repo = ctx.repo
    mtci = repo.mod(MT).cls("MidiTrack")
    summ = md.varbyte_summary(repo)
    summ[NOTE + ".Note.__int__"] = lambda it, a, k, n: a[0].attrs["pitch"]

    def go(it):
        md.install(it)
        track, desc = build(repo, sc)
        mt = AObj(mtci, {"delta_time": md.Delta(b"\x00")}, name="miditrack")
        it.call_function(repo.find_method(mtci, "__init__"), [mt, 120], {})
        it.call_function(repo.find_method(mtci, "play_Track"), [mt, track], {})
        return mt, track, desc
    return explore(lambda ch: Interp(repo, ch, summaries=summ, max_depth=30), go)


def scenarios(thorough):
    base = ["R", "N1", "N2", "T2"]
    pats = [[k] for k in base] + [[a, b] for a in base for b in base]
    pats += [["R", "R", "N2", "R"], ["N3", "R", "N1"], ["E", "N1"], ["N1", "E", "R", "N2"], ["T2", "R", "T2"],
             ["R", "N1", "N1"], ["R", "N1", "R", "N2"], ["R", "E", "N1"]]
    out = []
    for p in pats:
        for ins in (None, 13):
            out.append(Scenario([p], ins))
    for p in (["N1"], ["R", "N2"]):
        out.append(Scenario([p], 0))  # program 0 is a MIDI instrument too
        out.append(Scenario([p], 1))  # ... and so is program 1, the number a fresh MidiTrack and MidiInstrument start with
        out.append(Scenario([p], 127))
    for first, second in ((["N1", "R"], ["N2"]), (["R"], ["R", "N1"]), (["N2"], ["T2", "R"]), (["R", "R"], ["R"]), (["R", "N1"], ["N1"])):
        for ins in (None, 40):
            out.append(Scenario([first, second], ins))
    # bars in free time (the unbounded (0, 0) meter Bar accepts on purpose), alone and after a metered bar
    out.append(Scenario([["N1", "R", "N2"]], None, meters=[(0, 0)]))
    out.append(Scenario([["N1", "R"], ["R", "N2"]], 13, meters=[(4, 4), (0, 0)]))
    if thorough:
        for a in base:
            for b in base:
                for c in base:
                    out.append(Scenario([[a, b, c]], 7))
    return out


def run(ctx):
    repo = ctx.repo
    for m in (MT, MF, ME):
        ctx.touch(repo.mod(m))
    for m in repo.mod(MT).cls("MidiTrack").methods.values():
        ctx.touch(m)
    rule_stream(ctx)
    rule_refused_bar(ctx)
    rule_tick_ties(ctx)
    rule_repeat(ctx)
    rule_constants(ctx)
    rule_header_body(ctx)
    rule_arguments(ctx)
    rule_key_signature(ctx)
    rule_time_signature(ctx)
    rule_vlq(ctx)
    rule_writers(ctx)
    ctx.floor("R-C16-3", 40)
    ctx.floor("R-C16-1", 6)
    ctx.floor("R-C16-2", 3)
    ctx.floor("R-C16-5", 2)
    ctx.floor("R-C16-6", 30)
    ctx.floor("R-C16-7", 2)
    ctx.floor("R-C16-W", 5)


def rule_stream(ctx, R="R-C16-3"):
    fi = ctx.repo.find_method(ctx.repo.mod(MT).cls("MidiTrack"), "play_Bar")
    for sc in scenarios(ctx.tier == "thorough"):
        label = "%s%s%s" % ("|".join(",".join(b) for b in sc.bars), "" if sc.instrument is None else " +instr", "" if not sc.meters else " meters %s" % (sc.meters,))
        try:
            paths = run_scenario(ctx, sc)
        except CannotDecide as e:
            raise AnalysisError("track shape %s: %s" % (label, e))
        ok, why = len(paths) == 1 and paths[0].kind == "return", "outcome %s" % [(p.kind, short(repr(p.value), 60)) for p in paths][:2]
        if ok:
            it = paths[0].interp
            mt, track, desc = paths[0].value
            ticks = it.__dict__.get("tick_syms", {})

            def tickof(v):
                for sym, rf in ticks.values():
                    if rf is not None and rf.same(RatFun(RatFun.of(288).num * v.den, v.num)):
                        return Lin.of(sym)
                return Lin.of(Sym("unrounded(%r)" % (v,), 0, INF))
            lost = [x for x in it.delta_log if x[0] == "lost"]
            seq = mt.attrs.get("track_data")
            reused = []
            if isinstance(seq, md.EvSeq):
                seen = {}
                for e in seq.items:
                    if isinstance(e, md.Emitted) and isinstance(e.delta, md.Delta):
                        seen.setdefault(id(e.delta), []).append(e)
                reused = [es for es in seen.values() if len(es) > 1 and not es[0].delta.known_zero()]
            try:
                got = decode(it, seq, None)
                want = expected_events(sc, desc, tickof)
                diff = compare_streams(it, got, want, ticks)
            except ValueError as e:
                diff = str(e)
            if lost:
                ok, why = False, "a pending delay (%s ticks) is overwritten before any event carried it (at %s): the rest before that event is lost" % (
                    lost[0][1].ticks(), short(lost[0][2], 60))
            elif reused:
                ok, why = False, "one pending delay (%s ticks) is written in front of %d events: the rest is counted %d times" % (
                    reused[0][0].delta.ticks(), len(reused[0]), len(reused[0]))
            elif diff:
                ok, why = False, diff
        ctx.check(ok, R, "stream[%s]" % label, fi.where(), "MidiTrack.play_Track(<%s>)" % label, why)


def rule_refused_bar(ctx, R="R-C16-3"):
    """A MidiTrack driven by hand: a bar that is refused (a time signature count that does not fit) leaves the track as
    it was -- the rest pending before it still delays the next bar's first note."""
    from ..engine.absint import RaiseEx
    repo = ctx.repo
    mtci, barci, keyci = repo.mod(MT).cls("MidiTrack"), repo.mod(BAR).cls("Bar"), repo.mod(KEYS).cls("Key")
    fi = repo.find_method(mtci, "play_Bar")
    summ = md.varbyte_summary(repo)
    summ[NOTE + ".Note.__int__"] = lambda it, a, k, n: a[0].attrs["pitch"]
    sc = Scenario([["N1", "R"], ["N1"]], None)

    def go(it):
        md.install(it)
        track, desc = build(repo, sc)
        mt = AObj(mtci, {"delta_time": md.Delta(b"\x00")}, name="miditrack")
        it.call_function(repo.find_method(mtci, "__init__"), [mt, 120], {})
        bars = track.attrs["bars"]
        it.call_function(fi, [mt, bars[0]], {})
        key = AObj(keyci, {"key": "C", "mode": "major", "name": "display name", "signature": None}, name="key")
        try:
            it.call_function(fi, [mt, AObj(barci, {"bar": [], "meter": (256, 4), "key": key}, name="refused")], {})
            refused = None
        except RaiseEx as r:
            refused = r.exc
        it.call_function(fi, [mt, bars[1]], {})
        return mt, desc, refused
    try:
        paths = explore(lambda ch: Interp(repo, ch, summaries=summ, max_depth=30), go)
    except CannotDecide as e:
        raise AnalysisError("hand-driven MidiTrack with a refused bar: %s" % e)
    ok, why = len(paths) == 1 and paths[0].kind == "return", "outcome %s" % [(p.kind, short(repr(p.value), 60)) for p in paths][:2]
    if ok:
        it = paths[0].interp
        mt, desc, refused = paths[0].value
        ticks = it.__dict__.get("tick_syms", {})

        def tickof(v):
            for sym, rf in ticks.values():
                if rf is not None and rf.same(RatFun(RatFun.of(288).num * v.den, v.num)):
                    return Lin.of(sym)
            return Lin.of(Sym("unrounded(%r)" % (v,), 0, INF))
        if refused is None:
            ok, why = False, "a bar in 256/4 is not refused"
        else:
            try:
                got = [e for e in decode(it, mt.attrs.get("track_data"), None)]
                want = [e for e in expected_events(sc, desc, tickof) if e[1] != "name"]
                diff = compare_streams(it, got, want, ticks)
            except ValueError as e:
                diff = str(e)
            if diff:
                ok, why = False, "after a refused bar (%s) the track differs from the two bars that were accepted: %s" % (refused, diff)
    ctx.check(ok, R, "refused-bar", fi.where(), "MidiTrack: play_Bar(<note, rest>), play_Bar(<bar in 256/4>) refused, play_Bar(<note>)", why)


def rule_tick_ties(ctx, R="R-C16-3"):
    """round(288 / value), also where 288 / value lies exactly half way between two ticks (tuplets such as 64 * 3 / 17):
    evaluated in floats on the real play_Bar."""
    repo = ctx.repo
    mtci, barci, keyci, nci, noteci = (repo.mod(MT).cls("MidiTrack"), repo.mod(BAR).cls("Bar"), repo.mod(KEYS).cls("Key"), repo.mod(NC).cls("NoteContainer"), repo.mod(NOTE).cls("Note"))
    fi = repo.find_method(mtci, "play_Bar")
    summ = md.varbyte_summary(repo)
    summ[NOTE + ".Note.__int__"] = lambda it, a, k, n: a[0].attrs["pitch"]
    for label, v in (("64 * 3 / 17", 64 * 3 / 17.0), ("64 * 3 / 19", 64 * 3 / 19.0), ("576 / 11", 576 / 11.0), ("quarter", 4), ("triplet eighth", 12.0), ("dotted quarter", 4 / 1.5)):
        def go(it, v=v):
            md.install(it)
            n = AObj(noteci, {"channel": 1, "velocity": 64, "pitch": 60, "name": "C", "octave": 5}, name="n")
            cont = AObj(nci, {"notes": [n]}, name="cont")
            key = AObj(keyci, {"key": "C", "mode": "major", "name": "display name", "signature": None}, name="key")
            bar = AObj(barci, {"bar": [[0.0, v, cont]], "meter": (4, 4), "key": key}, name="bar")
            mt = AObj(mtci, {"delta_time": md.Delta(b"\x00")}, name="miditrack")
            it.call_function(repo.find_method(mtci, "__init__"), [mt, 120], {})
            it.call_function(fi, [mt, bar], {})
            return mt
        try:
            paths = explore(lambda ch: Interp(repo, ch, summaries=summ, max_depth=30), go)
        except CannotDecide as e:
            raise AnalysisError("play_Bar with the value %s: %s" % (label, e))
        ok, why = len(paths) == 1 and paths[0].kind == "return", "outcome %s" % [(p.kind, short(repr(p.value), 60)) for p in paths][:2]
        if ok:
            it = paths[0].interp
            try:
                got = decode(it, paths[0].value.attrs.get("track_data"), None)
                offs = [it.lin_interval(Lin.of(t)) for t, k, d in got if k == "off"]
            except ValueError as e:
                offs, why = None, str(e)
            want = int(round(288 / v))
            if not offs or offs[0] != (want, want):
                ok, why = False, "a note of value %s (%r) ends at tick %s; 288 / value = %r, so round(288 / value) = %d" % (label, v, offs, 288 / v, want)
        ctx.check(ok, R, "tick[%s]" % label, fi.where(), "MidiTrack.play_Bar(<one note of value %s>)" % label, why)


def rule_repeat(ctx):
    """A repeat count repeats the whole content: the same MidiTrack plays the track repeat + 1 times, and every
    repetition starts where the previous one ended -- rests that end the track included."""
    R = "R-C16-3"
    repo = ctx.repo
    mtci = repo.mod(MT).cls("MidiTrack")
    fpt = repo.find_method(mtci, "play_Track")
    summ = md.varbyte_summary(repo)
    summ[NOTE + ".Note.__int__"] = lambda it, a, k, n: a[0].attrs["pitch"]
    shapes = [([["N1", "R"]], None), ([["N1", "R"]], 13), ([["R", "N2"], ["N1", "R", "R"]], None), ([["N1", "N1"]], None), ([["R"]], None), ([["N1"], ["R"]], 5)]
    for bars, ins in shapes:
        for repeat in (1, 2):
            sc = Scenario(bars, ins)
            label = "%s%s x%d" % ("|".join(",".join(b) for b in bars), "" if ins is None else " +instr", repeat + 1)

            def go(it, sc=sc, repeat=repeat):
                md.install(it)
                track, desc = build(repo, sc)
                mt = AObj(mtci, {"delta_time": md.Delta(b"\x00")}, name="miditrack")
                it.call_function(repo.find_method(mtci, "__init__"), [mt, 120], {})
                for _ in range(repeat + 1):
                    it.call_function(fpt, [mt, track], {})
                return mt, track, desc
            try:
                paths = explore(lambda ch: Interp(repo, ch, summaries=summ, max_depth=30), go)
            except CannotDecide as e:
                raise AnalysisError("repeated track %s: %s" % (label, e))
            ok, why = len(paths) == 1 and paths[0].kind == "return", "outcome %s" % [(p.kind, short(repr(p.value), 60)) for p in paths][:2]
            if ok:
                it = paths[0].interp
                mt, track, desc = paths[0].value
                ticks = it.__dict__.get("tick_syms", {})

                def tickof(v):
                    for sym, rf in ticks.values():
                        if rf is not None and rf.same(RatFun(RatFun.of(288).num * v.den, v.num)):
                            return Lin.of(sym)
                    return Lin.of(Sym("unrounded(%r)" % (v,), 0, INF))
                try:
                    got = [e for e in decode(it, mt.attrs.get("track_data"), None) if e[1] in ("on", "off")]
                    want, now = [], Lin({}, 0)
                    for _ in range(repeat + 1):
                        for meter, keyname, entries in desc:
                            for k, v, notes, bpm in entries:
                                t = tickof(v)
                                want += [(now, "on", n) for n in notes] + [(now + t, "off", n) for n in notes]
                                now = now + t
                    if len(got) != len(want):
                        ok, why = False, "%d note events written for %d expected" % (len(got), len(want))
                    else:
                        for i, ((gt, gk, gd), (wt, wk, n)) in enumerate(zip(got, want)):
                            if gk != wk or not same_lin(it, gd[1], n.attrs["pitch"] + 12):
                                ok, why = False, "note event #%d is %s of pitch %s, expected %s of %s + 12" % (i, gk, gd[1], wk, n.attrs["pitch"])
                                break
                            if not same_lin(it, gt, wt):
                                ok, why = False, ("note event #%d (%s, repetition %d) is written at tick %s, the repeated content puts it at %s: "
                                                  "the time of the rests that end the track is lost between repetitions" % (
                                                      i, gk, 1 + i * (repeat + 1) // max(1, len(want)), it.resolve(Lin.of(gt)), Lin.of(wt)))
                                break
                except ValueError as e:
                    ok, why = False, str(e)
            ctx.check(ok, R, "repeat[%s]" % label, fpt.where(), "MidiTrack.play_Track(<%s>) %d times on one MidiTrack" % (label, repeat + 1), why)


def rule_constants(ctx):
    R = "R-C16-1"
    repo = ctx.repo
    mtci = repo.mod(MT).cls("MidiTrack")
    mfci = repo.mod(MF).cls("MidiFile")
    f = repo.find_method(mtci, "end_of_track")
    p = run_method(repo, f, [AObj(mtci, {}, name="mt")])
    ctx.check(len(p) == 1 and p[0].value == b"\x00\xff\x2f\x00", R, "end_of_track", f.where(), "MidiTrack.end_of_track()", "end of track is %r" % [(x.kind, x.value) for x in p])
    f = repo.find_method(mtci, "header")
    for n in (0, 5, 300, 70000):
        def go(it, n=n):
            md.install(it)
            return it.call_function(f, [AObj(mtci, {"track_data": b"\x01" * n}, name="mt")], {})
        p = explore(lambda ch: Interp(repo, ch), go)
        want = b"MTrk" + (n + 4).to_bytes(4, "big")
        ctx.check(len(p) == 1 and p[0].value == want, R, "chunk-header[%d]" % n, f.where(), "MidiTrack.header() with %d data bytes" % n,
                  "chunk header is %r, expected %r (tag + big-endian length of data + end-of-track)" % ([(x.kind, x.value) for x in p], want))
    f = repo.find_method(mtci, "get_midi_data")

    def go(it):
        md.install(it)
        return it.call_function(f, [AObj(mtci, {"track_data": b"\x01\x02\x03"}, name="mt")], {})
    p = explore(lambda ch: Interp(repo, ch), go)
    want = b"MTrk\x00\x00\x00\x07\x01\x02\x03\x00\xff\x2f\x00"
    ctx.check(len(p) == 1 and p[0].value == want, R, "chunk", f.where(), "MidiTrack.get_midi_data()", "chunk is %r, expected %r" % ([(x.kind, x.value) for x in p], want))
    f = repo.find_method(mfci, "header")
    for n in (1, 3, 300):
        def go(it, n=n):
            md.install(it)
            ts = [AObj(mtci, {"track_data": b"\x01"}, name="t%d" % i) for i in range(n)]
            return it.call_function(f, [AObj(mfci, {"tracks": ts}, name="mf")], {})
        p = explore(lambda ch: Interp(repo, ch), go)
        want = b"MThd\x00\x00\x00\x06\x00\x01" + n.to_bytes(2, "big") + b"\x00\x48"
        ctx.check(len(p) == 1 and p[0].value == want, R, "file-header[%d]" % n, f.where(), "MidiFile.header() with %d tracks" % n,
                  "file header is %r, expected %r (length 6, format 1, track count, 72 ticks per quarter)" % ([(x.kind, x.value) for x in p], want))
    # single note / container writers use 72 ticks
    # (judged by what the writer hands to the track: a delta of 0 before the start, of 72 before the stop -- as bytes or as
    #  the number; where in the module those constants are written is the writer's business)
    for wname, start, stop in (("write_Note", "play_Note", "stop_Note"), ("write_NoteContainer", "play_NoteContainer", "stop_NoteContainer")):
        wf = repo.mod(MF).func(wname)
        rec = record_class(repo, MT, "MidiTrack", [start, stop, "set_deltatime", "__init__"])
        rec.update(record_class(repo, MF, "MidiFile", ["write_file"], result=True))
        try:
            paths = run_method(repo, wf, lambda: ["out.mid", Token("music"), 120, 1], summaries=rec)
        except CannotDecide as e:
            raise AnalysisError("%s: %s" % (wname, e))
        ok, why = len(paths) == 1 and paths[0].kind == "return", "outcome %s" % [(p.kind, p.value) for p in paths]
        if ok:
            seq = [(e[0].split(".")[1], e[1][1:]) for e in log_of(paths[0].interp) if e[0].startswith("MidiTrack.") and not e[0].endswith("__init__")]
            names = [x[0] for x in seq]
            zero, q = (b"\x00", 0), (b"\x48", 72)
            if names != ["set_deltatime", start, "set_deltatime", stop] * 2:
                ok, why = False, "with repeat=1 the track is driven by %s" % names
            elif any(seq[i][1][:1] != [d] and (not seq[i][1] or seq[i][1][0] not in ds) for i, ds, d in ((0, zero, None), (2, q, None), (4, zero, None), (6, q, None))):
                ok, why = False, "a note written on its own must start at delta 0 and last 72 ticks; the deltas handed to the track are %s" % [x[1] for x in seq if x[0] == "set_deltatime"]
        ctx.check(ok, R, "%s.delta" % wname, wf.where(), "%s(file, music, 120, 1): the deltas handed to the MidiTrack" % wname, why)


def rule_header_body(ctx):
    R = "R-C16-2"
    repo = ctx.repo
    mtci = repo.mod(MT).cls("MidiTrack")
    mfci = repo.mod(MF).cls("MidiFile")
    fh, fg = repo.find_method(mfci, "header"), repo.find_method(mfci, "get_midi_data")
    rec = {MT + ".MidiTrack.get_midi_data": lambda it, a, k, n: b"<chunk>"}
    for datas in ([b"\x01", b"", b"\x02"], [b""], [b"\x01", b"\x02"], [b"", b""]):
        def go(it, datas=datas):
            md.install(it)
            ts = [AObj(mtci, {"track_data": d}, name="t%d" % i) for i, d in enumerate(datas)]
            mf = AObj(mfci, {"tracks": ts, "time_division": b"\x00\x48"}, name="mf")
            return it.call_function(fh, [mf], {}), it.call_function(fg, [mf], {})
        p = explore(lambda ch: Interp(repo, ch, summaries=rec), go)
        ok, why = len(p) == 1 and p[0].kind == "return", "outcome %s" % [(x.kind, x.value) for x in p]
        if ok:
            hdr, data = p[0].value
            declared = int.from_bytes(hdr[10:12], "big") if isinstance(hdr, bytes) and len(hdr) == 14 else None
            chunks = data.count(b"<chunk>") if isinstance(data, bytes) else None
            nonempty = sum(1 for d in datas if d)
            if declared != chunks or chunks != nonempty:
                ok, why = False, "with track data %r the header declares %r tracks, %r chunks follow, %d tracks are non-empty" % (datas, declared, chunks, nonempty)
        ctx.check(ok, R, "tracks%r" % ([len(d) for d in datas],), fh.where(), "MidiFile.header() vs get_midi_data()", why)


def rule_arguments(ctx):
    R = "R-C16-5"
    repo = ctx.repo
    mtci = repo.mod(MT).cls("MidiTrack")
    for ch, bank in ((5, 1), (0, 7), (15, 0)):
        def go(it, ch=ch, bank=bank):
            md.install(it)
            mt = AObj(mtci, {"delta_time": md.Delta(b"\x00")}, name="mt")
            return it.call_function(repo.find_method(mtci, "select_bank"), [mt, ch, bank], {})
        p = explore(lambda c_: Interp(repo, c_), go)
        got = p[0].value.payload.items() if len(p) == 1 and isinstance(p[0].value, md.Emitted) else None
        want = [0xB0 | ch, 0x00, bank]
        ctx.check(got == want, R, "select_bank[%d,%d]" % (ch, bank), repo.find_method(mtci, "select_bank").where(), "select_bank(%d, %d)" % (ch, bank),
                  "bank select for channel %d, bank %d is encoded as %s, expected %s (controller 0 on that channel)" % (
                      ch, bank, got if got is not None else [(x.kind, x.value) for x in p], want))
    for ch, prog in ((2, 13), (9, 0)):
        def go(it, ch=ch, prog=prog):
            md.install(it)
            mt = AObj(mtci, {"delta_time": md.Delta(b"\x00")}, name="mt")
            return it.call_function(repo.find_method(mtci, "program_change_event"), [mt, ch, prog], {})
        p = explore(lambda c_: Interp(repo, c_), go)
        got = p[0].value.payload.items() if len(p) == 1 and isinstance(p[0].value, md.Emitted) else None
        ctx.check(got == [0xC0 | ch, prog], R, "program_change[%d,%d]" % (ch, prog), repo.find_method(mtci, "program_change_event").where(),
                  "program_change_event(%d, %d)" % (ch, prog), "encoded as %s" % (got,))


def rule_key_signature(ctx):
    R = "R-C16-6"
    repo = ctx.repo
    mtci = repo.mod(MT).cls("MidiTrack")
    keyci = repo.mod(KEYS).cls("Key")
    f = repo.find_method(mtci, "set_key")
    for ma, mi in nd.oracle_key_table():
        for key in (ma, mi):
            notes, sig = nd.oracle_key_notes(key)
            want = [0xFF, 0x59, 0x02, sig % 256, 1 if key[0].islower() else 0]
            for form in ("string", "Key"):
                def go(it, key=key, form=form):
                    md.install(it)
                    mt = AObj(mtci, {"delta_time": md.Delta(b"\x00"), "track_data": b""}, name="mt")
                    arg = key if form == "string" else it.call(AClass(keyci), [key], {}, None)
                    it.call_function(f, [mt, arg], {})
                    return mt
                try:
                    p = explore(lambda c_: Interp(repo, c_), go)
                except CannotDecide as e:
                    raise AnalysisError("set_key(%s %r): %s" % (form, key, e))
                got = None
                if len(p) == 1 and p[0].kind == "return":
                    td = p[0].value.attrs.get("track_data")
                    if isinstance(td, md.EvSeq) and len(td.items) == 1:
                        got = td.items[0].payload.items()
                ctx.check(got == want, R, "set_key[%s,%s]" % (key, form), f.where(), "MidiTrack.set_key(%s %r)" % (form, key),
                          "key %r (given as %s) is written as %s, expected %s (signature %d, %s)" % (
                              key, form, got if got is not None else [(x.kind, x.value) for x in p], want, sig, "minor" if key[0].islower() else "major"))


def rule_time_signature(ctx):
    """FF 58 04 nn dd 18 08 with nn the count and 2**dd the unit; a count that does not fit the one byte the format
    has for it is refused, never written as something else."""
    R = "R-C16-6"
    repo = ctx.repo
    mtci = repo.mod(MT).cls("MidiTrack")
    f = repo.find_method(mtci, "set_meter")
    for meter, fits in (((4, 4), True), ((1, 1), True), ((12, 8), True), ((7, 16), True), ((255, 128), True), ((0, 4), True),
                        ((256, 4), False), ((4095, 4), False), ((4096, 4), False), ((70000, 2), False)):
        def go(it, meter=meter):
            md.install(it)
            mt = AObj(mtci, {"delta_time": md.Delta(b"\x00"), "track_data": b""}, name="mt")
            it.call_function(f, [mt, meter], {})
            return mt
        try:
            p = explore(lambda c_: Interp(repo, c_), go)
        except CannotDecide as e:
            raise AnalysisError("set_meter(%r): %s" % (meter, e))
        got = None
        if len(p) == 1 and p[0].kind == "return":
            td = p[0].value.attrs.get("track_data")
            if isinstance(td, md.EvSeq) and len(td.items) == 1:
                got = td.items[0].payload.items()
        if fits:
            dd = {1: 0, 2: 1, 4: 2, 8: 3, 16: 4, 32: 5, 64: 6, 128: 7}[meter[1]]
            want = [0xFF, 0x58, 0x04, meter[0], dd, 0x18, 0x08]
            ok, why = got == want, "meter %s/%s is written as %s, expected %s" % (meter[0], meter[1], got if got is not None else [(x.kind, x.value) for x in p], want)
        else:
            ok = bool(p) and all(x.kind == "raise" for x in p)
            why = "a count of %d does not fit the time signature's one byte, yet set_meter gives %s" % (meter[0], got if got is not None else [(x.kind, x.value) for x in p])
        ctx.check(ok, R, "set_meter[%d/%d]" % meter, f.where(), "MidiTrack.set_meter((%d, %d))" % meter, why)


def rule_vlq(ctx):
    R = "R-C16-7"
    repo = ctx.repo
    mtci = repo.mod(MT).cls("MidiTrack")
    f = repo.find_method(mtci, "int_to_varbyte")

    def ref(n):
        out = [n & 0x7F]
        n >>= 7
        while n:
            out.append((n & 0x7F) | 0x80)
            n >>= 7
        return bytes(reversed(out))
    values = list(range(0, 300)) + [v for k in (1, 2, 3, 4) for v in range(128 ** k - 3, 128 ** k + 4) if v < 2 ** 28] + [2 ** 28 - 1, 10 ** 6, 12345678]
    bad = []
    mt = AObj(mtci, {}, name="mt")

    def go(it):
        md.install(it)
        return [it.call_function(f, [mt, v], {}) for v in values]
    p = explore(lambda c_: Interp(repo, c_), go)
    if len(p) == 1 and p[0].kind == "return":
        bad = [(v, r, ref(v)) for v, r in zip(values, p[0].value) if r != ref(v)]
    else:
        bad = [("outcome", [(x.kind, x.value) for x in p])]
    ctx.check(not bad, R, "int_to_varbyte.boundaries", f.where(), "int_to_varbyte(n) on %d boundary values" % len(values),
              "variable-length encoding differs from the standard on %s" % (bad[:3],))
    consts = {n.value for n in ast.walk(f.node) if isinstance(n, ast.Constant) and isinstance(n.value, int)}
    ctx.check({7, 0x7F, 0x80} <= consts, R, "int_to_varbyte.constants", f.where(), "int_to_varbyte constants",
              "7-bit groups need shift 7, mask 0x7F and continuation 0x80; constants found %s" % sorted(consts))


def rule_writers(ctx, R="R-C16-W"):
    """write_* build one MidiTrack per (track), repeat the whole content repeat+1 times and write get_midi_data."""
    repo = ctx.repo
    fmod = repo.mod(MF)
    mtci = repo.mod(MT).cls("MidiTrack")
    mfci = fmod.cls("MidiFile")
    for wname, played in (("write_Note", ["set_deltatime", "play_Note", "set_deltatime", "stop_Note"]),
                          ("write_NoteContainer", ["set_deltatime", "play_NoteContainer", "set_deltatime", "stop_NoteContainer"]),
                          ("write_Bar", ["play_Bar"]), ("write_Track", ["play_Track"]), ("write_Composition", ["play_Track", "play_Track"])):
        wf = fmod.func(wname)
        ctx.touch(wf)
        rec = record_class(repo, MT, "MidiTrack", ["play_Note", "stop_Note", "play_NoteContainer", "stop_NoteContainer", "play_Bar", "play_Track",
                                                    "set_deltatime", "__init__"])
        rec.update(record_class(repo, MF, "MidiFile", ["write_file"], result=True))
        obj = Token("music")
        if wname == "write_Composition":
            obj = AObj(repo.mod("mingus.containers.composition").cls("Composition"), {"tracks": [Token("trackA"), Token("trackB")]}, name="comp")
        for repeat in (0, 2):
            paths = run_method(repo, wf, lambda: ["out.mid", obj, 150, repeat], summaries=rec)
            ok, why = len(paths) == 1 and paths[0].kind == "return", "outcome %s" % [(p.kind, p.value) for p in paths]
            if ok:
                log = [e for e in log_of(paths[0].interp)]
                calls = [e[0].split(".")[1] for e in log if e[0].startswith("MidiTrack.") and not e[0].endswith("__init__")]
                inits = [e for e in log if e[0].endswith("__init__")]
                if calls != played * (repeat + 1):
                    ok, why = False, "with repeat=%d the track methods called are %s, expected the whole content %d times" % (repeat, calls, repeat + 1)
                elif any(e[1][1:] != [150] for e in inits):
                    ok, why = False, "the tempo is not handed to the MidiTrack: %s" % [e[1][1:] for e in inits]
                elif not any(e[0] == "MidiFile.write_file" for e in log):
                    ok, why = False, "nothing is written"
                elif wname == "write_Composition":
                    # every composition track is played, whole, repeat + 1 times into a MidiTrack of its own, and the file
                    # holds those MidiTracks in the order of the composition's tracks (in which order they are filled --
                    # round by round or track by track -- is the writer's business)
                    plays = [e for e in log if e[0] == "MidiTrack.play_Track"]
                    groups = []
                    for e in plays:
                        for g in groups:
                            if g[0] is e[1][0]:
                                g[1].append(getattr(e[1][1], "tag", None))
                                break
                        else:
                            groups.append((e[1][0], [getattr(e[1][1], "tag", None)]))
                    wf_call = [e for e in log if e[0] == "MidiFile.write_file"][-1]
                    mfile = wf_call[1][0]
                    in_file = mfile.attrs.get("tracks") if isinstance(mfile, AObj) else None
                    by_obj = {id(g[0]): g[1] for g in groups}
                    if any(len(set(tags)) != 1 or len(tags) != repeat + 1 for _o, tags in groups):
                        ok, why = False, "a MidiTrack receives %s: each must receive one composition track, %d times" % ([t for _o, t in groups], repeat + 1)
                    elif not isinstance(in_file, list) or [by_obj.get(id(x), [None])[0] for x in in_file] != ["trackA", "trackB"]:
                        ok, why = False, "the file's tracks hold %s, expected the composition's tracks in order, each in a MidiTrack of its own" % (
                            [by_obj.get(id(x)) for x in in_file] if isinstance(in_file, list) else in_file,)
            ctx.check(ok, R, "%s[repeat=%d]" % (wname, repeat), wf.where(), "%s(file, music, 150, %d)" % (wname, repeat), why)
