"""C18 -- Sequencer (mingus/midi/sequencer.py, sequencer_observer.py)."""
from __future__ import annotations

import ast
import itertools

from ..engine.absval import Lin, Sym, AbsStr, Token, Opaque, AObj, AClass, INF
from ..engine.absint import CannotDecide, Interp, explore, RaiseEx
from ..engine.loader import AnalysisError, short, walk_no_nested
from ..engine.numdom import RatFun
from ..engine import effects as fx
from ..engine.stubs import log_of, recorder, stub, record_class, run_method

PROP = "C18"
EXPLANATION = (
    "Static rules over the sequencer: playback methods are evaluated abstractly with the five subclass hooks and the "
    "fourteen SequencerObserver handlers recorded (a real observer is attached, its notify() dispatch is inlined), "
    "on bar/track shapes (rest, 1-2 notes, tempo-changing container) with symbolic pitches, channels, velocities, "
    "values and tempo; the hook stream is compared with an event model (one play then, after sleep(240/(bpm*value)), "
    "one stop per sounding note with the same pitch+12 and channel; rests only sleep; tempo changes apply to the "
    "entry that carries them; the final tempo is returned) and the observer's low-level stream must equal the hook "
    "stream; control-change guards are evaluated on symbolic in-range / out-of-range numbers; the listener registry, "
    "the message table, instrument announcement in play_Tracks and the default channels of play_Composition are "
    "evaluated; loops that mutate the list they iterate are reported (typestate lint with a positive fixture).")
TRUSTED = ["CPython ast module", "mingus_static abstract evaluator + rational functions", "event model in rules/c18.py"]
NOT_DECIDED = ("play_Bars beyond the eleven shapes of parallel full bars it is evaluated on (seven with equal rhythms and tempo changes, four with "
               "different rhythms; symbolic tempo, pitches, channels, velocities; rhythms concrete); bars that are not full; float rounding of tick sums")

SQ, SO, NOTE, NC, BAR, TR, INS = ("mingus.midi.sequencer", "mingus.midi.sequencer_observer", "mingus.containers.note",
                                  "mingus.containers.note_container", "mingus.containers.bar", "mingus.containers.track",
                                  "mingus.containers.instrument")
HOOKS = ["play_event", "stop_event", "cc_event", "instr_event", "sleep"]
HANDLERS = ["play_int_note_event", "stop_int_note_event", "cc_event", "instr_event", "sleep", "play_Note", "stop_Note",
            "play_NoteContainer", "stop_NoteContainer", "play_Bar", "play_Bars", "play_Track", "play_Tracks", "play_Composition"]
LOW = {"play_int_note_event": "play_event", "stop_int_note_event": "stop_event", "cc_event": "cc_event",
       "instr_event": "instr_event", "sleep": "sleep"}


def world(repo, extra=None):
    sci = repo.mod(SQ).cls("Sequencer")
    oci = repo.mod(SO).cls("SequencerObserver")
    summ = {}
    for h in HOOKS:
        summ["%s.Sequencer.%s" % (SQ, h)] = recorder("hook:" + h)
    for h in HANDLERS:
        summ["%s.SequencerObserver.%s" % (SO, h)] = recorder("obs:" + h)
    summ[NOTE + ".Note.__int__"] = lambda it, a, k, n: a[0].attrs["pitch"]
    if extra:
        summ.update(extra)
    return sci, oci, summ


def make_seq(sci, oci, n_listeners=1):
    obs = [AObj(oci, {}, name="observer%d" % i) for i in range(n_listeners)]
    return AObj(sci, {"listeners": list(obs)}, name="seq"), obs


def _evalrf(rf, point):
    from fractions import Fraction

    def ev(poly):
        tot = Fraction(0)
        for mono, c in poly.terms.items():
            t = Fraction(c)
            for var, e in mono:
                t *= Fraction(point(var)) ** e
            tot += t
        return tot
    return ev(rf.num) / ev(rf.den)


def same_val(it, a, b):
    if isinstance(a, RatFun) or isinstance(b, RatFun):
        ra, rb = RatFun.of(a), RatFun.of(b)
        if ra is None or rb is None:
            return False
        if ra.same(rb):
            return True
        # coefficients that went through float arithmetic in the code (4.0 / 12 ...): equal up to rounding at two
        # sample points of the symbolic tempi
        for seed in (3, 7):
            names = sorted({v for rf in (ra, rb) for poly in (rf.num, rf.den) for mono in poly.terms for v, _e in mono})
            pt = {n: 37 + seed * (i + 1) * 11 for i, n in enumerate(names)}
            try:
                x, y = _evalrf(ra, pt.get), _evalrf(rb, pt.get)
            except ZeroDivisionError:
                return False
            if abs(x - y) > 1e-9 * max(abs(x), abs(y), 1e-30):
                return False
        return True
    la, lb = (Lin.of(a) if not isinstance(a, (str, AObj)) and a is not None else None), (Lin.of(b) if not isinstance(b, (str, AObj)) and b is not None else None)
    if la is not None and lb is not None:
        lo, hi = it.lin_interval(la - lb)
        return lo == hi == 0
    return a is b or a == b


def hook_stream(it):
    return [(e[0][5:], e[1][1:]) for e in log_of(it) if e[0].startswith("hook:")]


def obs_low_stream(it, observer=None):
    out = []
    for e in log_of(it):
        if e[0].startswith("obs:") and e[0][4:] in LOW and (observer is None or e[1][0] is observer):
            out.append((LOW[e[0][4:]], e[1][1:]))
    return out


def streams_equal(it, a, b):
    if len(a) != len(b):
        return "%d vs %d events (%s vs %s)" % (len(a), len(b), [x[0] for x in a], [x[0] for x in b])
    for i, ((ka, aa), (kb, ab)) in enumerate(zip(a, b)):
        if ka != kb or len(aa) != len(ab) or not all(same_val(it, x, y) for x, y in zip(aa, ab)):
            return "event #%d: %s%s vs %s%s" % (i, ka, tuple(aa), kb, tuple(ab))
    return None


def run(ctx):
    repo = ctx.repo
    ctx.touch(repo.mod(SQ), repo.mod(SO))
    for m in list(repo.mod(SQ).cls("Sequencer").methods.values()) + list(repo.mod(SO).cls("SequencerObserver").methods.values()):
        ctx.touch(m)
    rule_messages(ctx)
    rule_notes(ctx)
    rule_registry(ctx)
    rule_control_change(ctx)
    rule_bars(ctx)
    rule_parallel_bars(ctx)
    rule_unequal_rhythms(ctx)
    rule_tracks(ctx)
    rule_mutation_while_iterating(ctx)
    ctx.floor("R-C18-1", 15)
    ctx.floor("R-C18-2", 4)
    ctx.floor("R-C18-3", 3)
    ctx.floor("R-C18-4", 8)
    ctx.floor("R-C18-5", 26)
    ctx.floor("R-C18-6", 4)
    ctx.floor("R-C18-7", 2)


def rule_messages(ctx):
    R = "R-C18-1"
    repo = ctx.repo
    sci, oci, summ = world(repo)
    consts = {k: repo.try_const(sci.module, v) for k, v in sci.attrs.items() if k.startswith("MSG_")}
    vals = list(consts.values())
    ctx.check(len(set(vals)) == len(vals) and len(vals) >= 14 and all(isinstance(v, int) for v in vals), R, "distinct", sci.module.where(sci.node),
              "Sequencer.MSG_* constants", "message constants are not pairwise distinct integers: %s" % consts)
    # observer dispatch: each message reaches the handler named for it, reading only keys the sequencer sends
    sent = {
        "MSG_PLAY_INT": ("play_int_note_event", {"channel": 1, "note": 2, "velocity": 3}, ["note", "channel", "velocity"]),
        "MSG_STOP_INT": ("stop_int_note_event", {"channel": 1, "note": 2}, ["note", "channel"]),
        "MSG_CC": ("cc_event", {"channel": 1, "control": 2, "value": 3}, ["channel", "control", "value"]),
        "MSG_INSTR": ("instr_event", {"channel": 1, "instr": 2, "bank": 3}, ["channel", "instr", "bank"]),
        "MSG_SLEEP": ("sleep", {"s": 1}, ["s"]),
        "MSG_PLAY_NOTE": ("play_Note", {"channel": 1, "note": 2, "velocity": 3}, ["note", "channel", "velocity"]),
        "MSG_STOP_NOTE": ("stop_Note", {"channel": 1, "note": 2}, ["note", "channel"]),
        "MSG_PLAY_NC": ("play_NoteContainer", {"notes": 1, "channel": 2, "velocity": 3}, ["notes", "channel"]),
        "MSG_STOP_NC": ("stop_NoteContainer", {"notes": 1, "channel": 2}, ["notes", "channel"]),
        "MSG_PLAY_BAR": ("play_Bar", {"bar": 1, "channel": 2, "bpm": 3}, ["bar", "channel", "bpm"]),
        "MSG_PLAY_BARS": ("play_Bars", {"bars": 1, "channels": 2, "bpm": 3}, ["bars", "channels", "bpm"]),
        "MSG_PLAY_TRACK": ("play_Track", {"track": 1, "channel": 2, "bpm": 3}, ["track", "channel", "bpm"]),
        "MSG_PLAY_TRACKS": ("play_Tracks", {"tracks": 1, "channels": 2, "bpm": 3}, ["tracks", "channels", "bpm"]),
        "MSG_PLAY_COMPOSITION": ("play_Composition", {"composition": 1, "channels": 2, "bpm": 3}, ["composition", "channels", "bpm"]),
    }
    fn = repo.find_method(oci, "notify")
    for msg, (handler, params, order) in sent.items():
        if msg not in consts:
            ctx.violated(R, "notify[%s]" % msg, sci.module.where(sci.node), msg, "message constant %s vanished" % msg)
            continue
        tokens = {k: Token("%s.%s" % (msg, k)) for k in params}
        paths = run_method(repo, fn, lambda: [AObj(oci, {}, name="obs"), consts[msg], dict(tokens)], summaries=summ)
        ok = len(paths) == 1 and paths[0].kind == "return"
        got = None
        if ok:
            got = [(e[0][4:], e[1][1:]) for e in log_of(paths[0].interp) if e[0].startswith("obs:")]
            ok = len(got) == 1 and got[0][0] == handler and [id(x) for x in got[0][1]] == [id(tokens[k]) for k in order]
        ctx.check(ok, R, "notify[%s]" % msg, fn.where(), "SequencerObserver.notify(%s, ...)" % msg,
                  "message %s with the keys the sequencer sends must reach %s(%s): got %s / %s" % (
                      msg, handler, ", ".join(order), got, [(p.kind, p.value) for p in paths]))


def note_stub(repo, i, with_attrs=True):
    attrs = {"pitch": Lin.of(Sym("pitch%d" % i, 0, 115)), "name": "C", "octave": 4}
    if with_attrs:
        attrs.update({"channel": Lin.of(Sym("chan%d" % i, 0, 15)), "velocity": Lin.of(Sym("vel%d" % i, 0, 127))})
    return AObj(repo.mod(NOTE).cls("Note"), attrs, name="note%d" % i)


def rule_notes(ctx):
    R = "R-C18-2"
    repo = ctx.repo
    sci, oci, summ = world(repo)
    n = note_stub(repo, 0)
    fp, fs = repo.find_method(sci, "play_Note"), repo.find_method(sci, "stop_Note")
    for label, f, args, want in (("play_Note", fp, [n, 9, 77], [("play_event", [n.attrs["pitch"] + 12, n.attrs["channel"], n.attrs["velocity"]])]),
                                 ("stop_Note", fs, [n, 9], [("stop_event", [n.attrs["pitch"] + 12, n.attrs["channel"]])])):
        def go(it):
            seq, obs = make_seq(sci, oci)
            return it.call_function(f, [seq] + args, {})
        p = explore(lambda ch: Interp(repo, ch, summaries=summ), go)
        ok, why = len(p) == 1 and p[0].kind == "return" and p[0].value is True, "outcome %s" % [(x.kind, x.value) for x in p]
        if ok:
            it = p[0].interp
            d1 = streams_equal(it, hook_stream(it), want)
            d2 = streams_equal(it, obs_low_stream(it), hook_stream(it))
            if d1:
                ok, why = False, "hook stream differs from the model (pitch + 12, the note's own channel and velocity): %s" % d1
            elif d2:
                ok, why = False, "the observer does not see what the hooks see: %s" % d2
        ctx.check(ok, R, label, f.where(), "Sequencer.%s(note, ...)" % label, why)
    # a plain integer note (as stop_everything passes) has no channel / velocity: the arguments are used
    def go(it):
        seq, obs = make_seq(sci, oci)
        return it.call_function(fp, [seq, 60, 9, 77], {})
    p = explore(lambda ch: Interp(repo, ch, summaries=summ), go)
    ok = len(p) == 1 and p[0].kind == "return"
    if ok:
        ok = streams_equal(p[0].interp, hook_stream(p[0].interp), [("play_event", [72, 9, 77])]) is None
    ctx.check(ok, R, "play_Note.defaults", fp.where(), "Sequencer.play_Note(60, 9, 77)", "the channel / velocity arguments must be used when the note has none: %s" % [(x.kind, x.value) for x in p])
    # set_instrument
    fi = repo.find_method(sci, "set_instrument")

    def go2(it):
        seq, obs = make_seq(sci, oci)
        return it.call_function(fi, [seq, 4, 29, 2], {})
    p = explore(lambda ch: Interp(repo, ch, summaries=summ), go2)
    ok = len(p) == 1 and p[0].kind == "return"
    if ok:
        it = p[0].interp
        ok = streams_equal(it, hook_stream(it), [("instr_event", [4, 29, 2])]) is None and streams_equal(it, obs_low_stream(it), hook_stream(it)) is None
    ctx.check(ok, R, "set_instrument", fi.where(), "Sequencer.set_instrument(4, 29, 2)", "instrument change must reach the hook and the observers with (channel, instr, bank)")


def rule_registry(ctx):
    R = "R-C18-3"
    repo = ctx.repo
    sci, oci, summ = world(repo)
    fa, fd, fn = repo.find_method(sci, "attach"), repo.find_method(sci, "detach"), repo.find_method(sci, "notify_listeners")

    def go(it):
        seq = AObj(sci, {"listeners": []}, name="seq")
        a, b = AObj(oci, {}, name="a"), AObj(oci, {}, name="b")
        it.call_function(fa, [seq, a], {})
        it.call_function(fa, [seq, a], {})
        it.call_function(fa, [seq, b], {})
        n1 = list(seq.attrs["listeners"])
        it.call_function(fd, [seq, a], {})
        it.call_function(fd, [seq, a], {})
        n2 = list(seq.attrs["listeners"])
        return a, b, n1, n2
    p = explore(lambda ch: Interp(repo, ch, summaries=summ), go)
    ok = len(p) == 1 and p[0].kind == "return"
    if ok:
        a, b, n1, n2 = p[0].value
        ok = [id(x) for x in n1] == [id(a), id(b)] and [id(x) for x in n2] == [id(b)]
    ctx.check(ok, R, "attach/detach", fa.where(), "attach twice, detach twice", "attaching twice must not duplicate, detaching must remove (and tolerate a second detach): %s" % [(x.kind, short(repr(x.value), 80)) for x in p])
    rec = {"%s.SequencerObserver.notify" % SO: recorder("notify")}

    def go2(it):
        seq, obs = make_seq(sci, oci, 3)
        m, prm = Token("msg"), Token("params")
        it.call_function(fn, [seq, m, prm], {})
        return obs, m, prm
    p = explore(lambda ch: Interp(repo, ch, summaries=rec), go2)
    ok = len(p) == 1 and p[0].kind == "return"
    if ok:
        obs, m, prm = p[0].value
        calls = [e[1] for e in log_of(p[0].interp)]
        ok = [id(c[0]) for c in calls] == [id(o) for o in obs] and all(c[1] is m and c[2] is prm for c in calls)
    ctx.check(ok, R, "notify_listeners", fn.where(), "Sequencer.notify_listeners", "every attached listener must be notified once with (message, params)")
    # an observer may detach itself (or attach another) from inside notify(): the others still get every message once
    for label in ("first detaches itself", "middle detaches itself", "first detaches the next", "first attaches a newcomer"):
        def go3(it, label=label):
            seq, obs = make_seq(sci, oci, 3)
            late = AObj(oci, {}, name="late")
            seen = []

            def notify(it_, a, k, n):
                seen.append((a[0], a[1]))
                if a[1] is m1:
                    if label == "first detaches itself" and a[0] is obs[0]:
                        it_.call_function(fd, [seq, obs[0]], {})
                    elif label == "middle detaches itself" and a[0] is obs[1]:
                        it_.call_function(fd, [seq, obs[1]], {})
                    elif label == "first detaches the next" and a[0] is obs[0]:
                        it_.call_function(fd, [seq, obs[1]], {})
                    elif label == "first attaches a newcomer" and a[0] is obs[0]:
                        it_.call_function(fa, [seq, late], {})
                return None
            m1, m2 = Token("msg1"), Token("msg2")
            it.summaries = dict(it.summaries or {})
            it.summaries["%s.SequencerObserver.notify" % SO] = notify
            it.call_function(fn, [seq, m1, Token("params")], {})
            it.call_function(fn, [seq, m2, Token("params")], {})
            return obs, late, seen, m1, m2
        p = explore(lambda ch: Interp(repo, ch, summaries={}), go3)
        ok, why = len(p) == 1 and p[0].kind == "return", "outcome %s" % [(x.kind, short(repr(x.value), 60)) for x in p]
        if ok:
            obs, late, seen, m1, m2 = p[0].value
            # who stays attached throughout gets both messages, once each; who is detached gets nothing afterwards
            stay = {"first detaches itself": [1, 2], "middle detaches itself": [0, 2], "first detaches the next": [0, 2], "first attaches a newcomer": [0, 1, 2]}[label]
            for i in stay:
                got = [m for o, m in seen if o is obs[i]]
                if [id(x) for x in got] != [id(m1), id(m2)]:
                    ok, why = False, "observer %d, attached throughout, receives %s of the two messages (%s)" % (i, ["msg1" if x is m1 else "msg2" for x in got], label)
            gone = {"first detaches itself": 0, "middle detaches itself": 1}.get(label)
            if ok and gone is not None and [m for o, m in seen if o is obs[gone]] != [m1]:
                ok, why = False, "the observer that detached itself at the first message still receives %d messages" % len([m for o, m in seen if o is obs[gone]])
            if ok and label == "first detaches the next" and [m for o, m in seen if o is obs[1]]:
                ok, why = False, "observer 1 was detached (by observer 0, during the first message) before its turn came, and still receives %d message(s): detaching stops delivery" % len([m for o, m in seen if o is obs[1]])
            if ok and label == "first attaches a newcomer" and m2 not in [m for o, m in seen if o is late]:
                ok, why = False, "the newcomer never receives a message"
        ctx.check(ok, R, "notify_listeners[%s]" % label, fn.where(), "Sequencer.notify_listeners while %s" % label, why)
    # the registry is about *which object* listens: two observers that compare equal (recorders that are lists, say) are two observers
    def go4(it):
        seq = AObj(sci, {"listeners": []}, name="seq")
        x, y, z = [], [], []
        it.call_function(fa, [seq, x], {})
        it.call_function(fa, [seq, y], {})
        n1 = list(seq.attrs["listeners"])
        it.call_function(fd, [seq, z], {})
        n2 = list(seq.attrs["listeners"])
        it.call_function(fd, [seq, y], {})
        n3 = list(seq.attrs["listeners"])
        return x, y, n1, n2, n3
    p = explore(lambda ch: Interp(repo, ch, summaries=summ), go4)
    ok, why = len(p) == 1 and p[0].kind == "return", "outcome %s" % [(x_.kind, short(repr(x_.value), 60)) for x_ in p]
    if ok:
        x, y, n1, n2, n3 = p[0].value
        ids = lambda l: [id(o) for o in l]
        if ids(n1) != [id(x), id(y)]:
            ok, why = False, "two observers that compare equal are attached; %d is listed: the second one will never hear anything" % len(n1)
        elif ids(n2) != [id(x), id(y)]:
            ok, why = False, "detaching an object that was never attached (but compares equal to one that is) removes a listener"
        elif ids(n3) != [id(x)]:
            ok, why = False, "detach(y) leaves %d listeners, and not exactly the other observer" % len(n3)
    ctx.check(ok, R, "attach/detach[equal observers]", fa.where(), "attach x, attach y (x == y, x is not y), detach z (z == x), detach y", why)
    init = repo.find_method(sci, "__init__")
    p = run_method(repo, init, lambda: [AObj(sci, {}, name="seq")])
    ok = len(p) == 1 and p[0].interp.args[0].attrs.get("listeners") == []
    ctx.check(ok, R, "__init__", init.where(), "Sequencer()", "every sequencer needs its own listener list")


def rule_control_change(ctx):
    R = "R-C18-4"
    repo = ctx.repo
    sci, oci, summ = world(repo)
    f = repo.find_method(sci, "control_change")
    ranges = {"in": (0, 128), "below": (-INF, -1), "above": (129, INF)}
    for cl, vl in (("in", "in"), ("below", "in"), ("above", "in"), ("in", "below"), ("in", "above")):
        c, v = Sym("control", *ranges[cl]), Sym("value", *ranges[vl])

        def go(it):
            seq, obs = make_seq(sci, oci)
            return it.call_function(f, [seq, 3, Lin.of(c), Lin.of(v)], {})
        p = explore(lambda ch: Interp(repo, ch, summaries=summ), go)
        ok, why = bool(p), "no outcome"
        for x in p:
            hs = hook_stream(x.interp)
            os_ = obs_low_stream(x.interp)
            if cl == "in" and vl == "in":
                d = streams_equal(x.interp, hs, [("cc_event", [3, Lin.of(c), Lin.of(v)])])
                if x.kind != "return" or x.value is not True or d or streams_equal(x.interp, os_, hs):
                    ok, why = False, "an in-range control change gives %s %r, hooks %s" % (x.kind, x.value, hs)
            else:
                if x.kind != "return" or x.value is not False or hs or os_:
                    ok, why = False, "control %s / value %s range gives %s %r and emits %s" % (cl, vl, x.kind, x.value, hs + os_)
        ctx.check(ok, R, "control_change[control %s, value %s]" % (cl, vl), f.where(), "Sequencer.control_change(ch, <%s>, <%s>)" % (cl, vl), why)
    for mname, number in (("modulation", 1), ("main_volume", 7), ("pan", 10)):
        fm = repo.find_method(sci, mname)
        rec = dict(summ)
        rec["%s.Sequencer.control_change" % SQ] = recorder("cc", True)
        v = Token("v")
        p = run_method(repo, fm, lambda: [AObj(sci, {"listeners": []}, name="seq"), 5, v], summaries=rec)
        ok = len(p) == 1 and [e[1][1:] for e in log_of(p[0].interp) if e[0] == "cc"] == [[5, number, v]]
        ctx.check(ok, R, mname, fm.where(), "Sequencer.%s(5, v)" % mname, "%s must be control change number %d" % (mname, number))


KINDS = {"R": 0, "N1": 1, "N2": 2, "T2": 2}


def build_bar(repo, kinds, tag="b"):
    nci, barci = repo.mod(NC).cls("NoteContainer"), repo.mod(BAR).cls("Bar")
    entries, desc = [], []
    ids = itertools.count(hash(tag) % 1000 * 10)
    for ei, k in enumerate(kinds):
        v = RatFun.var("v_%s%d" % (tag, ei))
        notes = [note_stub(repo, next(ids)) for _ in range(KINDS[k])]
        content = None if k == "R" else AObj(nci, {"notes": list(notes)}, name="cont%d" % ei)
        bpm = None
        if k == "T2":
            bpm = RatFun.var("bpm_%s%d" % (tag, ei))
            content.attrs["bpm"] = bpm
        entries.append([Token("beat"), v, content])
        desc.append((k, v, notes, bpm, content))
    return AObj(barci, {"bar": entries, "length": 1.0}, name="bar" + tag), desc


def model_bar(desc, bpm):
    ev = []
    for k, v, notes, newbpm, content in desc:
        for n in notes:
            ev.append(("play_event", [n.attrs["pitch"] + 12, n.attrs["channel"], n.attrs["velocity"]]))
        if newbpm is not None:
            bpm = newbpm
        b = RatFun.of(bpm)
        ev.append(("sleep", [RatFun(RatFun.of(240).num * b.den * v.den, b.num * v.num)]))
        for n in notes:
            ev.append(("stop_event", [n.attrs["pitch"] + 12, n.attrs["channel"]]))
    return ev, bpm


def rule_bars(ctx):
    R = "R-C18-5"
    repo = ctx.repo
    sci, oci, summ = world(repo)
    f = repo.find_method(sci, "play_Bar")
    base = ["R", "N1", "N2", "T2"]
    shapes = [[k] for k in base] + [[a, b] for a in base for b in base] + [["N2", "R", "T2", "N1"], ["R", "R"], ["T2", "T2", "N1"]]
    for kinds in shapes:
        bpm0 = RatFun.var("bpm")

        def go(it, kinds=kinds):
            seq, obs = make_seq(sci, oci)
            bar, desc = build_bar(repo, kinds)
            return it.call_function(f, [seq, bar, 6, bpm0], {}), desc
        try:
            p = explore(lambda ch: Interp(repo, ch, summaries=summ, max_depth=30), go)
        except CannotDecide as e:
            raise AnalysisError("play_Bar on shape %s: %s" % (kinds, e))
        ok, why = len(p) == 1 and p[0].kind == "return", "outcome %s" % [(x.kind, short(repr(x.value), 60)) for x in p][:2]
        if ok:
            it = p[0].interp
            res, desc = p[0].value
            want, final = model_bar(desc, bpm0)
            d1 = streams_equal(it, hook_stream(it), want)
            d2 = streams_equal(it, obs_low_stream(it), hook_stream(it))
            if d1:
                ok, why = False, "hook stream differs from the event model: %s" % d1
            elif d2:
                ok, why = False, "observers and hooks see different low-level streams: %s" % d2
            elif not (isinstance(res, dict) and set(res) == {"bpm"} and same_val(it, res["bpm"], final)):
                ok, why = False, "returns %r, expected {'bpm': final tempo}" % (res,)
        ctx.check(ok, R, "play_Bar[%s]" % ",".join(kinds), f.where(), "Sequencer.play_Bar(<%s>)" % ",".join(kinds), why)
    # play_Track threads the tempo through the bars
    ft = repo.find_method(sci, "play_Track")
    trci = repo.mod(TR).cls("Track")
    bpm0 = RatFun.var("bpm")

    def go(it):
        seq, obs = make_seq(sci, oci)
        b1, d1 = build_bar(repo, ["T2", "N1"], "x")
        b2, d2 = build_bar(repo, ["N1", "R"], "y")
        tr = AObj(trci, {"bars": [b1, b2]}, name="track")
        return it.call_function(ft, [seq, tr, 2, bpm0], {}), d1, d2
    p = explore(lambda ch: Interp(repo, ch, summaries=summ, max_depth=30), go)
    ok, why = len(p) == 1 and p[0].kind == "return", "outcome %s" % [(x.kind, short(repr(x.value), 60)) for x in p][:2]
    if ok:
        it = p[0].interp
        res, d1, d2 = p[0].value
        w1, t1 = model_bar(d1, bpm0)
        w2, t2 = model_bar(d2, t1)
        d = streams_equal(it, hook_stream(it), w1 + w2)
        if d:
            ok, why = False, "two bars played in sequence differ from the model (the second bar must use the tempo the first ended with): %s" % d
        elif not (isinstance(res, dict) and same_val(it, res.get("bpm"), t2)):
            ok, why = False, "returns %r" % (res,)
    ctx.check(ok, R, "play_Track", ft.where(), "Sequencer.play_Track(<2 bars>)", why)


def build_bar_fixed(repo, kinds, durs, tag, length=1.0):
    """A full bar with concrete beat positions/durations (the scheduler does float arithmetic on them); every Note has
    a channel and a velocity of its own (symbolic here), which take precedence over the bar's channel."""
    from fractions import Fraction
    nci, barci = repo.mod(NC).cls("NoteContainer"), repo.mod(BAR).cls("Bar")
    entries, desc, at, fbeat = [], [], Fraction(0), 0.0
    ids = itertools.count((hash(tag) % 900 + 50) * 10)
    for ei, (k, d) in enumerate(zip(kinds, durs)):
        notes = [note_stub(repo, next(ids)) for _ in range(KINDS[k])]
        content = None if k == "R" else AObj(nci, {"notes": list(notes)}, name="cont%s%d" % (tag, ei))
        bpm = None
        if k == "T2":
            bpm = RatFun.var("bpm_%s%d" % (tag, ei))
            content.attrs["bpm"] = bpm
        entries.append([fbeat, d, content])
        desc.append((k, d, notes, bpm, content))
        at += Fraction(1, d)
        fbeat += 1.0 / d  # the way Bar.place_notes advances current_beat
    return AObj(barci, {"bar": entries, "length": length, "current_beat": fbeat}, name="bar" + tag), desc


def model_parallel(descs, channels, bpm):
    """Equal rhythms in all bars: per step every bar's container starts (bar order), tempo changes of that step apply
    (the last bar's wins), one sleep of 240/(bpm*value), then every bar's container stops (bar order)."""
    ev = []
    for step in range(len(descs[0])):
        for desc, ch in zip(descs, channels):
            for n in desc[step][2]:
                ev.append(("play_event", [n.attrs["pitch"] + 12, n.attrs["channel"], n.attrs["velocity"]]))
            if desc[step][3] is not None:
                bpm = desc[step][3]
        b = RatFun.of(bpm)
        ev.append(("sleep", [RatFun(RatFun.of(240).num * b.den, b.num * RatFun.of(descs[0][step][1]).num)]))
        for desc, ch in zip(descs, channels):
            for n in desc[step][2]:
                ev.append(("stop_event", [n.attrs["pitch"] + 12, n.attrs["channel"]]))
    return ev, bpm


def rule_parallel_bars(ctx):
    """play_Bars on parallel bars with equal rhythms (the case the statement's timing clause covers)."""
    R = "R-C18-5"
    repo = ctx.repo
    sci, oci, summ = world(repo)
    f = repo.find_method(sci, "play_Bars")
    shapes = [
        ("tempo-in-first-bar", [2, 2], [["N1", "T2"], ["N1", "N1"]]),
        ("tempo-in-last-bar", [2, 2], [["N1", "N1"], ["T2", "N2"]]),
        ("tempo-first-step", [4, 4, 4, 4], [["T2", "N1", "N1", "N1"], ["N1", "N2", "R", "N1"]]),
        ("three-bars-middle", [2, 4, 4], [["N1", "N1", "N1"], ["N2", "T2", "R"], ["R", "N1", "N1"]]),
        ("both-change", [1], [["T2"], ["T2"]]),
        ("single", [4, 4, 2], [["N1", "T2", "N2"]]),
        ("no-change", [2, 2], [["N1", "R"], ["N2", "N1"]]),
    ]
    for label, durs, kinds_per_bar in shapes:
        bpm0 = RatFun.var("bpm")
        channels = [3 + i for i in range(len(kinds_per_bar))]

        def go(it):
            seq, obs = make_seq(sci, oci)
            built = [build_bar_fixed(repo, kinds, durs, "p%d" % i) for i, kinds in enumerate(kinds_per_bar)]
            return it.call_function(f, [seq, [b for b, _ in built], list(channels), bpm0], {}), [d for _, d in built]
        try:
            p = explore(lambda ch: Interp(repo, ch, summaries=summ, max_depth=30), go)
        except CannotDecide as e:
            raise AnalysisError("play_Bars on %s: %s" % (label, e))
        ok, why = len(p) == 1 and p[0].kind == "return", "outcome %s" % [(x.kind, short(repr(x.value), 60)) for x in p][:2]
        if ok:
            it = p[0].interp
            res, descs = p[0].value
            want, final = model_parallel(descs, channels, bpm0)
            d1 = streams_equal(it, hook_stream(it), want)
            d2 = streams_equal(it, obs_low_stream(it), hook_stream(it))
            if d1:
                ok, why = False, "hook stream differs from the event model of parallel bars: %s" % d1
            elif d2:
                ok, why = False, "observers and hooks see different low-level streams: %s" % d2
            elif not (isinstance(res, dict) and set(res) == {"bpm"} and same_val(it, res["bpm"], final)):
                ok, why = False, "returns %r, expected {'bpm': final tempo}" % (res,)
        ctx.check(ok, R, "play_Bars[%s]" % label, f.where(), "Sequencer.play_Bars(<%s>)" % label, why)


def model_timeline(descs, bpm):
    """Bars with different rhythms: the union of their time lines.  Returns [(group of events, sleep or None)]: at
    every boundary the entries ending there stop and the entries beginning there start, then one sleep lasts until the
    next boundary.  (Tempo changes are not used in these shapes.)"""
    from fractions import Fraction
    spans = []  # (start, end, notes)
    for desc in descs:
        at = Fraction(0)
        for k, d, notes, newbpm, content in desc:
            spans.append((at, at + Fraction(1) / Fraction(d).limit_denominator(1000), notes))
            at += Fraction(1) / Fraction(d).limit_denominator(1000)
    times = sorted({t for a, b, _ in spans for t in (a, b)})
    if not times:
        return [([], None)]  # nothing to play: no event and no sleep
    out = []
    b = RatFun.of(bpm)
    for i, t in enumerate(times):
        group = []
        for a, e, notes in spans:
            if e == t:
                group += [("stop_event", [n.attrs["pitch"] + 12, n.attrs["channel"]]) for n in notes]
        for a, e, notes in spans:
            if a == t:
                group += [("play_event", [n.attrs["pitch"] + 12, n.attrs["channel"], n.attrs["velocity"]]) for n in notes]
        sleep = None
        if i + 1 < len(times):
            d = times[i + 1] - t
            sleep = ("sleep", [RatFun(RatFun.of(240 * d.numerator).num * b.den, b.num * RatFun.of(d.denominator).num)])
        out.append((group, sleep))
    return out


def rule_unequal_rhythms(ctx):
    """play_Bars on parallel bars whose rhythms differ: every entry is started once and stopped once, at its own
    boundaries; the sleeps add up along the union of the bars' time lines."""
    R = "R-C18-5"
    repo = ctx.repo
    sci, oci, summ = world(repo)
    f = repo.find_method(sci, "play_Bars")
    shapes = [
        ("whole against quarters", [["N1"], ["N1", "N1", "N1", "N1"]], [[1], [4, 4, 4, 4]]),
        ("halves against quarter-half-quarter", [["N1", "N2"], ["N1", "N1", "N1"]], [[2, 2], [4, 2, 4]]),
        ("rest in one bar", [["N1", "R"], ["N1", "N1", "N2"]], [[2, 2], [4, 4, 2]]),
        ("three bars", [["N1"], ["N1", "N1"], ["N1", "N1", "N1", "N1"]], [[1], [2, 2], [4, 4, 4, 4]]),
        # bars that are not full (the last bar of most tracks): everything that is there is played once, the tempo is returned
        ("half-full bars", [["N1", "N1"], ["N2"]], [[4, 4], [2]]),
        ("single half-full bar", [["N1", "R", "N1"]], [[4, 8, 8]]),
        ("first bar shorter", [["N1"], ["N1", "N1", "N1"]], [[4], [4, 4, 4]]),
        # a bar with nothing in it yet (a new bar of a track, a voice that has not entered) plays nothing and ends nothing early
        ("empty bar alone", [[]], [[]]),
        ("empty bar beside a full one", [["N1", "N1"], []], [[2, 2], []]),
        ("empty bar first", [[], ["N1", "N2"]], [[], [2, 2]]),
        # tuplets against binary values: the beat sums of the two bars are rounded differently in floating point
        ("triplets against eighths (2/4)", [["N1", "N1", "N1"], ["N1", "N1", "N1"]], [[12, 6, 4], [8, 4, 8]], 0.5),
        ("eighths against triplets (2/4)", [["N1", "N1", "N1"], ["N1", "N1", "N1"]], [[8, 8, 4], [12, 6, 4]], 0.5),
        ("triplet figure against quarters", [["N1"] * 6, ["N1"] * 4], [[4, 12, 12, 12, 4, 4], [4, 4, 4, 4]]),
        ("quintuplets against a half and quarters", [["N1"] * 7, ["N1", "N1", "N1"]], [[10, 10, 10, 10, 10, 4, 4], [2, 4, 4]]),
    ]
    for shape in shapes:
        label, kinds_per_bar, durs_per_bar = shape[:3]
        blen = shape[3] if len(shape) > 3 else 1.0
        bpm0 = RatFun.var("bpm")
        channels = [3 + i for i in range(len(kinds_per_bar))]

        def go(it):
            seq, obs = make_seq(sci, oci)
            built = [build_bar_fixed(repo, kinds, durs, "u%d" % i, blen) for i, (kinds, durs) in enumerate(zip(kinds_per_bar, durs_per_bar))]
            return it.call_function(f, [seq, [b for b, _ in built], list(channels), bpm0], {}), [d for _, d in built]
        try:
            p = explore(lambda ch: Interp(repo, ch, summaries=summ, max_depth=30), go)
        except CannotDecide as e:
            raise AnalysisError("play_Bars on %s: %s" % (label, e))
        ok, why = len(p) == 1 and p[0].kind == "return", "outcome %s" % [(x.kind, short(repr(x.value), 60)) for x in p][:2]
        if ok:
            it = p[0].interp
            res, descs = p[0].value
            got = hook_stream(it)
            # split the observed stream at the sleeps
            groups, cur, sleeps = [], [], []
            for e in got:
                if e[0] == "sleep":
                    groups.append(cur)
                    sleeps.append(e)
                    cur = []
                else:
                    cur.append(e)
            groups.append(cur)
            want = model_timeline(descs, bpm0)

            def key(it_, ev):
                return (ev[0], tuple(repr(it_.resolve(Lin.of(a))) if Lin.of(a) is not None and not isinstance(a, (str, bool)) else repr(a) for a in ev[1]))
            n_play = sum(1 for e in got if e[0] == "play_event")
            n_want = sum(1 for g, _ in want for e in g if e[0] == "play_event")
            if n_play != n_want or sum(1 for e in got if e[0] == "stop_event") != n_want:
                ok, why = False, "%d play and %d stop events for %d sounding notes (every note is started once and stopped once)" % (
                    n_play, sum(1 for e in got if e[0] == "stop_event"), n_want)
            elif len(groups) != len(want):
                ok, why = False, "%d sleeps, the bars' time lines have %d boundaries" % (len(sleeps), len(want))
            else:
                for i, ((wg, ws), g) in enumerate(zip(want, groups)):
                    if sorted(key(it, e) for e in g) != sorted(key(it, e) for e in wg):
                        ok, why = False, "at boundary #%d the events are %s, the time lines give %s" % (i, [e[0] for e in g], [e[0] for e in wg])
                        break
                    if ws is not None and streams_equal(it, [sleeps[i]], [ws]):
                        ok, why = False, "sleep #%d: %s" % (i, streams_equal(it, [sleeps[i]], [ws]))
                        break
            if ok and streams_equal(it, obs_low_stream(it), got):
                ok, why = False, "observers and hooks see different low-level streams"
            if ok and not (isinstance(res, dict) and set(res) == {"bpm"} and same_val(it, res["bpm"], bpm0)):
                ok, why = False, "returns %r, expected {'bpm': tempo}" % (res,)
        ctx.check(ok, R, "play_Bars[%s]" % label, f.where(), "Sequencer.play_Bars(<%s>)" % label, why)


def rule_tracks(ctx):
    R = "R-C18-6"
    repo = ctx.repo
    sci, oci, summ = world(repo)
    f = repo.find_method(sci, "play_Tracks")
    mici = repo.mod(INS).cls("MidiInstrument")
    names = repo.try_const(mici.module, mici.attrs.get("names")) or []
    rec = dict(summ)
    rec["%s.Sequencer.play_Bars" % SQ] = recorder("play_Bars", lambda it, a, k: {"bpm": a[3] if len(a) > 3 else k.get("bpm")})
    trci = repo.mod(TR).cls("Track")

    def go(it):
        seq, obs = make_seq(sci, oci)
        ins = [AObj(mici, {"name": names[40] if len(names) > 40 else "Violin"}, name="violin"), None,
               AObj(repo.mod(INS).cls("Piano"), {}, name="piano"), AObj(mici, {"name": "no such instrument"}, name="unknown")]
        tracks = [AObj(trci, {"bars": [Token("bar%d_0" % i), Token("bar%d_1" % i)], "instrument": ins[i]}, name="t%d" % i) for i in range(4)]
        return it.call_function(f, [seq, tracks, [11, 12, 13, 14], 100], {}), tracks
    p = explore(lambda ch: Interp(repo, ch, summaries=rec, max_depth=30), go)
    ok, why = len(p) == 1 and p[0].kind == "return", "outcome %s" % [(x.kind, short(repr(x.value), 60)) for x in p][:2]
    if ok:
        it = p[0].interp
        log = log_of(it)
        first_bars = next((i for i, e in enumerate(log) if e[0] == "play_Bars"), len(log))
        instr = [(e[1][1:]) for e in log[:first_bars] if e[0] == "hook:instr_event"]
        want = [[11, 40, 0], [12, 1, 0], [13, 1, 0], [14, 1, 0]]
        later = [e for e in log[first_bars:] if e[0] == "hook:instr_event"]
        bars = [e[1][1] for e in log if e[0] == "play_Bars"]
        if instr != want or later:
            ok, why = False, "instrument announcements %s (and %d after playback started), expected one per track on its channel: %s" % (instr, len(later), want)
        elif len(bars) != 2 or any(len(b) != 4 for b in bars) or [getattr(x, "tag", None) for x in bars[1]] != ["bar%d_1" % i for i in range(4)]:
            ok, why = False, "bars are not played together index by index: %s" % (bars,)
        elif not (isinstance(p[0].value[0], dict) and p[0].value[0].get("bpm") == 100):
            ok, why = False, "returns %r" % (p[0].value[0],)
    ctx.check(ok, R, "play_Tracks", f.where(), "Sequencer.play_Tracks(<4 tracks>)", why)
    fc = repo.find_method(sci, "play_Composition")
    rec2 = dict(summ)
    rec2["%s.Sequencer.play_Tracks" % SQ] = recorder("play_Tracks", {"bpm": 90})
    comp = AObj(repo.mod("mingus.containers.composition").cls("Composition"), {"tracks": [Token("t0"), Token("t1"), Token("t2")]}, name="comp")
    for channels, want in ((None, [1, 2, 3]), ([7, 8, 9], [7, 8, 9])):
        p = run_method(repo, fc, lambda: [AObj(sci, {"listeners": []}, name="seq"), comp, channels, 90], summaries=rec2)
        got = [e[1][1:] for e in log_of(p[0].interp) if e[0] == "play_Tracks"] if len(p) == 1 else None
        ok = got is not None and len(got) == 1 and got[0][0] is comp.attrs["tracks"] and got[0][1] == want and got[0][2] == 90 and p[0].value == {"bpm": 90}
        ctx.check(ok, R, "play_Composition[channels=%s]" % (channels,), fc.where(), "Sequencer.play_Composition(comp, %s)" % (channels,),
                  "must play the composition's tracks on channels %s and return the final tempo: %s" % (want, got))
    # every play_* returns {'bpm': ...} on success (interface of play_Bars: checked on its return statements)
    fb = repo.find_method(sci, "play_Bars")
    rets = [n for n in walk_no_nested(fb.node) if isinstance(n, ast.Return)]
    last = max(rets, key=lambda r: r.lineno) if rets else None
    ok = last is not None and isinstance(last.value, ast.Dict) and [getattr(k, "value", None) for k in last.value.keys] == ["bpm"]
    ctx.check(ok, R, "play_Bars.return", fb.where(), "Sequencer.play_Bars final return", "the successful return must be {'bpm': bpm}")


def mutation_while_iterating(fi):
    """for x in L: ... L.remove(..) / L.append(..) / del L[..] with L a plain name (not a copy)."""
    hits = []
    for n in walk_no_nested(fi.node):
        if isinstance(n, ast.For) and isinstance(n.iter, ast.Name):
            name = n.iter.id
            for b in n.body:
                for x in ast.walk(b):
                    if isinstance(x, ast.Call) and isinstance(x.func, ast.Attribute) and isinstance(x.func.value, ast.Name) \
                            and x.func.value.id == name and x.func.attr in ("remove", "append", "insert", "pop", "extend", "clear", "sort", "reverse"):
                        hits.append((n, x))
                    elif isinstance(x, ast.Delete) and any(isinstance(t, ast.Subscript) and isinstance(t.value, ast.Name) and t.value.id == name for t in x.targets):
                        hits.append((n, x))
    return hits


def rule_mutation_while_iterating(ctx):
    R = "R-C18-7"
    repo = ctx.repo
    mod = repo.mod(SQ)
    total = 0
    for qn, fi in mod.functions.items():
        hits = mutation_while_iterating(fi)
        total += 1
        ctx.check(not hits, R, "%s" % qn, fi.where(hits[0][0] if hits else None), hits[0][0] if hits else "def %s" % qn,
                  "the loop '%s' changes the list it iterates (%s): elements are skipped -- in play_Bars every other sounding container is never stopped" % (
                      short(hits[0][0], 40) if hits else "", short(hits[0][1], 40) if hits else ""))
    # positive fixture
    src = "def f(xs):\n    for p in xs:\n        xs.remove(p)\n"
    tree = ast.parse(src)

    class F:
        node = tree.body[0]
    if not mutation_while_iterating(F):
        raise AnalysisError("mutation-while-iterating lint lost its positive fixture")
    ctx.held(R, "fixture", "inline fixture")
