"""C09 -- note values and meters (mingus/core/value.py, mingus/core/meter.py)."""
from __future__ import annotations

import ast
from fractions import Fraction

from ..engine.absval import Lin, Sym, Opaque, INF
from ..engine.absint import CannotDecide, Interp, explore, RaiseEx, Frame, BreakEx, ContinueEx, ReturnEx
from ..engine.loader import AnalysisError, short
from ..engine.numdom import FInt, RatFun, fint_builtin_wrap
from ..engine.notesdom import paths_of

PROP = "C09"
EXPLANATION = (
    "Static rules over value.py / meter.py: the value tables are constant-folded and compared with powers of two "
    "and exact tuplet ratios; the arithmetic helpers are evaluated over symbolic rational functions (add/subtract "
    "are the reciprocal of duration addition/subtraction and mutually inverse as rational functions; dots and "
    "tuplets equal their closed forms); value.determine is specialised to every constructible value (10 bases x "
    "{0..4 dots, 3:2, 5:4, 7:4}) and evaluated over the interval domain on +-1% neighbourhoods of every undotted "
    "and single-dotted recognised value (all paths must return the class); the meter loop is checked for "
    "recurrent sets (an interval of inputs from which one abstract iteration re-enters the loop inside the same "
    "interval = non-termination) and the predicates are evaluated on the residue/threshold partition of the count.")
TRUSTED = ["CPython ast module", "mingus_static abstract evaluator + numeric domains (engine/numdom.py)", "exact rational oracle in rules/c09.py"]
NOT_DECIDED = "floating-point equality of add/subtract round trips; 1% tolerance for values with two or more dots"

V = "mingus.core.value"
MT = "mingus.core.meter"
BASES = [Fraction(1, 4), Fraction(1, 2)] + [Fraction(2 ** k) for k in range(8)]
RATIOS = {"triplet": (3, 2), "quintuplet": (5, 4), "septuplet": (7, 4)}


def o_dots(v, n):
    return v / (2 - Fraction(1, 2 ** n))


def run(ctx):
    vmod, mmod = ctx.repo.mod(V), ctx.repo.mod(MT)
    ctx.touch(vmod, mmod)
    rule_tables(ctx, vmod)
    rule_formulas(ctx, vmod)
    rule_determine(ctx, vmod)
    rule_termination(ctx, mmod)
    rule_predicates(ctx, mmod)
    ctx.floor("R-C09-1", 20)
    ctx.floor("R-C09-2", 12)
    ctx.floor("R-C09-3", 80 + 40)
    ctx.floor("R-C09-4", 4)
    ctx.floor("R-C09-5", 60)


def rule_tables(ctx, vmod):
    R = "R-C09-1"
    want = {"base_values": [float(b) for b in BASES],
            "base_triplets": [float(b * Fraction(3, 2)) for b in BASES],
            "base_quintuplets": [float(b * Fraction(5, 4)) for b in BASES],
            "base_septuplets": [float(b * Fraction(7, 4)) for b in BASES]}
    for name, w in want.items():
        node = vmod.glob(name)
        got = vmod.const(name)
        ctx.check(list(got) == w, R, name, vmod.where(node), "%s = [...]" % name,
                  "table %s is %s, expected %s" % (name, got, w))
    named = {"longa": 0.25, "breve": 0.5, "semibreve": 1, "minim": 2, "crotchet": 4, "quaver": 8, "semiquaver": 16,
             "demisemiquaver": 32, "hemidemisemiquaver": 64, "quasihemidemisemiquaver": 128,
             "semihemidemisemiquaver": 128, "whole": 1, "half": 2, "quarter": 4, "eighth": 8, "sixteenth": 16,
             "thirty_second": 32, "sixty_fourth": 64, "hundred_twenty_eighth": 128}
    for name, w in named.items():
        node = vmod.glob(name)
        got = vmod.const(name)
        ctx.check(got == w, R, name, vmod.where(node), "%s = %s" % (name, short(node)), "%s is %r, expected %r" % (name, got, w))


def _rat_paths(ctx, fi, args):
    def mk(ch):
        it = Interp(ctx.repo, ch)
        fint_builtin_wrap(it)
        return it
    return explore(mk, lambda it: it.call_function(fi, list(args), {}))


def rule_formulas(ctx, vmod):
    R = "R-C09-2"
    a, b = RatFun.var("a"), RatFun.var("b")
    one = RatFun.of(1)
    D = lambda x: RatFun(x.den, x.num)  # duration = reciprocal

    def single(fname, args):
        fi = vmod.func(fname)
        ctx.touch(fi)
        try:
            ps = _rat_paths(ctx, fi, args)
        except CannotDecide as e:
            raise AnalysisError("%s: %s" % (fname, e))
        if len(ps) != 1 or ps[0].kind != "return" or RatFun.of(ps[0].value) is None:
            return None, ps
        return RatFun.of(ps[0].value), ps
    r_add, ps = single("add", [a, b])
    sum_dur = RatFun(a.den * b.num + b.den * a.num, a.num * b.num)  # 1/a + 1/b
    ctx.check(r_add is not None and D(r_add).same(sum_dur), R, "add", vmod.func("add").where(), "add(a, b)",
              "add(a, b) = %r does not stand for the duration 1/a + 1/b" % (r_add if r_add is not None else ps,))
    r_sub, ps = single("subtract", [a, b])
    diff_dur = RatFun(b.num * a.den - a.num * b.den, a.num * b.num)  # 1/a - 1/b
    ctx.check(r_sub is not None and D(r_sub).same(diff_dur), R, "subtract", vmod.func("subtract").where(), "subtract(a, b)",
              "subtract(a, b) = %r does not stand for the duration 1/a - 1/b" % (r_sub if r_sub is not None else ps,))
    if r_add is not None:
        r_inv, ps = single("subtract", [r_add, b])
        ctx.check(r_inv is not None and r_inv.same(a), R, "subtract(add)", vmod.func("subtract").where(), "subtract(add(a, b), b)",
                  "subtract(add(a, b), b) = %r is not a" % (r_inv if r_inv is not None else ps,))
    if r_sub is not None:
        r_inv, ps = single("add", [r_sub, b])
        ctx.check(r_inv is not None and r_inv.same(a), R, "add(subtract)", vmod.func("add").where(), "add(subtract(a, b), b)",
                  "add(subtract(a, b), b) = %r is not a" % (r_inv if r_inv is not None else ps,))
    for r1, r2 in ((3, 2), (5, 4), (7, 8), (2, 3)):
        r, ps = single("tuplet", [a, r1, r2])
        ctx.check(r is not None and r.same(RatFun(a.num * RatFun.of(r1).num, a.den * RatFun.of(r2).num)), R, "tuplet[%d:%d]" % (r1, r2),
                  vmod.func("tuplet").where(), "tuplet(v, %d, %d)" % (r1, r2), "tuplet(v, %d, %d) = %r is not %d*v/%d" % (r1, r2, r if r is not None else ps, r1, r2))
    for fname, extra, (r1, r2) in (("triplet", [], (3, 2)), ("quintuplet", [], (5, 4)), ("septuplet", [], (7, 4)),
                                   ("septuplet", [True], (7, 4)), ("septuplet", [False], (7, 8))):
        r, ps = single(fname, [a] + extra)
        ctx.check(r is not None and r.same(RatFun(a.num * RatFun.of(r1).num, a.den * RatFun.of(r2).num)), R, "%s%s" % (fname, extra or ""),
                  vmod.func(fname).where(), "%s(v%s)" % (fname, "".join(", %s" % e for e in extra)),
                  "%s = %r is not the %d:%d tuplet %d*v/%d" % (fname, r if r is not None else ps, r1, r2, r1, r2))
    for n in range(0, 5):
        r, ps = single("dots", [a, n])
        want = RatFun(a.num * RatFun.of(2 ** n).num, a.den * RatFun.of(2 ** (n + 1) - 1).num)  # v * 2^n / (2^(n+1) - 1)
        ctx.check(r is not None and r.same(want), R, "dots[%d]" % n, vmod.func("dots").where(), "dots(v, %d)" % n,
                  "dots(v, %d) = %r, a value with %d dots lasts (2 - 2^-%d)/v" % (n, r if r is not None else ps, n, n))
    dflt = ctx.repo.try_const(vmod, vmod.func("dots").defaults.get("nr"))
    ctx.check(dflt == 1, R, "dots.default", vmod.func("dots").where(), "dots default", "default number of dots is %r" % (dflt,))


def _class_ok(it, v, base, dots, ratio):
    if not isinstance(v, tuple) or len(v) != 4:
        return False
    b = v[0]
    if isinstance(b, FInt):
        b = it.__dict__.get("fint_equal", {}).get(id(b), None)
    try:
        return b is not None and Fraction(b) == base and tuple(v[1:]) == (dots, ratio[0], ratio[1])
    except (TypeError, ValueError):
        return False


def rule_determine(ctx, vmod):
    R = "R-C09-3"
    fi = vmod.func("determine")
    ctx.touch(fi)
    fd, ft = vmod.func("dots"), vmod.func("tuplet")
    # (a) exact constructible values, built with the module's own constructors (float arithmetic as written)
    for base in BASES:
        cases = [("dots%d" % n, fd, [float(base) if base < 1 else int(base), n], (base, n, (1, 1))) for n in range(5)]
        cases += [(name, vmod.func(name), [float(base) if base < 1 else int(base)], (base, 0, rat)) for name, rat in RATIOS.items()]
        for label, cfi, cargs, (b, d, rat) in cases:
            def both(it, cfi=cfi, cargs=cargs):
                val = it.call_function(cfi, list(cargs), {})
                return val, it.call_function(fi, [val], {})
            ps = explore(lambda ch: Interp(ctx.repo, ch), both)
            ok = len(ps) == 1 and ps[0].kind == "return" and _class_ok(ps[0].interp, ps[0].value[1], b, d, rat)
            ctx.check(ok, R, "exact[%s,%s]" % (base, label), fi.where(), "determine(%s of %s)" % (label, base),
                      "the value built as %s of %s is analysed as %s, expected (%s, %d, %d, %d)" % (
                          label, base, [(p.kind, p.value) for p in ps][:2], base, d, rat[0], rat[1]))
    # (b) +-1% neighbourhoods of undotted and single-dotted recognised values
    for base in BASES:
        classes = [("plain", base, 0, (1, 1), base), ("dotted", base, 1, (1, 1), o_dots(base, 1))]
        classes += [(name, base, 0, rat, base * Fraction(rat[0], rat[1])) for name, rat in RATIOS.items()]
        for label, b, d, rat, centre in classes:
            x = FInt(centre * Fraction(99, 100), centre * Fraction(101, 100), "value")

            def mk(ch):
                it = Interp(ctx.repo, ch)
                fint_builtin_wrap(it)
                return it
            try:
                ps = explore(mk, lambda it: it.call_function(fi, [x], {}))
            except CannotDecide as e:
                raise AnalysisError("determine on the neighbourhood of %s %s: %s" % (label, base, e))
            bad = [p for p in ps if not (p.kind == "return" and _class_ok(p.interp, p.value, b, d, rat))]
            ctx.check(not bad, R, "near[%s,%s]" % (base, label), fi.where(), "determine(value within 1%% of %s %s = %s)" % (label, base, float(centre)),
                      "a value within 1%% of %s (%s of base %s) can be analysed as %s on the path %s; expected (%s, %d, %d, %d)" % (
                          float(centre), label, base, bad[0].value if bad else None, [t for t in (bad[0].trace if bad else [])][-3:], base, d, rat[0], rat[1]))

    # (c) values with two to four dots that carry rounding noise: the module's own add / subtract (and the track that
    #     splits an entry over a bar line with them) hand back such a value a few ulps off the float dots() builds --
    #     "adding and subtracting are inverse" as determine() sees it.  Window: 1e-12 relative (a thousand ulps).
    for base in BASES:
        for d in (2, 3, 4):
            centre = o_dots(base, d)
            x = FInt(centre * (1 - Fraction(1, 10 ** 12)), centre * (1 + Fraction(1, 10 ** 12)), "value")

            def mk(ch):
                it = Interp(ctx.repo, ch)
                fint_builtin_wrap(it)
                return it
            try:
                ps = explore(mk, lambda it: it.call_function(fi, [x], {}))
            except CannotDecide as e:
                raise AnalysisError("determine on the rounding neighbourhood of %s with %d dots: %s" % (base, d, e))
            bad = [p for p in ps if not (p.kind == "return" and _class_ok(p.interp, p.value, base, d, (1, 1)))]
            ctx.check(not bad, R, "noise[%s,dots%d]" % (base, d), fi.where(), "determine(value within 1e-12 (relative) of %s with %d dots = %r)" % (base, d, float(centre)),
                      "a value a few ulps off %r -- e.g. subtract(add(v, w), w), or the remainder Track.from_chords carries over a bar line -- is analysed as %s, "
                      "expected (%s, %d, 1, 1)" % (float(centre), bad[0].value if bad else None, base, d))


def rule_termination(ctx, mmod):
    R = "R-C09-4"
    fi = mmod.func("valid_beat_duration")
    ctx.touch(fi)
    regions = [("(0, 1)", Fraction(1, 1000), Fraction(999, 1000)), ("(-1, 0)", Fraction(-999, 1000), Fraction(-1, 1000)),
               ("(1, 2)", Fraction(1001, 1000), Fraction(1999, 1000))]
    loops = [n for n in ast.walk(fi.node) if isinstance(n, ast.While)]
    for loop in loops:
        names = {n.id for n in ast.walk(loop.test) if isinstance(n, ast.Name)}
        for label, lo, hi in regions:
            recurrent = []
            for var in sorted(names):
                x = FInt(lo, hi, var)

                def one_iteration(it, var=var, x=x):
                    fr = Frame(fi, {p: x for p in fi.params})
                    fr.locals[var] = x
                    if not it.truth(it.eval(loop.test, fr), loop.test):
                        return ("exit", None)
                    try:
                        it.exec_block(loop.body, fr)
                    except BreakEx:
                        return ("exit", None)
                    except ContinueEx:
                        pass
                    return ("again", fr.locals.get(var))

                def mk(ch):
                    it = Interp(ctx.repo, ch)
                    fint_builtin_wrap(it)
                    return it
                try:
                    ps = explore(mk, one_iteration)
                except CannotDecide as e:
                    raise AnalysisError("valid_beat_duration loop on %s: %s" % (label, e))
                for p in ps:
                    if p.kind == "return" and isinstance(p.value, tuple) and p.value[0] == "again":
                        nv = p.value[1]
                        # stays inside the open region (or shrinks towards 0 inside it): recurrent set
                        inside = isinstance(nv, FInt) and lo <= nv.lo and nv.hi <= hi
                        shrinking = isinstance(nv, FInt) and abs(hi) <= 1 and abs(lo) <= 1 and (
                            (lo > 0 and 0 < nv.lo and nv.hi <= hi) or (hi < 0 and lo <= nv.lo and nv.hi < 0))
                        if inside or shrinking:
                            recurrent.append((var, nv))
            ctx.check(not recurrent, R, "loop%s" % label, fi.where(loop), "while %s" % short(loop.test),
                      "for a beat unit in %s one iteration neither leaves the loop nor the interval (next value %s): "
                      "the loop never terminates for such inputs" % (label, recurrent[:1]))
    # integers: exactly the non-negative powers of two
    calls = list(range(0, 130)) + [256, 512, 1024, 1000, -1, -2, -4, -8]
    # integers beyond the 53 bits a float carries exactly, and beyond the float range
    calls += [2 ** 53, 2 ** 54 + 2, 2 ** 54 - 2, 2 ** 60 + 4, 3 * 2 ** 60, 2 ** 64, 2 ** 100, 2 ** 100 + 2 ** 40, 2 ** 1025, 3 * 2 ** 1025, 2 ** 2000 + 2]
    bad = []
    for n in calls:
        try:
            ps = paths_of(ctx.repo, fi, [n], max_iter=3000)
        except CannotDecide as e:
            bad.append((n, "does not terminate: %s" % short(str(e), 80), None))
            continue
        want = n > 0 and (n & (n - 1)) == 0
        if not (len(ps) == 1 and ps[0].kind == "return" and ps[0].value is want):
            bad.append((n, [(p.kind, p.value) for p in ps], want))
    ctx.check(not bad, R, "integers", fi.where(), "valid_beat_duration(n) for integers",
              "valid beat units must be exactly 1, 2, 4, 8, ...: %s" % [(("2**%d%+d" % (x[0].bit_length() - 1, x[0] - 2 ** (x[0].bit_length() - 1)) if x[0] > 10 ** 6 else x[0]),) + tuple(x[1:]) for x in bad[:4]])
    for label, x in (("2.5", 2.5), ("0.5", 0.5), ("-0.25", -0.25), ("3.0", 3.0), ("6.5", 6.5), ("inf", float("inf")), ("-inf", float("-inf")),
                     ("nan", float("nan")), ("1e300", 1e300), ("5e-324", 5e-324)):
        def mk(ch):
            return Interp(ctx.repo, ch, max_iter=3000)
        try:
            ps = explore(mk, lambda it: it.call_function(fi, [x], {}))
            ok = len(ps) == 1 and ps[0].kind == "return" and ps[0].value is False
            why = "%s gives %s" % (label, [(p.kind, p.value) for p in ps])
        except CannotDecide as e:
            ok, why = False, "does not terminate on %s (%s)" % (label, short(str(e), 160))
        ctx.check(ok, R, "fraction[%s]" % label, fi.where(), "valid_beat_duration(%s)" % label, why)


def rule_predicates(ctx, mmod):
    R = "R-C09-5"
    fv = mmod.func("valid_beat_duration")
    specs = {
        "is_valid": lambda c, v: c > 0 and v,
        "is_simple": lambda c, v: c > 0 and v,
        "is_compound": lambda c, v: c > 0 and v and c % 3 == 0 and c >= 6,
        "is_asymmetrical": lambda c, v: c > 0 and v and c % 2 == 1,
    }
    counts = [-3, -1, 0] + list(range(1, 19))
    unit = Opaque("unit")
    for fname, oracle in specs.items():
        fi = mmod.func(fname)
        ctx.touch(fi)
        for valid in (True, False):
            def vbd(it, args, kwargs, node, valid=valid):
                if args[0] is unit:
                    return valid
                raise CannotDecide("valid_beat_duration called on %r" % (args[0],))
            for c in counts:
                ps = paths_of(ctx.repo, fi, [(c, unit)], summaries={MT + ".valid_beat_duration": vbd})
                want = bool(oracle(c, valid))
                ok = len(ps) == 1 and ps[0].kind == "return" and bool(ps[0].value) is want and isinstance(ps[0].value, bool)
                ctx.check(ok, R, "%s[count=%d,unit %s]" % (fname, c, "valid" if valid else "invalid"), fi.where(),
                          "%s((%d, unit))" % (fname, c), "%s gives %s for count %d with a %s beat unit, expected %s" % (
                              fname, [(p.kind, p.value) for p in ps], c, "valid" if valid else "invalid", want))
