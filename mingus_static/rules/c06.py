"""C06 -- chord construction (mingus/core/chords.py)."""
from __future__ import annotations

from ..engine.absval import Lin, Sym, Ch, Run, AbsStr, Rep, Sel, Opaque, INF
from ..engine.absint import CannotDecide, Interp, explore
from ..engine.loader import AnalysisError, short, FuncRef, NotConst
from ..engine import notesdom as nd
from ..engine.notesdom import paths_of, NAT, LETTERS, formula

PROP = "C06"
EXPLANATION = (
    "Static rules over mingus/core/chords.py: every builder reachable from chord_shorthand (incl. the lambda) is "
    "evaluated in the offset domain (root = 7 letters x symbolic accidentals; interval constructors summarised by "
    "their C02-verified (letter, semitone) post-condition) and its list of (letter offset, semitone offset) compared "
    "with a chord-theory oracle keyed by the *meaning* string; the two shorthand tables are compared as sets and "
    "per meaning; the parser from_shorthand is evaluated abstractly on root shapes x every table key, alias "
    "spellings, slash basses, polychords, NC, list input and malformed-input classes.")
TRUSTED = ["CPython ast module", "mingus_static abstract evaluator", "C01/C02/C04 summaries (engine/notesdom.interval_model)",
           "chord-theory oracle ORACLE in rules/c06.py"]
NOT_DECIDED = "nested slash/polychord combinations beyond one level; exact spelling of notes (letter and pitch class are decided)"

C = "mingus.core.chords"

ORACLE = {
    " minor triad": "1 b3 5", " major triad": "1 3 5", " diminished triad": "1 b3 b5",
    " augmented triad": "1 3 #5", " augmented minor seventh": "1 3 #5 b7",
    " augmented major seventh": "1 3 #5 7", " suspended seventh": "1 4 5 b7",
    " suspended fourth triad": "1 4 5", " suspended second triad": "1 2 5",
    " eleventh": "1 5 b7 11", " suspended fourth ninth": "1 4 5 b9",
    " minor seventh": "1 b3 5 b7", " major seventh": "1 3 5 7", " dominant seventh": "1 3 5 b7",
    " half diminished seventh": "1 b3 b5 b7", " diminished seventh": "1 b3 b5 bb7",
    " minor/major seventh": "1 b3 5 7", " minor sixth": "1 b3 5 6", " major sixth": "1 3 5 6",
    " dominant sixth": "1 3 5 6 b7", " sixth ninth": "1 3 5 6 9", " dominant ninth": "1 3 5 b7 9",
    " dominant flat ninth": "1 3 5 b7 b9", " dominant sharp ninth": "1 3 5 b7 #9",
    " major ninth": "1 3 5 7 9", " minor ninth": "1 b3 5 b7 9", " lydian dominant seventh": "1 3 5 b7 #11",
    " minor eleventh": "1 b3 5 b7 11", " major eleventh": "1 3 5 7 11", " major thirteenth": "1 3 5 7 9 13",
    " minor thirteenth": "1 b3 5 b7 9 13", " dominant thirteenth": "1 3 5 b7 9 13",
    " dominant flat five": "1 3 b5 b7", " hendrix chord": "1 3 5 b7 b3", " perfect fifth": "1 5",
}


def tables(ctx):
    mod = ctx.repo.mod(C)
    try:
        sh = mod.const("chord_shorthand")
        mean = mod.const("chord_shorthand_meaning")
    except (NotConst, Exception) as e:
        raise AnalysisError("chord tables are not constant: %s" % e)
    if not isinstance(sh, dict) or not isinstance(mean, dict):
        raise AnalysisError("chord tables are not dictionaries")
    return mod, sh, mean


def chord_formula(it, values, L, root_pitch):
    out = []
    for v in values:
        out.append(nd.rel(it, v, L, root_pitch))
    return out


def builder_formulas(ctx, fi, L, model):
    """All abstract outcomes of builder(root) as formulas; root = L + arbitrary accidentals."""
    run = nd.acc_run("R")
    root = AbsStr([L, run])
    root_pitch = Lin.of(NAT[L]) + nd.run_net(run)
    try:
        paths = paths_of(ctx.repo, fi, [root], summaries=model)
    except CannotDecide as e:
        # The builder leaves the offset domain (e.g. it asks for a diatonic interval in a symbolic key):
        # specialise over concrete roots with the real interval code instead.
        ctx.note("R-C06-1", "%s left the offset domain on root %s.. (%s); specialised over concrete accidentals" % (fi.qualname, L, str(e)[:80]))
        res = []
        for acc in ("", "#", "b", "##", "bb", "###", "bbb"):
            croot = L + acc
            cp = Lin.of(NAT[L] + acc.count("#") - acc.count("b"))
            for p in paths_of(ctx.repo, fi, [croot]):
                if p.kind != "return" or not isinstance(p.value, list):
                    res.append("root %s: %s %r" % (croot, p.kind, p.value))
                else:
                    res.append(chord_formula(p.interp, p.value, L, cp))
        return res
    res = []
    for p in paths:
        if p.kind != "return" or not isinstance(p.value, list):
            res.append("%s %r" % (p.kind, p.value))
        else:
            f = chord_formula(p.interp, p.value, L, root_pitch)
            if p.value and p.value[0] is not root and f and f[0] == (0, 0):
                pass
            res.append(f)
    return res


def run(ctx):
    mod, sh, mean = tables(ctx)
    ctx.touch(mod)
    model = nd.interval_model(ctx.repo)
    rule_builders(ctx, mod, sh, mean, model)
    rule_tables(ctx, mod, sh, mean)
    rule_parser(ctx, mod, sh, mean, model)
    ctx.floor("R-C06-1", 40 * 7)
    ctx.floor("R-C06-2", 3)
    ctx.floor("R-C06-3", 200)


def _builder_fi(v):
    return v.fi if isinstance(v, FuncRef) else None


def rule_builders(ctx, mod, sh, mean, model):
    R = "R-C06-1"
    for key in sorted(sh):
        fi = _builder_fi(sh[key])
        node = mod.glob("chord_shorthand")
        if fi is None:
            ctx.violated(R, "builder[%r]" % key, mod.where(node), "chord_shorthand[%r]" % key,
                         "table entry is not a function of this package: %r" % (sh[key],))
            continue
        ctx.touch(fi)
        m = mean.get(key)
        if m is None:
            continue  # reported by R-C06-2
        if m not in ORACLE:
            ctx.violated(R, "meaning[%r]" % key, mod.where(node), "chord_shorthand_meaning[%r] = %r" % (key, m),
                         "meaning %r is not a chord type known to the oracle (renamed or new meaning)" % m)
            continue
        want = formula(ORACLE[m])
        for L in LETTERS:
            try:
                got = builder_formulas(ctx, fi, L, model)
            except (CannotDecide, nd.Shape) as e:
                raise AnalysisError("builder for %r (%s) on root %s: %s" % (key, fi.qualname, L, e))
            ok = bool(got) and all(g == want for g in got)
            ctx.check(ok, R, "builder[%r,%s]" % (key, L), fi.where(), "%s(%s<any accidentals>)" % (fi.qualname, L),
                      "shorthand %r (%s) builds (letters up, semitones) %s on root %s.., its formula %s prescribes %s"
                      % (key, m.strip(), got, L, ORACLE[m], want), formula=got)


def rule_tables(ctx, mod, sh, mean):
    R = "R-C06-2"
    node_s, node_m = mod.glob("chord_shorthand"), mod.glob("chord_shorthand_meaning")
    missing = sorted(set(mean) - set(sh))
    extra = sorted(set(sh) - set(mean))
    ctx.check(not missing, R, "meaning-without-builder", mod.where(node_s), "chord_shorthand keys",
              "shorthands %s have a textual meaning but cannot be constructed (no row in chord_shorthand)" % missing)
    ctx.check(not extra, R, "builder-without-meaning", mod.where(node_m), "chord_shorthand_meaning keys",
              "shorthands %s can be constructed but have no textual meaning" % extra)
    by_meaning = {}
    for k in sorted(set(sh) & set(mean)):
        by_meaning.setdefault(mean[k], []).append(k)
    for m, ks in sorted(by_meaning.items()):
        fis = {k: _builder_fi(sh[k]) for k in ks}
        same = len({id(f.node) if f else None for f in fis.values()}) == 1
        # different builder objects are fine as long as R-C06-1 holds for each (same oracle formula)
        ctx.held(R, "same-meaning[%s]" % m.strip(), mod.where(node_s), keys=ks, same_builder=same)


# ----------------------------------------------------------------------------- parser
def _alias_spellings(key):
    out = []
    if key.startswith("m"):
        out += ["min" + key[1:], "mi" + key[1:], "-" + key[1:]]
    if key.startswith("M"):
        out += ["maj" + key[1:], "ma" + key[1:]]
    return out


def _eval_from_shorthand(ctx, fi, model, arg_factory):
    return paths_of(ctx.repo, fi, arg_factory, summaries=model, max_depth=16)


def rule_parser(ctx, mod, sh, mean, model):
    R = "R-C06-3"
    fi = mod.func("from_shorthand")
    ctx.touch(fi)
    known = sorted(set(sh) & set(mean))

    def want_for(key):
        m = mean.get(key)
        return formula(ORACLE[m]) if m in ORACLE else None

    def check_chord(inst, text, make_arg, L, want, extra_check=None):
        run = nd.acc_run("R")
        shapes = [("any accidentals", run, Lin.of(NAT[L]) + nd.run_net(run))]
        pre = {}
        try:
            pre["any accidentals"] = _eval_from_shorthand(ctx, fi, model, lambda: [make_arg(run)])
        except (CannotDecide, nd.Shape) as e:
            # the run summary is not available for this code shape: specialise to the accidental shapes
            # '', '#', 'b', '##', 'bb' (the property's "up to double accidentals") instead
            ctx.note(R, "%s: symbolic accidental run not summarisable (%s); specialised to 5 accidental shapes" % (inst, e))
            shapes = [(repr(a), a, Lin.of(NAT[L] + a.count("#") - a.count("b"))) for a in ("", "#", "b", "##", "bb")]
        ok, why = True, ""
        for label, acc, root_pitch in shapes:
            try:
                paths = pre[label] if label in pre else _eval_from_shorthand(ctx, fi, model, lambda: [make_arg(acc)])
            except (CannotDecide, nd.Shape) as e:
                raise AnalysisError("from_shorthand(%s): %s" % (text, e))
            if not paths:
                ok, why = False, "no outcome"
            for p in paths:
                if p.kind != "return" or not isinstance(p.value, list):
                    ok, why = False, "with %s on the root: %s %r" % (label, p.kind, p.value)
                    break
                got = chord_formula(p.interp, p.value, L, root_pitch)
                if got != want:
                    ok, why = False, "with %s on the root it parses to %s, the table's builder formula is %s" % (label, got, want)
                    break
            if not ok:
                break
        ctx.check(ok, R, inst, fi.where(), "from_shorthand(%s)" % text, why)

    # (a) every key on every root letter; (b) alias spellings
    for key in known:
        want = want_for(key)
        if want is None:
            continue
        for L in LETTERS:
            check_chord("plain[%r,%s]" % (key, L), "%s..%s" % (L, key), lambda run, key=key, L=L: AbsStr([L, run, key]), L, want)
        for alias in _alias_spellings(key):
            for L in ("C", "B"):
                check_chord("alias[%r as %r,%s]" % (key, alias, L), "%s..%s" % (L, alias),
                            lambda run, alias=alias, L=L: AbsStr([L, run, alias]), L, want)

    # (d) slash chords: bass followed by the chord
    for key in ("", "m", "7", "M7", "m7b5", "6/9"):
        if key not in known or want_for(key) is None:
            continue
        for L, LB in (("C", "E"), ("F", "B"), ("A", "C")):
            run, brun = nd.acc_run("R"), nd.acc_run("S")
            bass = AbsStr([LB, brun])
            root_pitch = Lin.of(NAT[L]) + nd.run_net(run)
            try:
                paths = _eval_from_shorthand(ctx, fi, model, lambda: [AbsStr([L, run, key, "/", LB, brun])])
            except (CannotDecide, nd.Shape) as e:
                raise AnalysisError("from_shorthand(%s..%s/%s..): %s" % (L, key, LB, e))
            ok, why = bool(paths), "no outcome"
            for p in paths:
                if p.kind != "return" or not isinstance(p.value, list) or not p.value:
                    ok, why = False, "%s %r" % (p.kind, p.value)
                    break
                b = p.value[0]
                bp = nd.rel(p.interp, b, LB, Lin.of(NAT[LB]) + nd.run_net(brun))
                got = chord_formula(p.interp, p.value[1:], L, root_pitch)
                if bp != (0, 0):
                    ok, why = False, "first note %r is not the bass note" % (b,)
                    break
                if got != want_for(key):
                    ok, why = False, "after the bass: %s, expected the chord %s" % (got, want_for(key))
                    break
            ctx.check(ok, R, "slash[%r,%s/%s]" % (key, L, LB), fi.where(), "from_shorthand(%s..%s/%s..)" % (L, key, LB), why)
    # bad bass
    other = nd.other_class(set("ABCDEFG#b/|-minaj"), "FOREIGN")
    run = nd.acc_run("R")
    paths = _eval_from_shorthand(ctx, fi, model, lambda: [AbsStr(["C", run, "m7", "/", other])])
    ok = bool(paths) and all(p.kind == "raise" and p.value == "NoteFormatError" for p in paths)
    ctx.check(ok, R, "slash.badbass", fi.where(), "from_shorthand(C..m7/<foreign>)",
              "a malformed bass note gives %s instead of NoteFormatError" % [(p.kind, p.value) for p in paths])

    # (e) polychords: X|Y = Y's notes then X's notes (a note equal to the previous one is not repeated)
    for kx, ky in (("m", "7"), ("", "M7"), ("dim", "")):
        if kx not in known or ky not in known or want_for(kx) is None or want_for(ky) is None:
            continue
        Lx, Ly = "D", "G"
        rx, ry = nd.acc_run("R"), nd.acc_run("S")
        px = Lin.of(NAT[Lx]) + nd.run_net(rx)
        py = Lin.of(NAT[Ly]) + nd.run_net(ry)
        try:
            paths = _eval_from_shorthand(ctx, fi, model, lambda: [AbsStr([Lx, rx, kx, "|", Ly, ry, ky])])
        except (CannotDecide, nd.Shape) as e:
            raise AnalysisError("from_shorthand(polychord %r|%r): %s" % (kx, ky, e))
        ok, why = bool(paths), "no outcome"
        for p in paths:
            if p.kind != "return" or not isinstance(p.value, list):
                ok, why = False, "%s %r" % (p.kind, p.value)
                break
            wy, wx = want_for(ky), want_for(kx)
            head = chord_formula(p.interp, p.value[:len(wy)], Ly, py)
            tail = chord_formula(p.interp, p.value[len(wy):], Lx, px)
            n_eq = sum(1 for lab, v in p.trace if lab.startswith("eq:") and v is True)
            # ``n != r[-1]`` False means equal -> dropped
            if head != wy:
                ok, why = False, "starts with %s, expected the right-hand chord %s" % (head, wy)
                break
            it_w = iter(wx)
            if not all(any(t == w for w in it_w) for t in tail) or len(tail) < len(wx) - n_eq:
                ok, why = False, "continues with %s, expected the left-hand chord %s (minus repeated notes)" % (tail, wx)
                break
        ctx.check(ok, R, "poly[%r|%r]" % (kx, ky), fi.where(), "from_shorthand(%s..%s|%s..%s)" % (Lx, kx, Ly, ky), why)

    # (e') polychords whose two roots carry the *same* accidentals: every note comparison is decided, so the
    # result must be exactly the specified list (Y, then each note of X unless equal to the note just before it)
    for (Lx, kx), (Ly, ky) in ((("A", "m"), ("F", "")), (("C", ""), ("A", "m")), (("C", ""), ("C", "")), (("D", "m7"), ("G", "7"))):
        if kx not in known or ky not in known or want_for(kx) is None or want_for(ky) is None:
            continue
        rr = nd.acc_run("R")
        py = Lin.of(NAT[Ly]) + nd.run_net(rr)
        try:
            paths = _eval_from_shorthand(ctx, fi, model, lambda: [AbsStr([Lx, rr, kx, "|", Ly, rr, ky])])
        except (CannotDecide, nd.Shape) as e:
            raise AnalysisError("from_shorthand(polychord %s%s|%s%s): %s" % (Lx, kx, Ly, ky, e))
        dl, ds = (LETTERS.index(Lx) - LETTERS.index(Ly)) % 7, (NAT[Lx] - NAT[Ly]) % 12
        exp = list(want_for(ky))
        for (l, st) in want_for(kx):
            n = ((l + dl) % 7, (st + ds) % 12)
            if n != exp[-1]:
                exp.append(n)
        ok, why = bool(paths), "no outcome"
        for p in paths:
            if p.kind != "return" or not isinstance(p.value, list):
                ok, why = False, "%s %r" % (p.kind, p.value)
                break
            got = chord_formula(p.interp, p.value, Ly, py)
            if got != exp:
                ok, why = False, ("gives (letters, semitones above %s) %s; %s's notes followed by %s's notes, skipping only a note equal to "
                                  "the one just before it, is %s" % (Ly, got, Ly + ".." + ky, Lx + ".." + kx, exp))
                break
        ctx.check(ok, R, "poly.same-acc[%s%s|%s%s]" % (Lx, kx, Ly, ky), fi.where(), "from_shorthand(%s<acc>%s|%s<acc>%s)" % (Lx, kx, Ly, ky), why)

    # (f) NC and list input
    for nc in ("NC", "N.C."):
        paths = _eval_from_shorthand(ctx, fi, model, lambda: [nc])
        ok = len(paths) == 1 and paths[0].kind == "return" and paths[0].value == []
        ctx.check(ok, R, "nc[%s]" % nc, fi.where(), "from_shorthand(%r)" % nc,
                  "%r gives %s instead of the empty chord" % (nc, [(p.kind, p.value) for p in paths]))
    # 'NC' is the empty chord on every request, also after a caller has edited an earlier answer
    def nc_history(it):
        first = it.call_function(fi, ["NC"], {})
        if isinstance(first, list):
            first.append("X")
        return first, it.call_function(fi, ["NC"], {}), it.call_function(fi, [["NC", "N.C."]], {})
    ps = explore(lambda ch: Interp(ctx.repo, ch, summaries=model), nc_history)
    ok = len(ps) == 1 and ps[0].kind == "return" and ps[0].value[1] == [] and ps[0].value[2] == [[], []]
    ctx.check(ok, R, "nc.history", fi.where(), "from_shorthand('NC') after an earlier answer was modified",
              "gives %s: the empty chord must be a fresh list on every request" % [(p.kind, short(repr(p.value), 80)) for p in ps])
    r1, r2 = nd.acc_run("R"), nd.acc_run("S")
    paths = _eval_from_shorthand(ctx, fi, model, lambda: [[AbsStr(["C", r1, "m"]), AbsStr(["E", r2, "7"])]])
    ok, why = bool(paths), "no outcome"
    for p in paths:
        v = p.value
        if p.kind != "return" or not isinstance(v, list) or len(v) != 2 or not all(isinstance(x, list) for x in v):
            ok, why = False, "%s %r" % (p.kind, v)
            break
        f1 = chord_formula(p.interp, v[0], "C", Lin.of(NAT["C"]) + nd.run_net(r1))
        f2 = chord_formula(p.interp, v[1], "E", Lin.of(NAT["E"]) + nd.run_net(r2))
        if f1 != want_for("m") or f2 != want_for("7"):
            ok, why = False, "list input maps to %s, %s" % (f1, f2)
            break
    ctx.check(ok, R, "list-input", fi.where(), "from_shorthand([.., ..])", why)

    # (g) unknown suffix, (h) bad root
    alphabet = set("".join(known)) | set("#b/|-minaj")
    foreign = nd.other_class(alphabet | set("ABCDEFG"), "FOREIGNSUFFIX")
    for label, tail in (("foreign-char", [foreign]), ("m+foreign", ["m", foreign]), ("foreign+7", [foreign, "7"])):
        run = nd.acc_run("R")
        try:
            paths = _eval_from_shorthand(ctx, fi, model, lambda: [AbsStr(["C", run] + tail)])
        except CannotDecide as e:
            # the parser asks something about the foreign character that the class does not settle (its lower case, say):
            # no statement about the class; the case variants below are texts of their own
            ctx.note(R, "unknown-suffix[%s]: no statement about the whole class (%s)" % (label, short(str(e), 80)))
            continue
        ok = bool(paths) and all(p.kind == "raise" and p.value == "FormatError" for p in paths)
        ctx.check(ok, R, "unknown-suffix[%s]" % label, fi.where(), "from_shorthand(C..<%s>)" % label,
                  "an unknown shorthand gives %s instead of FormatError" % [(p.kind, p.value) for p in paths])
    # shorthands are case-sensitive ('M7' and 'm7' are different chords): a key written in another case is no key
    variants = set()
    for key in known:
        for v_ in (key.upper(), key.capitalize(), key.title(), key.swapcase()):
            if v_ != key and v_ not in known and any(c.isupper() and c != "M" for c in v_):
                variants.add(v_)
    variants |= {"M7b5".replace("M", "M"), "Maj7", "MAJ7", "Min7", "MIN", "Mi7", "DIM", "Aug", "SUS", "Sus"} - set(known)
    bad = []
    for v_ in sorted(variants):
        for root in ("C", "Eb"):
            try:
                paths = _eval_from_shorthand(ctx, fi, model, lambda: [root + v_])
            except (CannotDecide, nd.Shape) as e:
                raise AnalysisError("from_shorthand(%r): %s" % (root + v_, e))
            if not (paths and all(p.kind == "raise" and p.value in ("FormatError", "NoteFormatError") for p in paths)):
                bad.append((root + v_, [(p.kind, short(repr(p.value), 40)) for p in paths]))
    ctx.check(not bad, R, "unknown-suffix[case variants]", fi.where(), "from_shorthand(<root + a shorthand written in another case>) for %d texts" % (2 * len(variants)),
              "%d are accepted, e.g. %s" % (len(bad), bad[:3]))
    badhead = nd.other_class(set("ABCDEFG") | set("minaj-"), "FOREIGNHEAD")
    for label, s in (("foreign-head", AbsStr([badhead, "m7"])), ("lowercase", "cm7"), ("H", "H7")):
        paths = _eval_from_shorthand(ctx, fi, model, lambda: [s])
        ok = bool(paths) and all(p.kind == "raise" and p.value == "NoteFormatError" for p in paths)
        ctx.check(ok, R, "bad-root[%s]" % label, fi.where(), "from_shorthand(<%s>)" % label,
                  "a malformed root gives %s instead of NoteFormatError" % [(p.kind, p.value) for p in paths])
    # (i) degenerate and over-long strings: rejected with one of the two format errors, never another exception,
    #     and never accepted with a part of the text ignored
    run = nd.acc_run("R")
    for label, arg in (("empty", ""), ("empty-left-partner", "|C"), ("empty-right-partner", AbsStr(["C", run, "m7|"])),
                       ("empty-bass", AbsStr(["C", run, "/"])), ("double-slash", "C//E"), ("slash-bar", "C/|E"),
                       ("list-with-empty", ["Am", ""]), ("garbage-after-bass", AbsStr(["C", run, "/E/@@@"])),
                       ("garbage-after-bass-2", "Cm7/G/zzz"), ("trailing-slash-after-bass", "C/E/")):
        try:
            paths = _eval_from_shorthand(ctx, fi, model, lambda arg=arg: [list(arg) if isinstance(arg, list) else arg])
        except (CannotDecide, nd.Shape) as e:
            raise AnalysisError("from_shorthand(<%s>): %s" % (label, e))
        ok = bool(paths) and all(p.kind == "raise" and p.value in ("FormatError", "NoteFormatError") for p in paths)
        ctx.check(ok, R, "degenerate[%s]" % label, fi.where(), "from_shorthand(<%s>)" % label,
                  "gives %s; a string that is no chord shorthand is rejected with FormatError / NoteFormatError" % sorted({(p.kind, short(repr(p.value), 50)) for p in paths}))
    # (j) combinations the statement names: NC as a polychord partner, a slash chord as the left partner
    combos = [("C|NC", "C", [""], None, None), ("C/E|G7", "G", ["7"], ("E", ""), "C"), ("Dm7/A|C", "C", [""], ("A", "m7"), "D")]
    for text, Ly, ky_, bass_and_kx, Lx in combos:
        try:
            paths = _eval_from_shorthand(ctx, fi, model, lambda text=text: [text])
        except (CannotDecide, nd.Shape) as e:
            raise AnalysisError("from_shorthand(%r): %s" % (text, e))
        ok, why = len(paths) == 1 and paths[0].kind == "return" and isinstance(paths[0].value, list), "outcome %s" % [(p.kind, short(repr(p.value), 60)) for p in paths]
        if ok:
            it_ = paths[0].interp
            if text == "C|NC":
                exp = list(want_for(""))
            else:
                bass, kx = bass_and_kx
                dl = lambda a, b: ((LETTERS.index(a) - LETTERS.index(b)) % 7, (NAT[a] - NAT[b]) % 12)
                exp = list(want_for(ky_[0]))
                for n_ in [dl(bass, Ly)] + [((l + dl(Lx, Ly)[0]) % 7, (st + dl(Lx, Ly)[1]) % 12) for l, st in want_for(kx)]:
                    if n_ != exp[-1]:
                        exp.append(n_)
            got = chord_formula(it_, paths[0].value, Ly if text != "C|NC" else "C", Lin.of(NAT[Ly if text != "C|NC" else "C"]))
            if got != exp:
                ok, why = False, "gives (letters, semitones above %s) %s, expected %s (the right-hand chord, then the left-hand chord with its bass)" % (Ly, got, exp)
        ctx.check(ok, R, "combination[%s]" % text, fi.where(), "from_shorthand(%r)" % text, why)
    # (k) one verdict per chord text: what a text means (or that it is rejected) does not depend on whether it
    #     stands alone, over a bass, or beside a polychord partner
    import itertools
    toks = ("m", "i", "n", "-", "a", "j", "M", "7")
    depth = 3 if ctx.tier == "thorough" else 2
    bodies = ["".join(t) for d in range(1, depth + 1) for t in itertools.product(toks, repeat=d)]
    bodies += ["miin", "-in", "mai", "mmin", "-i7", "mmaj7", "maaj7", "mi-", "m-in", "-min", "mimin7", "majmi", "minmaj7"] + (
        ["".join(t) for t in itertools.product(("m", "i", "n", "-", "a", "j"), repeat=4)] if ctx.tier == "thorough" else [])
    bodies = sorted(set(bodies))

    def verdict(text):
        try:
            paths = _eval_from_shorthand(ctx, fi, model, lambda: [text])
        except (CannotDecide, nd.Shape) as e:
            raise AnalysisError("from_shorthand(%r): %s" % (text, e))
        if len(paths) != 1:
            raise AnalysisError("from_shorthand(%r): %d outcomes for a concrete text" % (text, len(paths)))
        p = paths[0]
        if p.kind == "return" and isinstance(p.value, list):
            return ("chord", [x if isinstance(x, str) else repr(x) for x in p.value])
        if p.kind == "raise" and p.value in ("FormatError", "NoteFormatError"):
            return ("rejected", None)
        return (p.kind, short(repr(p.value), 60))
    partner = verdict("F#7")  # shares no letter with the ends of a C chord: the no-repeat rule stays out of it
    bad = []
    n_ctx = 0
    for body in bodies:
        x = "C" + body
        alone = verdict(x)
        if alone[0] not in ("chord", "rejected"):
            bad.append((x, "alone", alone))
            continue

        def merged(first, then):
            r = list(first)
            for n_ in then:
                if r == [] or n_ != r[-1]:
                    r.append(n_)
            return r
        expect = {
            x + "/E": ("chord", ["E"] + alone[1]) if alone[0] == "chord" else alone,
            x + "|F#7": ("chord", merged(partner[1], alone[1])) if alone[0] == "chord" else alone,
            "F#7|" + x: ("chord", merged(alone[1], partner[1])) if alone[0] == "chord" else alone,
        }
        for text, want in expect.items():
            n_ctx += 1
            got = verdict(text)
            if got != want:
                bad.append((text, "gives %s" % (got,), "while %r alone gives %s" % (x, alone)))
    ctx.check(not bad, R, "one-verdict-per-text", fi.where(), "from_shorthand(X), from_shorthand(X/E), from_shorthand(X|F#7), from_shorthand(F#7|X) for %d alias-like texts X" % len(bodies),
              "%d of %d readings in context disagree with the text read alone, e.g. %s" % (len(bad), n_ctx, bad[:3]))
    # (l) the spelled-out aliases are interchangeable with the short forms wherever a chord text may stand -- also when
    #     both partners of a polychord, or the chord over a bass and its partner, use the same alias
    # (partners chosen so that no part begins on the letter the part before it ends on: the no-repeat rule stays out of it)
    pairs = [("Amin|Cmin", "Am|Cm"), ("A-7|E-", "Am7|Em"), ("Fmaj7|Dmaj", "FM7|DM"), ("Cmi|Gmi7", "Cm|Gm7"), ("Dma7|Ama", "DM7|AM"), ("Amin/C|Emin", "Am/C|Em"),
             ("Emin7/B|Amin", "Em7/B|Am"), ("Bbmaj7|Fmaj7|Cmaj7", "BbM7|FM7|CM7"), ("D-|F-|A-7", "Dm|Fm|Am7")]
    bad = []
    for spelled, short_form in pairs:
        a_, b_ = verdict(spelled), verdict(short_form)
        if a_ != b_ or b_[0] != "chord":
            bad.append((spelled, a_, short_form, b_))
    ctx.check(not bad, R, "aliases-in-compounds", fi.where(), "from_shorthand(<polychords whose parts use the same alias>) vs the short spellings",
              "%d of %d differ, e.g. %s" % (len(bad), len(pairs), bad[:2]))
    # (l2) polychords of three and four parts: X|Y|Z is X over (Y over Z) -- the notes of the last part first
    def merged2(first, then):
        r = list(first)
        for n_ in then:
            if r == [] or n_ != r[-1]:
                r.append(n_)
        return r
    bad = []
    chains = [("Am", "Dm", "G"), ("C", "F#7", "Bb"), ("Em7", "A7", "DM7"), ("F", "G", "Am", "C"), ("Bbm", "Eb7", "AbM7"), ("C/E", "Dm", "G7"), ("Am", "Dm/F", "G")]
    def real(text):
        # (the library's own interval code all the way down: every note is a text, the no-repeat comparisons are decided)
        try:
            ps_ = paths_of(ctx.repo, fi, [text], max_depth=60)
        except (CannotDecide, nd.Shape) as e:
            raise AnalysisError("from_shorthand(%r): %s" % (text, e))
        if len(ps_) != 1:
            raise AnalysisError("from_shorthand(%r): %d outcomes for a concrete text" % (text, len(ps_)))
        p_ = ps_[0]
        if p_.kind == "return" and isinstance(p_.value, list):
            return ("chord", list(p_.value))
        return ("rejected", None) if p_.kind == "raise" and p_.value in ("FormatError", "NoteFormatError") else (p_.kind, short(repr(p_.value), 60))
    for parts in chains:
        singles = [real(p_) for p_ in parts]
        if any(v_[0] != "chord" for v_ in singles):
            bad.append(("|".join(parts), "a part is rejected", singles))
            continue
        want = list(singles[-1][1])
        for v_ in reversed(singles[:-1]):
            want = merged2(want, v_[1])
        got = real("|".join(parts))
        if got != ("chord", want):
            bad.append(("|".join(parts), got, "expected", want))
    ctx.check(not bad, R, "polychord.chains", fi.where(), "from_shorthand(<X|Y|Z and X|Y|Z|W>) for %d texts" % len(chains),
              "%d are not the last part's notes followed by the parts before it, e.g. %s" % (len(bad), bad[:2]))
    # (m) a slash chord is the bass followed by the chord, whatever the bass is: also a note of the chord, also its root
    bad = []
    slashes = [("C", "C"), ("C", "G"), ("Cm7", "C"), ("Cm7", "Bb"), ("F#", "F#"), ("Bbm", "Bb"), ("Am", "E"), ("G7", "G"), ("Ebdim", "Eb"), ("D6/9", "D")]
    for chord, bass in slashes:
        alone, got = verdict(chord), verdict(chord + "/" + bass)
        want = ("chord", [bass] + alone[1]) if alone[0] == "chord" else alone
        if got != want:
            bad.append((chord + "/" + bass, got, "expected", want))
    ctx.check(not bad, R, "slash.bass-in-chord", fi.where(), "from_shorthand(<chord>/<its root or another of its notes>) for %d texts" % len(slashes),
              "%d of %d are not the bass followed by the chord, e.g. %s" % (len(bad), len(slashes), bad[:2]))
    # (n) a list maps element-wise: every text that is a chord alone is that chord inside a list (aliases, slash chords,
    #     polychords, NC), and a text rejected alone is rejected inside a list
    members = ["Am7", "Amin7", "A-7", "Cmaj7", "Cma7", "G-", "Dmi", "C/E", "Am|C", "Emin/G|Amin", "NC", "F#dim"]
    alone = [verdict(t) for t in members]
    try:
        paths = _eval_from_shorthand(ctx, fi, model, lambda: [list(members)])
    except (CannotDecide, nd.Shape) as e:
        raise AnalysisError("from_shorthand(<list of %d texts>): %s" % (len(members), e))
    ok = len(paths) == 1 and paths[0].kind == "return" and isinstance(paths[0].value, list) and all(a[0] == "chord" for a in alone) \
        and [[x if isinstance(x, str) else repr(x) for x in c] if isinstance(c, list) else c for c in paths[0].value] == [a[1] for a in alone]
    ctx.check(ok, R, "list-input.elementwise", fi.where(), "from_shorthand(%r)" % (members,),
              "gives %s, element by element the texts alone give %s" % ([(p.kind, short(repr(p.value), 200)) for p in paths], short(repr(alone), 200)))
    for badtext in ("Cmim", "H7", "C/"):
        paths = _eval_from_shorthand(ctx, fi, model, lambda: [["Am", badtext]])
        ok = bool(paths) and all(p.kind == "raise" and p.value in ("FormatError", "NoteFormatError") for p in paths) and verdict(badtext)[0] == "rejected"
        ctx.check(ok, R, "list-input.rejects[%s]" % badtext, fi.where(), "from_shorthand(['Am', %r])" % badtext,
                  "gives %s; alone the text gives %s" % ([(p.kind, short(repr(p.value), 80)) for p in paths], verdict(badtext)))
    # slash exemption list == keys containing '/'
    with_slash = sorted(k for k in known if "/" in k)
    for k in with_slash:
        want = want_for(k)
        if want is None:
            continue
        # already covered by plain[...]; record the obligation explicitly
        ctx.held(R, "slash-exempt[%r]" % k, fi.where(), note="covered by plain[%r,*]" % k)
