"""C20 -- tunings and tablature (mingus/extra/tunings.py, mingus/extra/tablature.py)."""
from __future__ import annotations

import ast
import itertools

from ..engine.absval import Lin, Sym, AbsStr, Token, Opaque, AObj, AClass, INF
from ..engine.absint import CannotDecide, Interp, explore, RaiseEx
from ..engine.loader import AnalysisError, short
from ..engine import notesdom as nd
from ..engine.stubs import log_of, recorder, stub, record_class, run_method

PROP = "C20"
EXPLANATION = (
    "Static rules over tunings.py / tablature.py on abstract tunings (plain strings and courses, symbolic open-string "
    "pitches): find_frets is evaluated on every path (a fret is reported exactly when 0 <= semitone distance to the "
    "open string <= maxfret, else None; one entry per string; the first note of a course is the open string), "
    "get_Note on symbolic in-range / out-of-range strings and frets (RangeError on all four unbounded sides, otherwise "
    "open string + fret); find_fingering is evaluated with the fret table summarised and compared with a brute-force "
    "specification (injective string assignment, span of non-open frets < max distance, ordered by total frets); "
    "the registry search functions are evaluated over a model registry against their constraint truth table; every "
    "consumer of a tuning must accept courses (value-kind flow: a list reaching a Note operation raises); the page "
    "layout arithmetic must hand integers to range(), sequence repetition and from_Bar (float kinds raise); "
    "from_Bar is evaluated on a model bar and the rendered lines are decoded column by column.")
TRUSTED = ["CPython ast module", "mingus_static abstract evaluator", "brute-force fingering specification and tab decoder in rules/c20.py"]
NOT_DECIDED = ("completeness of find_chord_fingering (soundness of every returned row is decided on oracle tables); the text layout of whole tracks / compositions "
               "(which bar is rendered with which tuning is decided); "
               "the 76 registered tunings are not enumerated (the rules are over abstract tunings)")

TU, TB, NOTE, NC, BAR, TR, COMP = ("mingus.extra.tunings", "mingus.extra.tablature", "mingus.containers.note", "mingus.containers.note_container",
                                   "mingus.containers.bar", "mingus.containers.track", "mingus.containers.composition")


def run(ctx):
    repo = ctx.repo
    ctx.touch(repo.mod(TU), repo.mod(TB))
    for m in list(repo.mod(TU).functions.values()) + list(repo.mod(TB).functions.values()):
        ctx.touch(m)
    rule_frets(ctx)
    rule_get_note(ctx)
    rule_fingering(ctx)
    rule_fingers_needed(ctx)
    rule_chord_fingering(ctx)
    rule_best_fingering_notes(ctx)
    rule_search(ctx)
    rule_courses(ctx)
    rule_layout(ctx)
    rule_tab_container(ctx)
    rule_tab_bar(ctx)
    rule_tab_unplayable(ctx)
    rule_tab_track_lines(ctx)
    rule_tab_edges(ctx)
    rule_tab_composition(ctx)
    ctx.floor("R-C20-1", 6)
    ctx.floor("R-C20-2", 5)
    ctx.floor("R-C20-3", 4)
    ctx.floor("R-C20-4", 10)
    ctx.floor("R-C20-5", 5)
    ctx.floor("R-C20-T", 2)


def note_stub(repo, label, pitch=None, **attrs):
    a = {"pitch": pitch if pitch is not None else Lin.of(Sym("pitch(%s)" % label, 0, 127)), "shorthand": label}
    a.update(attrs)
    return AObj(repo.mod(NOTE).cls("Note"), a, name=label)


def base_summaries(repo):
    return {NOTE + ".Note.__int__": lambda it, a, k, n: a[0].attrs["pitch"],
            NOTE + ".Note.to_shorthand": lambda it, a, k, n: a[0].attrs["shorthand"]}


def tuning_obj(repo, strings, instrument="Guitar", description="test"):
    return AObj(repo.mod(TU).cls("StringTuning"), {"tuning": list(strings), "instrument": instrument, "description": description}, name="tuning")


def rule_frets(ctx):
    R = "R-C20-1"
    repo = ctx.repo
    ci = repo.mod(TU).cls("StringTuning")
    f = repo.find_method(ci, "find_frets")
    s0, s1a, s1b, s2 = (note_stub(repo, x) for x in ("s0", "s1a", "s1b", "s2"))
    note = note_stub(repo, "note")
    maxfret = Sym("maxfret", 0, INF)
    summ = base_summaries(repo)
    try:
        paths = run_method(repo, f, lambda: [tuning_obj(repo, [s0, [s1a, s1b], s2]), note, Lin.of(maxfret)], summaries=summ)
    except CannotDecide as e:
        raise AnalysisError("find_frets: %s" % e)
    ok, why = bool(paths), "no outcome"
    seen = set()
    for p in paths:
        v = p.value
        if p.kind != "return" or not isinstance(v, list) or len(v) != 3:
            ok, why = False, "%s %r: one entry per string expected" % (p.kind, v)
            break
        for i, base in enumerate((s0, s1a, s2)):
            d = note.attrs["pitch"] - base.attrs["pitch"]
            lo, hi = p.interp.lin_interval(d)
            mlo, mhi = p.interp.lin_interval(d - Lin.of(maxfret))
            playable = lo >= 0 and mhi <= 0
            unplayable = hi < 0 or mlo > 0
            if v[i] is None:
                if not unplayable:
                    ok, why = False, "string %d: None although the distance %s..%s may lie within 0..maxfret" % (i, lo, hi)
                seen.add("none")
            else:
                if not playable or Lin.of(v[i]) is None or not nd.same(p.interp, Lin.of(v[i]), d):
                    ok, why = False, "string %d reports fret %s; it must be the distance note - open string (%s) and only when 0 <= distance <= maxfret" % (
                        i, v[i], "first note of the course" if i == 1 else "open string")
                seen.add("fret")
        if not ok:
            break
    if ok and seen != {"none", "fret"}:
        ok, why = False, "the answer never depends on the distance (%s)" % seen
    ctx.check(ok, R, "find_frets", f.where(), "StringTuning.find_frets(note, maxfret)", why)
    d = repo.try_const(repo.mod(TU), f.defaults.get("maxfret"))
    ctx.check(d == 24, R, "find_frets.default", f.where(), "find_frets default maxfret", "default maxfret is %r" % (d,))
    # note strings are converted
    made = []

    def ctor(it, args, kwargs, node):
        o = note_stub(repo, "made")
        made.append(args)
        return o
    s2_ = dict(summ)
    s2_[NOTE + ".Note"] = ctor
    paths = run_method(repo, f, lambda: [tuning_obj(repo, [s0]), "C-4", 24], summaries=s2_)
    ctx.check(bool(paths) and all(p.kind == "return" for p in paths) and made and made[0][0] == "C-4", R, "find_frets.string", f.where(),
              "find_frets('C-4')", "a note given as text must be converted with Note(text)")
    fc = repo.find_method(ci, "count_strings")
    p = run_method(repo, fc, lambda: [tuning_obj(repo, [s0, [s1a, s1b], s2])])
    ctx.check(len(p) == 1 and p[0].value == 3, R, "count_strings", fc.where(), "count_strings()", "gives %s" % [(x.kind, x.value) for x in p])
    fcc = repo.find_method(ci, "count_courses")
    p = run_method(repo, fcc, lambda: [tuning_obj(repo, [s0, [s1a, s1b], s2])])
    ctx.check(len(p) == 1 and p[0].value == 4.0 / 3, R, "count_courses", fcc.where(), "count_courses()", "gives %s" % [(x.kind, x.value) for x in p])


def rule_get_note(ctx):
    R = "R-C20-1"
    repo = ctx.repo
    ci = repo.mod(TU).cls("StringTuning")
    f = repo.find_method(ci, "get_Note")
    s0, s1a, s1b = (note_stub(repo, x) for x in ("s0", "s1a", "s1b"))
    made = {}

    def ctor(it, args, kwargs, node):
        o = AObj(repo.mod(NOTE).cls("Note"), {"made_from": args[0] if args else None}, name="made")
        return o
    summ = base_summaries(repo)
    summ[NOTE + ".Note"] = ctor
    for string, base in ((0, s0), (1, s1a)):
        fret = Sym("fret", 0, 24)
        paths = run_method(repo, f, lambda: [tuning_obj(repo, [s0, [s1a, s1b]]), string, Lin.of(fret)], summaries=summ)
        ok = len(paths) == 1 and paths[0].kind == "return" and isinstance(paths[0].value, AObj) \
            and Lin.of(paths[0].value.attrs.get("made_from")) is not None and nd.same(paths[0].interp, Lin.of(paths[0].value.attrs["made_from"]), base.attrs["pitch"] + Lin.of(fret))
        ctx.check(ok, R, "get_Note[string %d]" % string, f.where(), "get_Note(%d, fret)" % string,
                  "the note at (string, fret) must be the open string (first of a course) raised by fret semitones: %s" % [(p.kind, p.value) for p in paths])
    for label, string, fret in (("string<0", Lin.of(Sym("string", -INF, -1)), 3), ("string>=n", Lin.of(Sym("string", 2, INF)), 3),
                                ("fret<0", 0, Lin.of(Sym("fret", -INF, -1))), ("fret>max", 0, Lin.of(Sym("fret", 25, INF)))):
        paths = run_method(repo, f, lambda: [tuning_obj(repo, [s0, [s1a, s1b]]), string, fret], summaries=summ)
        ok = bool(paths) and all(p.kind == "raise" and p.value == "RangeError" for p in paths)
        ctx.check(ok, R, "get_Note.rejects[%s]" % label, f.where(), "get_Note(<%s>)" % label, "gives %s instead of RangeError" % [(p.kind, p.value) for p in paths])


def spec_fingerings(frets_per_note, max_distance):
    n_strings = len(frets_per_note[0])
    out = []
    for assign in itertools.permutations(range(n_strings), len(frets_per_note)):
        fr = [frets_per_note[i][s] for i, s in enumerate(assign)]
        if any(x is None for x in fr):
            continue
        nonopen = [x for x in fr if x != 0]
        if nonopen and not (0 <= max(fr) - min(nonopen) < max_distance):
            continue
        out.append((sum(fr), [(s, x) for s, x in zip(assign, fr)]))
    return out


def rule_fingering(ctx):
    R = "R-C20-5"
    repo = ctx.repo
    ci = repo.mod(TU).cls("StringTuning")
    f = repo.find_method(ci, "find_fingering")
    tables = [
        ([[3, None, 8], [5, 0, None]], 4),
        ([[3, 8, 1], [5, 0, 3], [None, 2, 2]], 4),
        ([[0, 5, 10]], 4),
        ([[1, 6, None, 11], [2, 7, 12, 0]], 3),
        ([[None, None], [1, 2]], 4),
        ([[7, 2], [7, 2]], 6),
        # three notes, wide hand: the sub-searches must use the caller's span (sub-span 5 exceeds the default 4)
        ([[1, 4, 9], [6, 2, 1], [3, 6, 6]], 6),
        ([[1, 9, None], [6, 2, 1], [3, 6, 6], [None, 1, 7]], 9),
        ([[2, 7, 12], [9, 1, 4], [5, 5, 5]], 2),
    ]
    for table, maxd in tables:
        notes = [Token("n%d" % i) for i in range(len(table))]
        key = "%s.StringTuning.find_frets" % TU

        def ff(it, args, kwargs, node, table=table, notes=notes):
            for i, n in enumerate(notes):
                if args[1] is n:
                    return list(table[i])
            raise CannotDecide("find_frets on an unexpected note")
        strings = [note_stub(repo, "s%d" % i) for i in range(len(table[0]))]
        try:
            paths = run_method(repo, f, lambda: [tuning_obj(repo, strings), list(notes), maxd], summaries={key: ff}, max_depth=30)
        except CannotDecide as e:
            raise AnalysisError("find_fingering: %s" % e)
        spec = spec_fingerings(table, maxd)
        ok, why = len(paths) == 1 and paths[0].kind == "return" and isinstance(paths[0].value, list), "outcome %s" % [(p.kind, p.value) for p in paths]
        if ok:
            got = [list(map(tuple, r)) for r in paths[0].value]
            want_set = sorted(sorted(r) for _, r in spec)
            if sorted(sorted(r) for r in got) != want_set:
                ok, why = False, "fingerings %s, the specification (distinct strings, each sounding its note, non-open span < %d) gives %s" % (got, maxd, [r for _, r in spec])
            else:
                totals = [sum(x for _, x in r) for r in got]
                if totals != sorted(totals):
                    ok, why = False, "fingerings are not ordered by total fret number: %s" % totals
        ctx.check(ok, R, "find_fingering%s" % (table,), f.where(), "find_fingering(<%d notes>, %d)" % (len(table), maxd), why)
    for label, arg in (("None", None), ("empty", [])):
        paths = run_method(repo, f, lambda: [tuning_obj(repo, [note_stub(repo, "s0")]), arg])
        ctx.check(len(paths) == 1 and paths[0].value == [], R, "find_fingering[%s]" % label, f.where(), "find_fingering(%s)" % label, "gives %s" % [(p.kind, p.value) for p in paths])


def _fingers(row):
    """Fingers a fingering needs: one per fretted string, except that the index finger may bar the lowest fretted position
    over the strings above (higher index than) the highest open string -- those cost one finger together."""
    fretted = [x for x in row if x]
    if not fretted:
        return 0
    lowest = min(fretted)
    opens = [i for i, x in enumerate(row) if x == 0 and x is not None]
    last_open = max(opens) if opens else -1
    barred = [i for i, x in enumerate(row) if x is not None and i > last_open and x == lowest]
    return len(fretted) - len(barred) + (1 if barred else 0)


def rule_fingers_needed(ctx):
    """fingers_needed never counts fewer fingers than the hand needs (it is the filter behind max_fingers); on rows
    where every string is played it is exact."""
    R = "R-C20-5"
    repo = ctx.repo
    fn = repo.mod(TU).func("fingers_needed")
    rows = [[12, 11, 9, 9, 9, 0], [2, 0, 2, 2, 2, 2], [2, 2, 2, 2, 0, 3], [1, 3, 3, 2, 1, 1], [0, 2, 2, 1, 0, 0], [3, 2, 0, 0, 0, 3], [0, 0, 2, 2, 2, 0], [5, 7, 7, 6, 5, 5],
            [0, 3, 2, 0, 1, 0], [2, 2, 0, 2], [0, 0, 0, 3], [2, 1, 2, 0], [7, 7, 7, 7], [None, 3, 2, 0, 1, 0], [None, None, 0, 2, 3, 2], [1, None, 2, 2, 2, None]]
    bad = []
    for row in rows:
        try:
            ps = explore(lambda ch: Interp(repo, ch), lambda it, row=row: it.call_function(fn, [list(row)], {}))
        except CannotDecide as e:
            raise AnalysisError("fingers_needed(%s): %s" % (row, e))
        got = ps[0].value if len(ps) == 1 and ps[0].kind == "return" else None
        want = _fingers(row)
        if not isinstance(got, int) or got < want or (None not in row and got != want):
            bad.append((row, got, want))
    ctx.check(not bad, R, "fingers_needed", fn.where(), "fingers_needed on %d fingerings" % len(rows),
              "%d are counted wrongly, e.g. fingers_needed(%s) == %r, the hand needs %s" % ((len(bad),) + bad[0] if bad else (0, "", "", "")))


def rule_chord_fingering(ctx):
    """find_chord_fingering: every returned row has one entry per string, frets only where the string sounds a chord
    note, covers every chord note name, keeps the non-open frets within the span and the finger count within the limit.
    Evaluated on oracle tables (open-string pitch classes x chord) with find_note_names summarised by the oracle."""
    R = "R-C20-5"
    repo = ctx.repo
    ci = repo.mod(TU).cls("StringTuning")
    f = repo.find_method(ci, "find_chord_fingering")
    fn = repo.mod(TU).func("fingers_needed")
    ctx.touch(f, fn)
    pc = {"C": 0, "C#": 1, "D": 2, "Eb": 3, "E": 4, "F": 5, "F#": 6, "G": 7, "Ab": 8, "A": 9, "Bb": 10, "B": 11}
    cases = [
        ("guitar D", [4, 9, 2, 7, 11, 4], ["D", "F#", "A"], 4, 12, 4),
        ("guitar C7", [4, 9, 2, 7, 11, 4], ["C", "E", "G", "Bb"], 4, 12, 4),
        ("bass Am", [4, 9, 2, 7], ["A", "C", "E"], 4, 12, 4),
        ("ukulele F wide", [7, 0, 4, 9], ["F", "A", "C"], 6, 10, 3),
        ("banjo G narrow", [2, 7, 11, 2], ["G", "B", "D"], 2, 9, 2),
    ]
    if ctx.tier != "thorough":
        cases = [cases[0], cases[2], cases[3], cases[4]]
    nci = repo.mod(NC).cls("NoteContainer")
    for label, opens, names, maxd, maxfret, maxfing in cases:
        tables = [[(x, next(n for n in names if pc[n] == (o + x) % 12)) for x in range(maxfret + 1) if (o + x) % 12 in {pc[n] for n in names}] for o in opens]
        notes = [note_stub(repo, "n%s" % n, name=n) for n in names]
        cont = AObj(nci, {"notes": notes}, name="chord")
        key = "%s.StringTuning.find_note_names" % TU

        def fnn(it, args, kwargs, node, tables=tables):
            string = args[2] if len(args) > 2 else kwargs.get("string", 0)
            return list(tables[string])
        strings = [note_stub(repo, "s%d" % i) for i in range(len(opens))]

        def go(it):
            rows = it.call_function(f, [tuning_obj(repo, strings), cont, maxd, maxfret, maxfing], {})
            return rows, [it.call_function(fn, [list(r)], {}) for r in rows] if isinstance(rows, list) else None
        try:
            paths = explore(lambda ch: Interp(repo, ch, summaries={key: fnn}, max_depth=60, max_iter=100000), go)
        except CannotDecide as e:
            raise AnalysisError("find_chord_fingering (%s): %s" % (label, e))
        ok, why = len(paths) == 1 and paths[0].kind == "return" and isinstance(paths[0].value[0], list), "outcome %s" % [(p.kind, short(repr(p.value), 80)) for p in paths][:2]
        if ok:
            rows, fingers = paths[0].value
            if not rows:
                ok, why = False, "no fingering at all for a chord that has first-position shapes"
            for r, fg in zip(rows, fingers):
                r = list(r)
                bad = None
                if len(r) != len(opens):
                    bad = "has %d entries for %d strings" % (len(r), len(opens))
                else:
                    sounding = [(i, x) for i, x in enumerate(r) if x is not None]
                    got_names = set()
                    for i, x in sounding:
                        hit = [n for (fr, n) in tables[i] if fr == x]
                        if not hit:
                            bad = "fret %r on string %d sounds no note of the chord" % (x, i)
                            break
                        got_names.add(hit[0])
                    fretted = [x for i, x in sounding if x != 0]
                    if bad is None and not set(names) <= got_names:
                        bad = "does not contain %s" % sorted(set(names) - got_names)
                    elif bad is None and fretted and max(fretted) - min(fretted) >= maxd:
                        bad = "stretches over frets %d..%d, the limit is a span below %d" % (min(fretted), max(fretted), maxd)
                    elif bad is None and _fingers(r) > maxfing:
                        bad = "needs %d fingers (one per fretted string, the index finger barring the lowest fret on the strings above the last open one), the limit is %d; fingers_needed says %r" % (_fingers(r), maxfing, fg)
                if bad:
                    ok, why = False, "returned fingering %s %s" % (r, bad)
                    break
        ctx.check(ok, R, "find_chord_fingering[%s]" % label, f.where(), "find_chord_fingering(<%s>, max_distance=%d, maxfret=%d, max_fingers=%d)" % (label, maxd, maxfret, maxfing), why,
                  fingerings=len(paths[0].value[0]) if ok else None)


def rule_best_fingering_notes(ctx):
    """find_chord_fingering(..., return_best_as_NoteContainer=True), run on the real tuning / Note code: every note of
    the answer sits where it says it sits -- its pitch is the open string raised by its fret -- and is spelled as a note
    of the chord (also B#, Cb and the like, whose octave number changes with the spelling)."""
    R = "R-C20-5"
    repo = ctx.repo
    ci = repo.mod(TU).cls("StringTuning")
    f = repo.find_method(ci, "find_chord_fingering")
    tunings_ = {"guitar": ["E-2", "A-2", "D-3", "G-3", "B-3", "E-4"], "ukulele": ["G-4", "C-4", "E-4", "A-4"]}
    cases = [("guitar", ["A", "C", "E"]), ("guitar", ["Db", "F", "Ab", "Cb"]), ("guitar", ["C#", "E#", "G#", "B#"]), ("ukulele", ["Gb", "Bb", "Db", "Fb"]),
             ("ukulele", ["G#", "B#", "D#"])]
    for tname, chord in cases:
        opens = [nd.pitch_number(x.split("-")[0], int(x.split("-")[1])) for x in tunings_[tname]]

        def go(it, tname=tname, chord=chord):
            t = it.call(AClass(ci), [tname, "standard", list(tunings_[tname])], {}, None)
            r = it.call_method(t, "find_chord_fingering", [list(chord)], {"maxfret": 5, "return_best_as_NoteContainer": True}, None)
            return [(n.attrs["name"], n.attrs["octave"], n.attrs.get("string"), n.attrs.get("fret")) for n in r.attrs["notes"]]
        try:
            p = explore(lambda ch: Interp(repo, ch, max_depth=80, max_iter=200000), go)
        except CannotDecide as e:
            raise AnalysisError("find_chord_fingering(%s, best as notes) on %s: %s" % (chord, tname, e))
        ok, why = len(p) == 1 and p[0].kind == "return" and bool(p[0].value), "outcome %s" % [(x.kind, short(repr(x.value), 80)) for x in p][:2]
        if ok:
            for name, octave, string, fret in p[0].value:
                if not (isinstance(string, int) and isinstance(fret, int) and 0 <= string < len(opens)):
                    ok, why = False, "the note %s-%s carries no position (string %r, fret %r)" % (name, octave, string, fret)
                    break
                pitch = nd.pitch_number(name, octave)
                if pitch != opens[string] + fret:
                    ok, why = False, "the note %s-%s (pitch %d) is said to be on string %d fret %d, which sounds pitch %d" % (name, octave, pitch, string, fret, opens[string] + fret)
                    break
                if nd.pitch_of_concrete(name) % 12 not in {nd.pitch_of_concrete(c) % 12 for c in chord}:
                    ok, why = False, "the note %s-%s is no note of the chord %s" % (name, octave, chord)
                    break
        ctx.check(ok, R, "best-fingering-notes[%s,%s]" % (tname, "".join(chord)), f.where(), "%s.find_chord_fingering(%s, return_best_as_NoteContainer=True)" % (tname, chord), why)


def rule_search(ctx):
    R = "R-C20-4"
    repo = ctx.repo
    mod = repo.mod(TU)
    ci = mod.cls("StringTuning")

    def tun(name, strings, courses):
        return AObj(ci, {"n_strings": strings, "n_courses": courses, "label": name}, name=name)
    g_std, g_drop, g_12 = tun("guitar/standard", 6, 1.0), tun("guitar/drop d", 6, 1.0), tun("guitar/twelve", 6, 2.0)
    b_std, bj = tun("bass guitar/standard", 4, 1.0), tun("banjo/open g", 5, 1.0)
    bass5 = tun("bass/five", 5, 1.0)
    registry = {"GUITAR": ("Guitar", {"STANDARD": g_std, "DROP D": g_drop, "TWELVE STRING": g_12}),
                "BASS GUITAR": ("Bass Guitar", {"STANDARD": b_std}), "BANJO": ("Banjo", {"OPEN G": bj}),
                "BASS": ("Bass", {"FIVE STRING": bass5})}
    summ = {TU + ".StringTuning.count_strings": lambda it, a, k, n: a[0].attrs["n_strings"],
            TU + ".StringTuning.count_courses": lambda it, a, k, n: a[0].attrs["n_courses"]}

    def mk(ch):
        it = Interp(repo, ch, summaries=summ)
        it.global_cache[(TU, "_known")] = {k: (v[0], dict(v[1])) for k, v in registry.items()}
        return it
    fg = mod.func("get_tunings")

    def model(instr, ns, ncs):
        out = []
        search = instr.upper() if instr is not None else ""
        exact = search in registry
        for k, (_, d) in registry.items():
            if instr is None or (not exact and k.startswith(search)) or (exact and k == search):
                for t in d.values():
                    if (ns is None or t.attrs["n_strings"] == ns) and (ncs is None or t.attrs["n_courses"] == ncs):
                        out.append(t)
        return out
    for instr, ns, ncs in (("ass", None, None), ("uitar", 6, None), (None, None, None), ("guitar", None, None), ("ba", None, None), ("bass", None, None), ("b", 4, None),
                           (None, 6, None), (None, None, 2.0), ("guitar", 6, 1.0), (None, 5, 1.0), ("zither", None, None), ("GUITAR", 4, None)):
        p = explore(mk, lambda it: it.call_function(fg, [instr, ns, ncs], {}))
        want = model(instr, ns, ncs)
        ok = len(p) == 1 and p[0].kind == "return" and isinstance(p[0].value, list) and sorted(id(x) for x in p[0].value) == sorted(id(x) for x in want)
        ctx.check(ok, R, "get_tunings(%r,%r,%r)" % (instr, ns, ncs), fg.where(), "get_tunings(%r, %r, %r)" % (instr, ns, ncs),
                  "returns %s, the constraints select %s" % ([getattr(x, "name", x) for x in (p[0].value if len(p) == 1 and isinstance(p[0].value, list) else [])] or [(x.kind, x.value) for x in p],
                                                            [x.name for x in want]))
    ft = mod.func("get_tuning")
    for instr, desc, ns, ncs in (("guitar", "standard", None, None), ("guitar", "drop", None, None), ("guitar", "", 6, 2.0), ("guitar", "", None, 2.0),
                                 ("bass", "", 4, None), ("bass", "", 5, None), ("ba", "stand", None, None), ("guitar", "standard", 7, None), ("harp", "", None, None)):
        p = explore(mk, lambda it: it.call_function(ft, [instr, desc, ns, ncs], {}))
        cands = []
        search = instr.upper()
        exact = search in registry
        for k, (_, d) in registry.items():
            if (not exact and k.startswith(search)) or (exact and k == search):
                for dk, t in d.items():
                    if dk.startswith(desc.upper()) and (ns is None or t.attrs["n_strings"] == ns) and (ncs is None or t.attrs["n_courses"] == ncs):
                        cands.append(t)
        ok = len(p) == 1 and p[0].kind == "return" and ((p[0].value is None and not cands) or any(p[0].value is c for c in cands))
        ctx.check(ok, R, "get_tuning(%r,%r,%r,%r)" % (instr, desc, ns, ncs), ft.where(), "get_tuning(%r, %r, %r, %r)" % (instr, desc, ns, ncs),
                  "returns %s, tunings satisfying every given constraint: %s" % ([(x.kind, getattr(x.value, "name", x.value)) for x in p], [c.name for c in cands]))


def rule_courses(ctx):
    """Every consumer of StringTuning.tuning must accept a course (a list of Notes) where a Note may stand."""
    R = "R-C20-3"
    repo = ctx.repo
    ci = repo.mod(TU).cls("StringTuning")
    summ = base_summaries(repo)
    s0, s1a, s1b = note_stub(repo, "E", pitch=40), note_stub(repo, "a", pitch=45), note_stub(repo, "a'", pitch=57)

    def course_tuning():
        return tuning_obj(repo, [s0, [s1a, s1b]])
    nc = AObj(repo.mod(NC).cls("NoteContainer"), {"notes": [note_stub(repo, "c", pitch=48, name="C")]}, name="nc")
    nc.attrs["notes"][0].attrs["name"] = "C"
    cases = [
        ("StringTuning.find_note_names", repo.find_method(ci, "find_note_names"), lambda: [course_tuning(), nc, 1, 12]),
        ("tablature.begin_track", repo.mod(TB).func("begin_track"), lambda: [course_tuning()]),
        ("tablature._get_qsize", repo.mod(TB).func("_get_qsize"), lambda: [course_tuning(), 40]),
        ("StringTuning.find_frets", repo.find_method(ci, "find_frets"), lambda: [course_tuning(), note_stub(repo, "n", pitch=50), 24]),
        ("StringTuning.count_courses", repo.find_method(ci, "count_courses"), lambda: [course_tuning()]),
    ]
    for label, f, mk in cases:
        try:
            paths = run_method(repo, f, mk, summaries=summ)
        except CannotDecide as e:
            raise AnalysisError("%s on a course tuning: %s" % (label, e))
        bad = [p for p in paths if p.kind == "raise"]
        ctx.check(bool(paths) and not bad, R, label, f.where(), "%s(<tuning with a course>)" % label,
                  "a tuning whose second string is a course (a list of notes) makes %s raise %s: the list reaches a Note operation" % (
                      label, bad[0].value if bad else None))


def rule_layout(ctx):
    """Sizes and loop bounds must be integers (value-kind flow)."""
    R = "R-C20-2"
    repo = ctx.repo
    mod = repo.mod(TB)
    fw = mod.func("_get_width")
    for w in (40, 60, 61, 80, 120, 121, 200):
        p = run_method(repo, fw, [w])
        ok = len(p) == 1 and p[0].kind == "return" and isinstance(p[0].value, int) and not isinstance(p[0].value, bool)
        ctx.check(ok, R, "_get_width(%d)" % w, fw.where(), "_get_width(%d)" % w,
                  "the bar width is %r: it is used as a repetition count and for slicing and must be an integer" % ([(x.kind, x.value) for x in p],))
    # from_Track / from_Composition: what reaches from_Bar and range()
    rec = {TB + ".from_Bar": recorder("from_Bar", lambda it, a, k: ["    * ", " E||--0--|", " A||--2--|"]),
           TB + ".add_headers": recorder("add_headers", ["", "TITLE", ""]),
           TR + ".Track.get_tuning": lambda it, a, k, n: Token("tuning")}
    trci, compci = repo.mod(TR).cls("Track"), repo.mod(COMP).cls("Composition")
    for fname, width in (("from_Track", 80), ("from_Track", 50), ("from_Composition", 80), ("from_Composition", 130)):
        f = mod.func(fname)

        def mk():
            tracks = [AObj(trci, {"bars": [Token("bar%d" % i) for i in range(3)], "tuning": None, "instrument": None}, name="t%d" % j) for j in range(2)]
            if fname == "from_Track":
                return [tracks[0], width, Token("tuning")]
            return [AObj(compci, {"tracks": tracks, "title": "T", "subtitle": "", "author": "", "email": "", "description": ""}, name="comp"), width]
        try:
            paths = run_method(repo, f, mk, summaries=rec, max_depth=30)
        except CannotDecide as e:
            raise AnalysisError("%s(width=%d): %s" % (fname, width, e))
        ok, why = bool(paths) and all(p.kind == "return" and isinstance(p.value, str) for p in paths), "outcome %s" % [(p.kind, short(repr(p.value), 60)) for p in paths][:2]
        for p in paths if ok else []:
            widths = [e[1][1] for e in log_of(p.interp) if e[0] == "from_Bar"]
            if not widths or any(not isinstance(w_, int) or isinstance(w_, bool) for w_ in widths):
                ok, why = False, "from_Bar is called with width %r (must be an int)" % (widths[:2],)
            elif len(widths) != (3 if fname == "from_Track" else 6):
                ok, why = False, "%d bars rendered, the music has %d" % (len(widths), 3 if fname == "from_Track" else 6)
        ctx.check(ok, R, "%s(width=%d)" % (fname, width), f.where(), "tablature.%s(..., %d)" % (fname, width), why)


def rule_tab_composition(ctx):
    """from_Track / from_Composition hand every bar to from_Bar with the tuning of the track the bar belongs to
    (None / the default for a track without one) -- never another track's."""
    R = "R-C20-T"
    repo = ctx.repo
    mod = repo.mod(TB)
    f = mod.func("from_Composition")
    ctx.touch(f)
    trci, compci = repo.mod(TR).cls("Track"), repo.mod(COMP).cls("Composition")
    default = mod.glob("default_tuning")
    for order in ("tuned-first", "untuned-first", "untuned-between"):
        def go(it, order=order):
            bass = Token("bass tuning")
            lute = Token("lute tuning")
            spec = {"tuned-first": [bass, None], "untuned-first": [None, bass], "untuned-between": [bass, None, lute, None]}[order]
            tracks = []
            for i, tun in enumerate(spec):
                bars = [Token("bar%d_%d" % (i, j)) for j in range(3)]
                tracks.append(AObj(trci, {"bars": bars, "instrument": None, "tuning": tun, "name": "t%d" % i}, name="track%d" % i))
            comp = AObj(compci, {"tracks": tracks, "title": "T", "subtitle": "", "author": "A", "email": "", "description": ""}, name="comp")
            dflt = it.lookup_global("default_tuning", mod)
            return it.call_function(f, [comp, 50], {}), tracks, dflt

        def from_bar(it, args, kwargs, node):
            log_of(it).append(("from_Bar", list(args), dict(kwargs)))
            return ["  1   2   3   4 ", "S2||----------|", "S1||----------|"]
        summ = {TB + ".from_Bar": from_bar, TB + ".add_headers": lambda it, a, k, n: []}
        try:
            paths = explore(lambda ch: Interp(repo, ch, summaries=summ, max_depth=30), go)
        except CannotDecide as e:
            raise AnalysisError("tablature.from_Composition (%s): %s" % (order, e))
        ok, why = len(paths) == 1 and paths[0].kind == "return", "outcome %s" % [(p.kind, short(repr(p.value), 80)) for p in paths][:2]
        if ok:
            text, tracks, dflt = paths[0].value
            calls = [c for c in log_of(paths[0].interp) if c[0] == "from_Bar"]
            owner = {}
            for t in tracks:
                for b in t.attrs["bars"]:
                    owner[id(b)] = t
            seen = set()
            for _, a, k in calls:
                bar = a[0] if a else k.get("bar")
                tun = a[2] if len(a) > 2 else k.get("tuning")
                t = owner.get(id(bar))
                if t is None:
                    ok, why = False, "from_Bar called on something that is no bar of the composition: %r" % (bar,)
                    break
                seen.add(id(bar))
                want = t.attrs["tuning"]
                if not (tun is want or (want is None and (tun is None or tun is dflt))):
                    ok, why = False, "a bar of %s (%s) is rendered with %r" % (t.name, "tuning %r" % want if want is not None else "no tuning of its own: the default applies", tun)
                    break
            if ok and seen != set(owner):
                ok, why = False, "%d of %d bars are never rendered" % (len(owner) - len(seen), len(owner))
        ctx.check(ok, R, "from_Composition[%s]" % order, f.where(), "tablature.from_Composition(<%s>)" % order, why)


def rule_tab_edges(ctx):
    """Boundary shapes of the renderer: an empty bar, a composition without tracks, string names of different
    lengths, and a note that carries string / fret hints which do not exist on this tuning."""
    R = "R-C20-T"
    repo = ctx.repo
    mod = repo.mod(TB)
    summ = base_summaries(repo)
    nci, barci, compci = repo.mod(NC).cls("NoteContainer"), repo.mod(BAR).cls("Bar"), repo.mod(COMP).cls("Composition")
    strings = [note_stub(repo, "E", pitch=40), note_stub(repo, "A", pitch=45), note_stub(repo, "d", pitch=50)]
    # (1) an empty bar renders to equally long lines, one per string
    f = mod.func("from_Bar")
    for width in (40, 61):
        paths = run_method(repo, f, lambda: [AObj(barci, {"bar": [], "meter": (4, 4)}, name="bar"), width, tuning_obj(repo, strings), False], summaries=summ, max_depth=30)
        ok, why = len(paths) == 1 and paths[0].kind == "return" and isinstance(paths[0].value, list), "an empty bar gives %s" % [(p.kind, short(repr(p.value), 60)) for p in paths]
        if ok:
            body = paths[0].value[1:]
            if len(body) != len(strings) or len({len(x) for x in body}) != 1 or not all(isinstance(x, str) for x in body):
                ok, why = False, "an empty bar renders to %r" % (paths[0].value,)
        ctx.check(ok, R, "from_Bar[empty bar,%d]" % width, f.where(), "tablature.from_Bar(<empty bar>, %d)" % width, why)
    # (2) a composition without tracks renders (to its header)
    fc = mod.func("from_Composition")
    comp = AObj(compci, {"tracks": [], "title": "T", "subtitle": "", "author": "A", "email": "", "description": ""}, name="comp")
    paths = run_method(repo, fc, lambda: [comp, 80], summaries={TB + ".add_headers": lambda it, a, k, n: ["", "T", ""]}, max_depth=30)
    ok = len(paths) == 1 and paths[0].kind == "return" and isinstance(paths[0].value, str)
    ctx.check(ok, R, "from_Composition[no tracks]", fc.where(), "tablature.from_Composition(<no tracks>)", "gives %s" % [(p.kind, short(repr(p.value), 60)) for p in paths])
    # (3) the prefix of every string line is as wide as the longest string name (not the alphabetically last one)
    fb = mod.func("begin_track")
    odd = [note_stub(repo, "Bb,,", pitch=10), note_stub(repo, "F,", pitch=17), note_stub(repo, "c", pitch=36), note_stub(repo, "g", pitch=43)]
    paths = run_method(repo, fb, lambda: [tuning_obj(repo, odd)], summaries=summ)
    ok = len(paths) == 1 and paths[0].kind == "return" and isinstance(paths[0].value, list) and len({len(x) for x in paths[0].value}) == 1 \
        and all(isinstance(x, str) and x.count("||") == 1 for x in paths[0].value)
    ctx.check(ok, R, "begin_track[names of different length]", fb.where(), "tablature.begin_track(<strings Bb,, F, c g>)",
              "line prefixes %r are not equally long: the width must come from the longest name" % ([(p.kind, p.value) for p in paths],))
    fq = mod.func("_get_qsize")
    p1 = run_method(repo, fq, lambda: [tuning_obj(repo, odd), 60], summaries=summ)
    p2 = run_method(repo, fq, lambda: [tuning_obj(repo, [note_stub(repo, "xxxx", pitch=1), note_stub(repo, "y", pitch=2)]), 60], summaries=summ)
    ok = len(p1) == 1 and len(p2) == 1 and p1[0].kind == "return" and p1[0].value == p2[0].value
    ctx.check(ok, R, "_get_qsize[names of different length]", fq.where(), "tablature._get_qsize(<strings Bb,, F, c g>, 60)",
              "the quarter size %r differs from that of another tuning whose longest name is as long (%r)" % ([(p.kind, p.value) for p in p1], [(p.kind, p.value) for p in p2]))
    # (4) string / fret hints that do not exist on this tuning are ignored, not an error
    fn = mod.func("from_Note")
    ffk = "%s.StringTuning.find_frets" % TU
    for label, hint in (("string out of range", (5, 3)), ("fret out of range", (0, 99)), ("valid but another note", (1, 2))):
        def mk(hint=hint):
            n = note_stub(repo, "g", pitch=43)
            n.attrs["string"], n.attrs["fret"] = hint
            return [n, 40, tuning_obj(repo, strings)]
        summ2 = dict(summ)
        summ2[ffk] = lambda it, a, k, n_: [3, None, None]
        summ2[NOTE + ".Note"] = lambda it, a, k, n_: note_stub(repo, "made", pitch=Lin.of(a[0]) if Lin.of(a[0]) is not None else None)
        try:
            paths = run_method(repo, fn, mk, summaries=summ2, max_depth=30)
        except CannotDecide as e:
            raise AnalysisError("tablature.from_Note(<%s>): %s" % (label, e))
        ok = len(paths) == 1 and paths[0].kind == "return" and isinstance(paths[0].value, str)
        ctx.check(ok, R, "from_Note[hint: %s]" % label, fn.where(), "tablature.from_Note(<note with string/fret hint: %s>)" % label,
                  "a playable note whose string / fret attributes do not fit this tuning gives %s; only a note without any fingering is an error" % [
                      (p.kind, short(repr(p.value), 50)) for p in paths])

    # (5) a note without hints is drawn at a position that sounds it (an open string is one), at every width;
    #     only a note no string can play is the range error
    for label, frets in (("open string only", [0, None, None]), ("one position", [None, 7, None]), ("open or fretted", [None, 5, 0]),
                         ("two digits", [None, None, 12]), ("nowhere", [None, None, None])):
        summ3 = dict(summ)
        summ3[ffk] = lambda it, a, k, n_, frets=frets: list(frets)
        valid = {(i, fr) for i, fr in enumerate(frets) if fr is not None}
        bad, n = None, 0
        for width in (20, 33, 40, 80):
            try:
                paths = run_method(repo, fn, lambda: [note_stub(repo, "g", pitch=43), width, tuning_obj(repo, strings)], summaries=summ3, max_depth=30)
            except CannotDecide as e:
                raise AnalysisError("tablature.from_Note(<%s>): %s" % (label, e))
            n += 1
            if not valid:
                if not (paths and all(p.kind == "raise" and p.value == "RangeError" for p in paths)):
                    bad = "a note no string can play gives %s, expected the range error" % [(p.kind, short(repr(p.value), 50)) for p in paths]
                    break
                continue
            if len(paths) != 1 or paths[0].kind != "return" or not isinstance(paths[0].value, str):
                bad = "width %d: a note playable at %s gives %s" % (width, sorted(valid), [(p.kind, short(repr(p.value), 50)) for p in paths])
                break
            lines = paths[0].value.split("\n")
            got = []
            for li, line in enumerate(lines):
                digits = "".join(c for c in line[line.find("||") + 2:] if c.isdigit())
                if digits:
                    got.append((len(strings) - 1 - li, int(digits)))
            if len(lines) != len(strings) or len({len(x) for x in lines}) != 1:
                bad = "width %d: %d lines of lengths %s for %d strings" % (width, len(lines), [len(x) for x in lines], len(strings))
                break
            if len(got) != 1 or got[0] not in valid:
                bad = "width %d: the lines read (string, fret) %s, the note sounds at %s" % (width, got, sorted(valid))
                break
        ctx.check(bad is None, R, "from_Note[%s]" % label, fn.where(), "tablature.from_Note(<note whose frets per string are %s>, width) for %d widths" % (frets, n), bad or "")


def rule_tab_container(ctx):
    """from_NoteContainer (and from_Note through it): equally long lines, one per string, and the fret numbers read off the
    lines are the fingering -- at every width, odd and even leftovers alike, one- and two-digit frets."""
    R = "R-C20-T"
    repo = ctx.repo
    mod = repo.mod(TB)
    f = mod.func("from_NoteContainer")
    ctx.touch(f)
    nci = repo.mod(NC).cls("NoteContainer")
    strings = [note_stub(repo, "E", pitch=40), note_stub(repo, "A", pitch=45), note_stub(repo, "d", pitch=50), note_stub(repo, "g", pitch=55)]
    key = "%s.StringTuning.find_fingering" % TU
    for flabel, fingering in (("one digit", [(0, 3), (2, 5)]), ("two digits", [(0, 10), (1, 12), (3, 7)]), ("open and high", [(1, 0), (3, 14)])):
        summ = base_summaries(repo)
        summ[key] = lambda it, a, k, n, fingering=fingering: [list(fingering)]
        bad, n = None, 0
        for width in range(24, 36) if ctx.tier != "thorough" else range(20, 81):
            try:
                paths = run_method(repo, f, lambda: [AObj(nci, {"notes": [note_stub(repo, "n%d" % i) for i in range(len(fingering))]}, name="cont"), width, tuning_obj(repo, strings)], summaries=summ, max_depth=30)
            except CannotDecide as e:
                raise AnalysisError("tablature.from_NoteContainer(width=%d): %s" % (width, e))
            n += 1
            if len(paths) != 1 or paths[0].kind != "return" or not isinstance(paths[0].value, str):
                bad = "width %d: outcome %s" % (width, [(p.kind, short(repr(p.value), 60)) for p in paths])
                break
            lines = paths[0].value.split("\n")
            if len(lines) != len(strings):
                bad = "width %d: %d lines for %d strings" % (width, len(lines), len(strings))
                break
            if len({len(x) for x in lines}) != 1:
                bad = "width %d: the lines are %s characters long -- they must be equally long" % (width, [len(x) for x in lines])
                break
            got = []
            for li, line in enumerate(lines):
                string = len(strings) - 1 - li
                body = line[line.find("||") + 2:]
                digits = "".join(c for c in body if c.isdigit())
                if digits:
                    got.append((string, int(digits)))
            if sorted(got) != sorted(fingering):
                bad = "width %d: the fret numbers on the lines read %s, the fingering is %s" % (width, sorted(got), sorted(fingering))
                break
        ctx.check(bad is None, R, "from_NoteContainer[%s]" % flabel, f.where(), "tablature.from_NoteContainer(<%s>, width) for %d widths" % (flabel, n), bad or "")

    # an empty container has one fingering, the empty one (it is the rest from_Bar draws): string lines without frets
    summ = base_summaries(repo)
    summ[key] = lambda it, a, k, n: []   # what find_fingering answers for no notes
    bad, n = None, 0
    for width in (24, 33, 40, 80):
        for form, mk in (("NoteContainer()", lambda: AObj(nci, {"notes": []}, name="cont")), ("[]", lambda: [])):
            try:
                paths = run_method(repo, f, lambda: [mk(), width, tuning_obj(repo, strings)], summaries=summ, max_depth=30)
            except CannotDecide as e:
                raise AnalysisError("tablature.from_NoteContainer(<empty>, width=%d): %s" % (width, e))
            n += 1
            if len(paths) != 1 or paths[0].kind != "return" or not isinstance(paths[0].value, str):
                bad = "%s at width %d: outcome %s -- a container without notes is a rest, not a chord nobody can finger" % (form, width, [(p.kind, short(repr(p.value), 60)) for p in paths])
                break
            lines = paths[0].value.split("\n")
            if len(lines) != len(strings) or len({len(x) for x in lines}) != 1 or any(c.isdigit() for x in lines for c in x[x.find("||") + 2:]):
                bad = "%s at width %d renders to %r" % (form, width, lines)
                break
        if bad:
            break
    ctx.check(bad is None, R, "from_NoteContainer[empty]", f.where(), "tablature.from_NoteContainer(<no notes>, width) in %d calls" % n, bad or "")


def rule_tab_bar(ctx):
    R = "R-C20-T"
    repo = ctx.repo
    mod = repo.mod(TB)
    f = mod.func("from_Bar")
    summ = base_summaries(repo)
    strings = [note_stub(repo, "E", pitch=40), note_stub(repo, "A", pitch=45), note_stub(repo, "d", pitch=50)]
    fingerings = {"e0": [(0, 3), (2, 12)], "e1": [(1, 0)], "e3": [(0, 10), (1, 9), (2, 7)]}
    key = "%s.StringTuning.find_fingering" % TU

    def ff(it, args, kwargs, node):
        n = args[1]
        if n is None or n.name == "empty":
            return []  # nothing to finger (find_fingering's answer for no notes)
        return [list(fingerings[n.name])]
    summ[key] = ff
    nci, barci = repo.mod(NC).cls("NoteContainer"), repo.mod(BAR).cls("Bar")
    # (4/4, and the same entries in free time: the unbounded (0, 0) meter has no beats to mark)
    for width, meter, with_empty in ((40, (4, 4), False), (61, (4, 4), False), (40, (0, 0), False), (40, (0, 0), True), (61, (4, 4), True)):
        def mk(meter=meter, with_empty=with_empty):
            entries = []
            # (the third entry is a rest; the fourth, where present, a container that holds no notes -- a rest as well,
            # as it is for the LilyPond, MusicXML and MIDI writers)
            for label, val in (("e0", 4), ("e1", 8), (None, 8), ("e3", 2)) + ((("empty", 8),) if with_empty else ()):
                held = [] if label in (None, "empty") else [note_stub(repo, "%s_%d" % (label, i)) for i in range(len(fingerings[label]))]
                cont = None if label is None else AObj(nci, {"notes": held}, name=label)
                entries.append([0.0, val, cont])
            return [AObj(barci, {"bar": entries, "meter": meter, "length": 1.0 if meter[1] else 0.0}, name="bar"), width, tuning_obj(repo, strings), False]
        try:
            paths = run_method(repo, f, mk, summaries=summ, max_depth=30)
        except CannotDecide as e:
            raise AnalysisError("tablature.from_Bar(width=%d): %s" % (width, e))
        ok, why = len(paths) == 1 and paths[0].kind == "return" and isinstance(paths[0].value, list), "outcome %s" % [(p.kind, short(repr(p.value), 80)) for p in paths]
        if ok:
            lines = paths[0].value
            if not all(isinstance(x, str) for x in lines) or len(lines) != len(strings) + 1:
                ok, why = False, "expected a beat line and one line per string, got %r" % (lines,)
            else:
                body = lines[1:]
                if len({len(x) for x in body}) != 1:
                    ok, why = False, "string lines have different lengths: %s" % [len(x) for x in body]
                else:
                    # decode: lines are highest string first; read numbers column by column
                    start = body[0].find("||") + 2
                    cols = {}
                    for li, line in enumerate(body):
                        string = len(strings) - 1 - li
                        j = start
                        while j < len(line):
                            if line[j].isdigit():
                                k = j
                                while k < len(line) and line[k].isdigit():
                                    k += 1
                                cols.setdefault(k, {})[string] = int(line[j:k])  # right-aligned: key by end column
                                j = k
                            else:
                                j += 1
                    got = [sorted(cols[c].items()) for c in sorted(cols)]
                    want = [sorted(fingerings[x]) for x in ("e0", "e1", "e3")]
                    stars = [i for i, c in enumerate(lines[0]) if c == "*"]
                    starts = [c - max(len(str(fr)) for fr in cols[c].values()) for c in sorted(cols)]
                    if got != want:
                        ok, why = False, "reading the fret numbers column by column gives %s, the entries are %s" % (got, want)

        ctx.check(ok, R, "from_Bar[width=%d%s%s]" % (width, "" if meter[1] else ", free time", ", empty container" if with_empty else ""), f.where(), "tablature.from_Bar(<4 entries in %d/%d>, %d)" % (meter[0], meter[1], width), why)


def rule_tab_unplayable(ctx):
    """An entry that holds notes but has no fingering on this tuning is the fingering / range error, from every renderer:
    it is never drawn as if it were a rest."""
    R = "R-C20-T"
    repo = ctx.repo
    mod = repo.mod(TB)
    nci, barci = repo.mod(NC).cls("NoteContainer"), repo.mod(BAR).cls("Bar")
    strings = [note_stub(repo, "E", pitch=40), note_stub(repo, "A", pitch=45), note_stub(repo, "d", pitch=50)]
    summ = base_summaries(repo)
    summ["%s.StringTuning.find_fingering" % TU] = lambda it, a, k, n: []       # no fingering at all
    summ["%s.StringTuning.find_frets" % TU] = lambda it, a, k, n: [None, None, None]
    for label, fname, mk in (
            ("from_Bar", "from_Bar", lambda: [AObj(barci, {"bar": [[0.0, 4, AObj(nci, {"notes": [note_stub(repo, "x"), note_stub(repo, "y")]}, name="c")]], "meter": (4, 4), "length": 1.0}, name="bar"),
                                              40, tuning_obj(repo, strings), False]),
            ("from_Bar, after a playable rest", "from_Bar", lambda: [AObj(barci, {"bar": [[0.0, 4, None], [0.25, 4, AObj(nci, {"notes": [note_stub(repo, "x")]}, name="c")]], "meter": (4, 4), "length": 1.0}, name="bar"),
                                                                     40, tuning_obj(repo, strings), False]),
            ("from_NoteContainer", "from_NoteContainer", lambda: [AObj(nci, {"notes": [note_stub(repo, "x"), note_stub(repo, "y")]}, name="c"), 40, tuning_obj(repo, strings)]),
            ("from_Note", "from_Note", lambda: [note_stub(repo, "x", pitch=12), 40, tuning_obj(repo, strings)])):
        f = mod.func(fname)
        try:
            paths = run_method(repo, f, mk, summaries=summ, max_depth=30)
        except CannotDecide as e:
            raise AnalysisError("tablature.%s(<unplayable>): %s" % (fname, e))
        ok = bool(paths) and all(p.kind == "raise" and p.value in ("FingerError", "RangeError") for p in paths)
        ctx.check(ok, R, "unplayable[%s]" % label, f.where(), "tablature.%s(<an entry with notes and no fingering on this tuning>)" % fname,
                  "gives %s, expected the fingering / range error" % [(p.kind, short(repr(p.value), 60)) for p in paths])


def rule_tab_track_lines(ctx):
    """from_Track glues the bars of a system line by line: what from_Bar drew on the line of a string stays on the line
    of that string, in the order of the bars (from_Bar is a stub whose lines say which bar and which string they are)."""
    R = "R-C20-T"
    repo = ctx.repo
    mod = repo.mod(TB)
    f = mod.func("from_Track")
    ctx.touch(f)
    trci = repo.mod(TR).cls("Track")
    for nbars, width in ((2, 80), (3, 120), (4, 160), (4, 80), (5, 120)):
        def from_bar(it, args, kwargs, node):
            k = int(args[0].tag[3:])
            return ["    1   2   3   4   ", "H||-b%dH-------|" % k, "M||-b%dM-------|" % k, "L||-b%dL-------|" % k]

        def go(it, nbars=nbars, width=width):
            bars = [Token("bar%d" % j) for j in range(nbars)]
            t = AObj(trci, {"bars": bars, "instrument": None, "tuning": Token("tuning"), "name": "t"}, name="track")
            return it.call_function(f, [t, width], {})
        try:
            paths = explore(lambda ch: Interp(repo, ch, summaries={TB + ".from_Bar": from_bar}, max_depth=30), go)
        except CannotDecide as e:
            raise AnalysisError("tablature.from_Track(<%d bars>, %d): %s" % (nbars, width, e))
        ok, why = len(paths) == 1 and paths[0].kind == "return" and isinstance(paths[0].value, str), "outcome %s" % [(p.kind, short(repr(p.value), 80)) for p in paths][:2]
        if ok:
            import re as _re
            seen = {"H": [], "M": [], "L": []}
            for line in paths[0].value.split("\n"):
                marks = _re.findall(r"b(\d+)([HML])", line)
                if not marks:
                    continue
                strings_ = {m_[1] for m_ in marks}
                if len(strings_) != 1 or not line.startswith(marks[0][1] + "||"):
                    ok, why = False, "the line %r mixes what from_Bar drew for different strings" % line
                    break
                seen[marks[0][1]] += [int(m_[0]) for m_ in marks]
            if ok and any(v != list(range(nbars)) for v in seen.values()):
                ok, why = False, "the string lines hold the bars %s, expected every bar once, in order, on each" % seen
        ctx.check(ok, R, "from_Track[%d bars,width %d]" % (nbars, width), f.where(), "tablature.from_Track(<%d bars>, %d)" % (nbars, width), why)
