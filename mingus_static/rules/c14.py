"""C14 -- Tracks and compositions."""
from __future__ import annotations

import ast

from ..engine.absval import Lin, Sym, AbsStr, Token as Opaque, AObj, AClass, AIter, INF
from ..engine.absint import CannotDecide, Interp, explore, RaiseEx
from ..engine.loader import AnalysisError, short
from ..engine.stubs import log_of, recorder, stub, record_class, run_method
from ..engine import notesdom as nd

PROP = "C14"
EXPLANATION = (
    "Static rules over containers/track.py, composition.py and instrument.py on abstract objects with recording stubs: "
    "Track.add_notes is evaluated for rests and notes, with no instrument and with each instrument class (the real "
    "can_play_notes / note_in_range are inlined, so a None rest flowing into a dereference is found as a raise on that "
    "path), for empty tracks, non-full and full last bars (new bar only when the last is full, built from its key and "
    "meter; result = place_notes of the last bar); the range gate decision tables; get_notes (a generator) is "
    "evaluated to its sequence of (beat, value, content); from_chords is evaluated with add_notes under accept / "
    "refuse policies (nesting doubles the value, None is a rest, a refused chord is split into value_left and the "
    "remainder); Composition.add_track/add_note/+ selection discipline; the sequence protocols.")
TRUSTED = ["CPython ast module", "mingus_static abstract evaluator", "C13 (Bar.place_notes / is_full)"]
NOT_DECIDED = "no-loss / no-reorder and 'every bar but the last is full' over arbitrary add sequences (argued from the per-call rules); total length of nested chord lists"

TR, BAR, NC, INS, COMP, NOTE = ("mingus.containers.track", "mingus.containers.bar", "mingus.containers.note_container",
                                "mingus.containers.instrument", "mingus.containers.composition", "mingus.containers.note")


def run(ctx):
    repo = ctx.repo
    for m in (TR, INS, COMP):
        ctx.touch(repo.mod(m))
    tci = repo.mod(TR).cls("Track")
    for m in tci.methods.values():
        ctx.touch(m)
    rule_rests(ctx, tci)
    rule_range_gate(ctx, tci)
    rule_new_bar(ctx, tci)
    rule_iteration(ctx, tci)
    rule_from_chords(ctx, tci)
    rule_composition(ctx)
    rule_histories(ctx, tci)
    # "a rejected item changes nothing / every bar but the last is full" rests on Bar.place_notes' accept / refuse
    # effects and its gate (C13's rules on the same code); discharged here too so a defect there is a C14 report
    from . import c13
    bci = repo.mod(BAR).cls("Bar")
    ctx.touch(repo.mod(BAR))
    c13.rule_place(ctx, bci, R="R-C14-B")
    c13.rule_gate(ctx, bci, R="R-C14-B")
    ctx.floor("R-C14-B", 3)
    ctx.floor("R-C14-1", 5)
    ctx.floor("R-C14-2", 8)
    ctx.floor("R-C14-3", 3)
    ctx.floor("R-C14-4", 4)
    ctx.floor("R-C14-5", 4)
    ctx.floor("R-C14-6", 5)


def _pitch(n):
    nm = n.attrs["name"]
    return nd.pitch_number(nm if isinstance(nm, str) else nm.concrete(), n.attrs["octave"])


def _flatten(track):
    """[(Fraction length, sorted pitch tuple or None)] per entry, and the bars' fill state."""
    from fractions import Fraction
    out, bars = [], []
    for b in track.attrs["bars"]:
        tot = Fraction(0)
        for beat, val, cont in b.attrs["bar"]:
            ln = Fraction(1) / Fraction(val).limit_denominator(10000)
            tot += ln
            out.append((ln, None if cont is None else tuple(sorted(_pitch(n) for n in cont.attrs["notes"])), cont))
        bars.append((tot, Fraction(b.attrs["length"]).limit_denominator(10000)))
    return out, bars


def rule_histories(ctx, tci):
    """Concrete operation sequences evaluated with the real Track / Bar / NoteContainer / Instrument code and compared
    with an exact (Fraction) model of the statement: rejected items change nothing, every chord and rest of a chord list
    is placed with its full length (split over as many bar lines as needed), nothing is stored twice, range answers
    depend on the pitch only, equality follows the contents."""
    from fractions import Fraction
    R = "R-C14-7"
    repo = ctx.repo
    bci, nci, noteci = repo.mod(BAR).cls("Bar"), repo.mod(NC).cls("NoteContainer"), repo.mod(NOTE).cls("Note")
    compci = repo.mod(COMP).cls("Composition")
    imod = repo.mod(INS)

    def new(it, ci, *args, **kw):
        return it.call(AClass(ci), list(args), dict(kw), None)

    def outcome(it, f):
        try:
            return ("return", f())
        except RaiseEx as r:
            return ("raise", r.exc)

    def run1(label, fn):
        try:
            ps = explore(lambda ch: Interp(repo, ch, max_depth=60, max_iter=5000), fn)
        except CannotDecide as e:
            raise AnalysisError("track history %r: %s" % (label, e))
        if len(ps) != 1 or ps[0].kind != "return":
            return None, "outcome %s" % [(p.kind, short(repr(p.value), 80)) for p in ps][:2]
        return ps[0].value, None

    # (a) a refused item changes nothing -- also when it is refused by a bar that was opened for it
    for label, prefix, meter, item in (("empty track, breve", [], (4, 4), ("C", 0.5)), ("full 3/4 bar, whole note", [("C", 4), ("D", 4), ("E", 4)], (3, 4), ("C", 1)),
                                      ("half-full bar, whole note", [("C", 2)], (4, 4), ("C", 1))):
        def go(it, prefix=prefix, meter=meter, item=item):
            t = new(it, tci)
            if prefix or meter != (4, 4):
                it.call_method(t, "add_bar", [new(it, bci, "C", meter)], {}, None)
            for n, v in prefix:
                it.call_method(t, "add_notes", [n, v], {}, None)
            before = _flatten(t)
            r = outcome(it, lambda: it.call_method(t, "add_notes", [item[0], item[1]], {}, None))
            return r, before, _flatten(t)
        v, err = run1(label, go)
        ok, why = err is None, err
        if ok:
            r, before, after = v
            if r != ("return", False):
                ok, why = False, "an item that does not fit gives %s" % (r,)
            elif [(x[0], x[1]) for x in before[0]] != [(x[0], x[1]) for x in after[0]] or len(before[1]) != len(after[1]):
                ok, why = False, "a refused item (reported False) changed the track: %d bars before, %d after" % (len(before[1]), len(after[1]))
        ctx.check(ok, R, "refused[%s]" % label, repo.find_method(tci, "add_notes").where(), "Track.add_notes(<does not fit>) on %s" % label, why)

    # (b) range answers depend on the pitch only: every way of writing the note, every instrument class
    for iname, lo, hi in (("Instrument", 0, 96), ("Piano", 5, 107), ("Guitar", 40, 88), ("MidiInstrument", 0, 107)):
        if iname not in imod.classes:
            continue
        cases = [("string in range", "E-4", True), ("string below", "C-0" if lo > 0 else None, False), ("long spelling in range", "Abbbbb-4", True),
                 ("Note in range", ("E", 4), True), ("Note above", ("C", 9), False), ("Note below", ("C", 0) if lo > 0 else None, False),
                 ("two-note container in range", [("E", 4), ("G", 4)], True),
                 # a list is voiced by the container: the notes that are checked must be the notes that are placed
                 ("list voiced above the range", {"raw": list({"Instrument": ("B-7", "C#"), "Piano": ("A-8", "C"), "Guitar": ("E-7", "F"), "MidiInstrument": ("A-8", "C")}[iname])}, False),
                 ("list of name and octave in range", {"raw": [["C", 5]]}, True), ("list of names in range", {"raw": ["C-4", "E", "G"]}, True)]
        for clabel, arg, want in cases:
            if arg is None:
                continue

            def go(it, iname=iname, arg=arg):
                t = new(it, tci, new(it, imod.cls(iname)))
                if isinstance(arg, tuple):
                    a = new(it, noteci, arg[0], arg[1])
                elif isinstance(arg, list):
                    a = new(it, nci, [new(it, noteci, n, o) for n, o in arg])
                elif isinstance(arg, dict):
                    a = [list(x) if isinstance(x, list) else x for x in arg["raw"]]
                else:
                    a = arg
                return outcome(it, lambda: it.call_method(t, "add_notes", [a, 4], {}, None)), _flatten(t)
            v, err = run1("%s/%s" % (iname, clabel), go)
            ok, why = err is None, err
            if ok:
                r, (entries, bars) = v
                if want and (r != ("return", True) or len(entries) != 1):
                    ok, why = False, "a note inside the range of %s gives %s (%d entries stored)" % (iname, r, len(entries))
                elif not want and (r != ("raise", "InstrumentRangeError") or entries):
                    ok, why = False, "a note outside the range of %s gives %s (%d entries stored), expected InstrumentRangeError and nothing stored" % (iname, r, len(entries))
            ctx.check(ok, R, "range[%s,%s]" % (iname, clabel), repo.find_method(tci, "add_notes").where(), "Track(%s()).add_notes(<%s>)" % (iname, clabel), why)

    # (c) chord lists: every chord and every rest, in order, with its full length, split over bar lines; nothing stored twice
    chord_pitches = {"C": (48, 52, 55), "F": (53, 57, 60), "G": (55, 59, 62), "Am": (57, 60, 64)}
    for label, prefix_meter, prefix, chords, dur, want in (
            ("rest after three halves", (4, 4), [], [["C", "F", "G"], None], 1, [("C", Fraction(1, 2)), ("F", Fraction(1, 2)), ("G", Fraction(1, 2)), (None, Fraction(1))]),
            ("whole note in 3/8", (3, 8), [], ["C"], 1, [("C", Fraction(1))]),
            ("nested rest", (4, 4), [], ["C", ["Am", None]], 1, [("C", Fraction(1)), ("Am", Fraction(1, 2)), (None, Fraction(1, 2))]),
            ("rest into a half-full bar", (4, 4), [("C", 2)], [None], 1, [("C", Fraction(1, 2)), (None, Fraction(1))]),
            ("breve rest on an empty track", (4, 4), [], [None, "G"], 0.5, [(None, Fraction(2)), ("G", Fraction(2))]),
            ("chord across the bar line", (4, 4), [("C", 4)], ["F"], 1, [("C", Fraction(1, 4)), ("F", Fraction(1))]),
            ("fits exactly", (4, 4), [], ["C", "G"], 2, [("C", Fraction(1, 2)), ("G", Fraction(1, 2))])):
        def go(it, prefix_meter=prefix_meter, prefix=prefix, chords=chords, dur=dur):
            t = new(it, tci)
            if prefix_meter != (4, 4):
                it.call_method(t, "add_bar", [new(it, bci, "C", prefix_meter)], {}, None)
            for n, v in prefix:
                it.call_method(t, "add_notes", [n, v], {}, None)
            r = outcome(it, lambda: it.call_method(t, "from_chords", [chords, dur], {}, None))
            return r[0], (r[1] if r[0] == "raise" else None), _flatten(t)
        v, err = run1(label, go)
        ok, why = err is None, err
        if ok:
            kind, exc, (entries, bars) = v
            single = {"C": (48,)}
            merged = []
            for ln, ps, cont in entries:
                if merged and merged[-1][0] == ps and merged[-1][2] is not True:
                    merged[-1][1] += ln
                else:
                    merged.append([ps, ln, False])
            want_m = [[None if nm is None else (chord_pitches[nm] if (nm, ln) not in [(p_[0], Fraction(1) / Fraction(p_[1])) for p_ in prefix] else single.get(nm, chord_pitches[nm])), ln] for nm, ln in want]
            got_m = [[m[0], m[1]] for m in merged]
            ids = [id(c) for _, _, c in entries if c is not None]
            if kind == "raise":
                ok, why = False, "raises %s" % exc
            elif got_m != want_m:
                ok, why = False, "the track holds (pitches, total length) %s, the chord list asks for %s" % (
                    [(m[0], str(m[1])) for m in got_m], [(m[0], str(m[1])) for m in want_m])
            elif len(set(ids)) != len(ids):
                ok, why = False, "one NoteContainer object is stored in two entries: transposing the track would change it twice"
            elif any(tot != ln for tot, ln in bars[:-1]) or any(tot == 0 for tot, ln in bars):
                ok, why = False, "bars are filled %s of %s: every bar but the last must be full and none empty" % ([str(b[0]) for b in bars], [str(b[1]) for b in bars])
        ctx.check(ok, R, "from_chords[%s]" % label, repo.find_method(tci, "from_chords").where(), "Track.from_chords(%r, %r) (%s)" % (chords, dur, label), why)

    # (c2) a chord list after a bar filled with values whose sum has a large denominator: the room that is left is not a
    #      "nice" value, and the piece cut to fill it must still be placed (lengths compared to within 1e-9)
    for label, fill in (("elevenths, thirteenths ...", (11, 13, 14, 15, 128)), ("septuplets and a quintuplet", (7, 7, 14, 28, 20, 12)), ("nice values", (4, 8, 12))):
        def go(it, fill=fill):
            t = new(it, tci)
            rs = [it.call_method(t, "add_notes", ["C", v], {}, None) for v in fill]
            it.call_method(t, "from_chords", [["C", None], 1], {}, None)
            ents = []
            for b in t.attrs["bars"]:
                ents.append([(1.0 / float(e[1]), None if e[2] is None else len(e[2].attrs["notes"])) for e in b.attrs["bar"]])
            return rs, ents
        v, err = run1("from_chords after " + label, go)
        ok, why = err is None, err
        if ok:
            rs, bars_ = v
            flat = [e for b in bars_ for e in b]
            chord_len = sum(ln for ln, n in flat if n == 3)
            rest_len = sum(ln for ln, n in flat if n is None)
            fills = [sum(ln for ln, n in b) for b in bars_]
            if not all(r is True for r in rs):
                ok, why = False, "the fill itself is refused: %s" % (rs,)
            elif abs(chord_len - 1.0) > 1e-9 or abs(rest_len - 1.0) > 1e-9:
                ok, why = False, "the whole-note chord holds %.12f and the whole rest %.12f of the track (bars filled %s): a piece of the split item was not placed" % (chord_len, rest_len, ["%.6f" % f_ for f_ in fills])
            elif any(abs(f_ - 1.0) > 1e-9 for f_ in fills[:-1]):
                ok, why = False, "bars are filled %s: every bar but the last must be full" % (["%.9f" % f_ for f_ in fills],)
        ctx.check(ok, R, "from_chords.odd-room[%s]" % label, repo.find_method(tci, "from_chords").where(), "add_notes('C', v) for v in %s, then from_chords(['C', None], 1)" % (fill,), why)

    # (e) '+' on a track takes what add_notes and add_bar take, and reports it
    for label, mkitem, want_entry in (("rest", lambda it: None, (Fraction(1, 4), None)), ("list of names", lambda it: ["C-4", "E-4"], (Fraction(1, 4), (48, 52))),
                                      ("name", lambda it: "C", (Fraction(1, 4), (48,))), ("Note", lambda it: new(it, noteci, "D", 4), (Fraction(1, 4), (50,))),
                                      ("NoteContainer", lambda it: new(it, nci, ["C", "G"]), (Fraction(1, 4), (48, 55))), ("Bar", lambda it: new(it, bci, "C", (3, 4)), None)):
        for with_piano in (False, True):
            def go(it, mkitem=mkitem, with_piano=with_piano):
                t = new(it, tci, new(it, imod.cls("Piano"))) if with_piano else new(it, tci)
                item = mkitem(it)
                r = outcome(it, lambda: it.binop(ast.Add, t, item))
                return r, _flatten(t), item, t
            v, err = run1("'+' %s" % label, go)
            ok, why = err is None, err
            if ok:
                r, (entries, bars), item, t = v
                if r[0] != "return" or r[1] is None or r[1] is False:
                    ok, why = False, "track + <%s> reports %s" % (label, r)
                elif want_entry is None:
                    if not (len(t.attrs["bars"]) == 1 and t.attrs["bars"][0] is item):
                        ok, why = False, "track + <bar> leaves bars %s" % (t.attrs["bars"],)
                elif [(e[0], e[1]) for e in entries] != [want_entry]:
                    ok, why = False, "track + <%s> reports %r but the track holds %s, expected %s" % (label, r[1], [(str(e[0]), e[1]) for e in entries], [(str(want_entry[0]), want_entry[1])])
            ctx.check(ok, R, "plus[%s,%s]" % (label, "piano" if with_piano else "no instrument"), repo.find_method(tci, "__add__").where(),
                      "Track(%s) + <%s>" % ("Piano()" if with_piano else "", label), why)

    # (g) notes added to a composition reach exactly the selected tracks: also after a bar or a container went to two tracks at once
    def go_sel(it):
        c = new(it, compci)
        ts = [new(it, tci) for _ in range(4)]
        for t in ts:
            it.call_method(c, "add_track", [t], {}, None)
        c.attrs["selected_tracks"] = [0, 1, 2]
        it.call_method(c, "add_note", [new(it, bci, "C", (4, 4))], {}, None)
        it.call_method(c, "add_note", ["C"], {}, None)
        it.call_method(c, "add_note", [new(it, nci, ["D", "F"])], {}, None)
        c.attrs["selected_tracks"] = [2]
        it.call_method(c, "add_note", ["E"], {}, None)
        return [_flatten(t) for t in ts], [t.attrs["bars"] for t in ts]
    v, err = run1("selection", go_sel)
    ok, why = err is None, err
    if ok:
        flats, bars = v
        got = [[(str(e[0]), e[1]) for e in f[0]] for f in flats]
        q = "1/4"
        base_ = [(q, (48,)), (q, (50, 53))]
        want = [base_, base_, base_ + [(q, (52,))], []]
        shared = [(i, j) for i in range(3) for j in range(i + 1, 3) if any(b is b2 for b in bars[i] for b2 in bars[j])]
        conts = [[id(e[2]) for e in f[0] if e[2] is not None] for f in flats]
        shared_c = [(i, j) for i in range(3) for j in range(i + 1, 3) if set(conts[i]) & set(conts[j])]
        if got != want:
            ok, why = False, "tracks hold %s; adding to selection [0, 1, 2] and then to [2] should give %s" % (got, want)
        elif shared or shared_c:
            ok, why = False, "selected tracks %s store the same %s object: changing one track changes the other" % ((shared or shared_c)[0], "Bar" if shared else "NoteContainer")
    ctx.check(ok, R, "selection", repo.find_method(compci, "add_note").where(), "Composition.add_note(<bar>, 'C', <container>) to tracks [0, 1, 2] of four, then 'E' to [2]", why)

    # (g2) a note that one of the selected tracks refuses (out of its instrument's range): the request is refused as a
    #      whole, or it reaches every track that takes it -- never "the tracks before the refusing one, and no further"
    forms = (("'C-2'", lambda it: "C-2"), ("['C-2', 'F']", lambda it: ["C-2", "F"]), ("Note('C', 2)", lambda it: new(it, noteci, "C", 2)),
             ("NoteContainer(['F', 'C-2'])", lambda it: new(it, nci, ["F", "C-2"])))
    for order in ([0, 1, 2], [1, 0, 2], [0, 2, 1]):
        for flabel, mk in (forms if order == [0, 1, 2] else forms[:1]):
            def go_ref(it, order=order, mk=mk):
                c = new(it, compci)
                ts = [new(it, tci), new(it, tci, new(it, imod.cls("Guitar"))), new(it, tci)]
                for t in ts:
                    it.call_method(c, "add_track", [t], {}, None)
                c.attrs["selected_tracks"] = list(order)
                r = outcome(it, lambda: it.call_method(c, "add_note", [mk(it)], {}, None))
                return r, [len(_flatten(t)[0]) for t in ts]
            v, err = run1("refusing track %s %s" % (order, flabel), go_ref)
            ok, why = err is None, err
            if ok:
                r, counts = v
                if r[0] != "raise" or r[1] != "InstrumentRangeError":
                    ok, why = False, "%s for a guitar track gives %s, expected the range error" % (flabel, r,)
                elif counts not in ([0, 0, 0], [1, 0, 1]):
                    ok, why = False, "the note is refused with the range error, but the tracks now hold %s entries: the tracks selected before the guitar got it, the ones after did not" % counts
            inst = "selection.refused%s" % order if flabel == "'C-2'" else "selection.refused%s[%s]" % (order, flabel)
            ctx.check(ok, R, inst, repo.find_method(compci, "add_note").where(), "Composition.add_note(%s) to tracks [plain, guitar, plain] selected as %s" % (flabel, order), why)

    # (g2b) the same for a selected track that has no room left in its unfinished bar (Track.add_notes reports False):
    #       the request is refused as a whole and says so, it does not reach only the tracks that happen to have room
    for flabel, mk in (("'C'", lambda it: "C"), ("None", lambda it: None), ("NoteContainer(['C', 'E'])", lambda it: new(it, nci, ["C", "E"])), ("['C', 'E']", lambda it: ["C", "E"])):
        for order in ([0, 1], [1, 0]):
            def go_room(it, mk=mk, order=order):
                c = new(it, compci)
                ts = [new(it, tci), new(it, tci), new(it, tci)]
                for v in (2, 4, 8):
                    it.call_method(ts[1], "add_notes", ["G", v], {}, None)   # 7/8 of the 4/4 bar used: a quarter does not fit
                for t in ts:
                    it.call_method(c, "add_track", [t], {}, None)
                c.attrs["selected_tracks"] = list(order)
                r = outcome(it, lambda: it.call_method(c, "add_note", [mk(it)], {}, None))
                return r, [len(_flatten(t)[0]) for t in ts]
            v, err = run1("track without room %s %s" % (order, flabel), go_room)
            ok, why = err is None, err
            if ok:
                r, counts = v
                if counts != [0, 3, 0]:
                    ok, why = False, ("tracks selected %s: the track whose bar has an eighth left refuses the quarter, but the tracks now hold %s entries (before: [0, 3, 0]) -- "
                                      "the note reached only a part of the selected tracks" % (order, counts))
                elif r[0] == "return" and r[1] is not False:
                    ok, why = False, "nothing was placed, but the request reports %r instead of False" % (r[1],)
            ctx.check(ok, R, "selection.no-room%s[%s]" % (order, flabel), repo.find_method(compci, "add_note").where(),
                      "Composition.add_note(%s) to tracks [empty, 7/8 full] selected as %s" % (flabel, order), why)

    # (g2c) room is judged in the track's own meter: a 3/4 bar with 5/8 used has no room for a quarter (a 4/4 bar would),
    #       a 6/4 bar with 5/4 used has (a 4/4 bar would not)
    for mlabel, meter, fill, fits in (("3/4", (3, 4), (2, 8), False), ("6/4", (6, 4), (1, 4), True), ("6/8", (6, 8), (4, 4, 8), False), ("5/4", (5, 4), (1,), True)):
        def go_meter(it, meter=meter, fill=fill):
            c = new(it, compci)
            ts = [new(it, tci), new(it, tci)]
            it.call_method(ts[1], "add_bar", [new(it, bci, "C", meter)], {}, None)
            for v in fill:
                it.call_method(ts[1], "add_notes", ["G", v], {}, None)
            for t in ts:
                it.call_method(c, "add_track", [t], {}, None)
            c.attrs["selected_tracks"] = [0, 1]
            before = [len(_flatten(t)[0]) for t in ts]
            r = outcome(it, lambda: it.call_method(c, "add_note", ["C"], {}, None))
            return r, before, [len(_flatten(t)[0]) for t in ts]
        v, err = run1("room in %s" % mlabel, go_meter)
        ok, why = err is None, err
        if ok:
            r, before, after = v
            want = [before[0] + 1, before[1] + 1] if fits else before
            if after != want:
                ok, why = False, "a quarter %s the %s bar that holds %s, but the tracks go from %s to %s entries (expected %s)" % (
                    "fits in" if fits else "does not fit in", mlabel, "+".join("1/%s" % x for x in fill), before, after, want)
            elif r[0] == "return" and (r[1] is False) == fits:
                ok, why = False, "the request reports %r although the note %s" % (r[1], "was placed" if fits else "was refused")
        ctx.check(ok, R, "selection.room[%s]" % mlabel, repo.find_method(compci, "add_note").where(),
                  "Composition.add_note('C') to [empty track, track whose %s bar holds %s]" % (mlabel, "+".join("1/%s" % x for x in fill)), why)

    # (g2d) a chord of as many notes as a guitar has strings, every one in its range, is accepted (six is not "too many")
    for nlabel, chord in (("six notes", ["E-3", "A-3", "D-4", "G-4", "B-4", "E-5"]), ("five notes", ["A-3", "D-4", "G-4", "B-4", "E-5"]), ("one note", ["E-7"])):
        def go_six(it, chord=chord):
            t = new(it, tci, new(it, imod.cls("Guitar")))
            r = outcome(it, lambda: it.call_method(t, "add_notes", [list(chord), 4], {}, None))
            c = new(it, compci)
            t2 = new(it, tci, new(it, imod.cls("Guitar")))
            it.call_method(c, "add_track", [t2], {}, None)
            r2 = outcome(it, lambda: it.call_method(c, "add_note", [new(it, nci, list(chord))], {}, None))
            return r, _flatten(t)[0], r2, _flatten(t2)[0]
        v, err = run1("guitar chord of %s" % nlabel, go_six)
        ok, why = err is None, err
        if ok:
            r, entries, r2, entries2 = v
            if r != ("return", True) or len(entries) != 1 or len(entries[0][1]) != len(chord):
                ok, why = False, "Track(Guitar()).add_notes(%s) gives %s and the track holds %s" % (chord, r, [(str(e[0]), e[1]) for e in entries])
            elif r2[0] != "return" or len(entries2) != 1 or len(entries2[0][1]) != len(chord):
                ok, why = False, "Composition.add_note(<container of %s>) on a guitar track gives %s and the track holds %s" % (chord, r2, [(str(e[0]), e[1]) for e in entries2])
        ctx.check(ok, R, "guitar-chord[%s]" % nlabel, repo.find_method(tci, "add_notes").where(), "a chord of %s inside the guitar's range, through the track and the composition" % nlabel, why)

    # (g3) every form a track takes is taken by the composition for each selected track that has an instrument
    for flabel, mk, pitches in (("'C'", lambda it: "C", (48,)), ("['C', 'E']", lambda it: ["C", "E"], (48, 52)), ("[['C', 5]]", lambda it: [["C", 5]], (60,)),
                                ("Note('D', 4)", lambda it: new(it, noteci, "D", 4), (50,)), ("NoteContainer(['C', 'G'])", lambda it: new(it, nci, ["C", "G"]), (48, 55))):
        def go_forms(it, mk=mk):
            c = new(it, compci)
            ts = [new(it, tci, new(it, imod.cls("Piano"))), new(it, tci), new(it, tci, new(it, imod.cls("Piano")))]
            for t in ts:
                it.call_method(c, "add_track", [t], {}, None)
            c.attrs["selected_tracks"] = [0, 1]
            r = outcome(it, lambda: it.call_method(c, "add_note", [mk(it)], {}, None))
            return r, [_flatten(t)[0] for t in ts]
        v, err = run1("selected tracks take %s" % flabel, go_forms)
        ok, why = err is None, err
        if ok:
            r, flats = v
            got = [[(str(e[0]), e[1]) for e in f] for f in flats]
            want = [[("1/4", pitches)], [("1/4", pitches)], []]
            if r[0] != "return":
                ok, why = False, "adding %s to a piano track and a plain track gives %s" % (flabel, r)
            elif got != want:
                ok, why = False, "tracks hold %s, expected %s" % (got, want)
        ctx.check(ok, R, "selection.forms[%s]" % flabel, repo.find_method(compci, "add_note").where(),
                  "Composition.add_note(%s) to tracks [piano, plain] of [piano, plain, piano]" % flabel, why)

    # (d) equality follows the contents (and never raises): tracks with a rest, compositions
    def go_eq(it):
        a, b, c = new(it, tci), new(it, tci), new(it, tci)
        it.call_method(a, "add_notes", ["C", 4], {}, None)
        it.call_method(b, "add_notes", [None, 4], {}, None)
        it.call_method(c, "add_notes", ["C", 4], {}, None)
        res = {"note==rest": outcome(it, lambda: it.compare(ast.Eq, a, b)), "rest==note": outcome(it, lambda: it.compare(ast.Eq, b, a)),
               "note!=rest": outcome(it, lambda: it.compare(ast.NotEq, a, b)), "same content": outcome(it, lambda: it.compare(ast.Eq, a, c))}
        k1, k2, k3 = new(it, compci), new(it, compci), new(it, compci)
        it.call_method(k1, "add_track", [a], {}, None)
        it.call_method(k2, "add_track", [c], {}, None)
        it.call_method(k3, "add_track", [b], {}, None)
        res["empty compositions"] = outcome(it, lambda: it.compare(ast.Eq, new(it, compci), new(it, compci)))
        res["compositions, equal tracks"] = outcome(it, lambda: it.compare(ast.Eq, k1, k2))
        res["compositions, different tracks"] = outcome(it, lambda: it.compare(ast.Eq, k1, k3))
        res["compositions != , equal tracks"] = outcome(it, lambda: it.compare(ast.NotEq, k1, k2))
        # one composition's tracks are the first tracks of the other: not equal, in either order; nor is an empty one
        k4 = new(it, compci)
        it.call_method(k4, "add_track", [c], {}, None)
        it.call_method(k4, "add_track", [b], {}, None)
        res["compositions, one more track"] = outcome(it, lambda: it.compare(ast.Eq, k2, k4))
        res["compositions, one track fewer"] = outcome(it, lambda: it.compare(ast.Eq, k4, k2))
        res["compositions !=, one more track"] = outcome(it, lambda: it.compare(ast.NotEq, k2, k4))
        res["empty and not empty"] = outcome(it, lambda: it.compare(ast.Eq, new(it, compci), k1))
        res["not empty and empty"] = outcome(it, lambda: it.compare(ast.Eq, k1, new(it, compci)))
        # tracks: one bar more
        d = new(it, tci)
        for _ in range(5):
            it.call_method(d, "add_notes", ["C", 4], {}, None)
        e = new(it, tci)
        for _ in range(4):
            it.call_method(e, "add_notes", ["C", 4], {}, None)
        res["tracks, one bar more"] = outcome(it, lambda: it.compare(ast.Eq, e, d))
        res["tracks, one bar fewer"] = outcome(it, lambda: it.compare(ast.Eq, d, e))
        return res
    v, err = run1("equality", go_eq)
    wants = {"note==rest": False, "rest==note": False, "note!=rest": True, "same content": True, "empty compositions": True,
             "compositions, equal tracks": True, "compositions, different tracks": False, "compositions != , equal tracks": False,
             "compositions, one more track": False, "compositions, one track fewer": False, "compositions !=, one more track": True,
             "empty and not empty": False, "not empty and empty": False, "tracks, one bar more": False, "tracks, one bar fewer": False}
    for k, w in wants.items():
        ok = err is None and v.get(k) == ("return", w)
        ctx.check(ok, R, "equality[%s]" % k, repo.find_method(tci, "__eq__").where(), "== on %s" % k,
                  err or "gives %s, the contents say %s" % (v.get(k), w))


def bar_stub(repo, name="bar", **attrs):
    return stub(repo, BAR, "Bar", name=name, **attrs)


def bar_recorders(repo, is_full=False, placed=True):
    return record_class(repo, BAR, "Bar", ["place_notes", "is_full"],
                        result={"place_notes": placed if not callable(placed) else placed, "is_full": is_full})


def rule_rests(ctx, tci):
    R = "R-C14-1"
    repo = ctx.repo
    fi = repo.find_method(tci, "add_notes")
    imod = repo.mod(INS)
    instruments = [None] + [c for c in ("Instrument", "Piano", "Guitar", "MidiInstrument") if c in imod.classes]
    note_cmp = {NOTE + ".Note.__ge__": lambda it, a, k, n: it.fork("ge"), NOTE + ".Note.__le__": lambda it, a, k, n: it.fork("le"),
                NOTE + ".Note.__lt__": lambda it, a, k, n: it.fork("lt"), NOTE + ".Note.__gt__": lambda it, a, k, n: it.fork("gt")}
    for iname in instruments:
        dur = Opaque("value")

        def mk():
            b = bar_stub(repo)
            ins = None
            if iname is not None:
                ici = imod.cls(iname)
                ins = AObj(ici, {"range": (stub(repo, NOTE, "Note", name="lo"), stub(repo, NOTE, "Note", name="hi"))}, name=iname)
            return [AObj(tci, {"bars": [b], "instrument": ins}, name="track"), None, dur]
        summ = dict(bar_recorders(repo))
        summ.update(note_cmp)
        try:
            paths = run_method(repo, fi, mk, summaries=summ)
        except CannotDecide as e:
            raise AnalysisError("Track.add_notes(None) with %s: %s" % (iname, e))
        ok, why = bool(paths), "no outcome"
        for p in paths:
            placed = [e for e in log_of(p.interp) if e[0] == "Bar.place_notes"]
            if p.kind != "return" or len(placed) != 1 or placed[0][1][1] is not None or placed[0][1][2] is not dur:
                ok, why = False, "a rest (None) with %s gives %s %r; rests must be accepted whether or not an instrument is attached (placed: %s)" % (
                    "no instrument" if iname is None else "a %s attached" % iname, p.kind, p.value, [e[1][1:] for e in placed])
                break
        ctx.check(ok, R, "rest[%s]" % (iname or "no instrument"), fi.where(), "Track(%s).add_notes(None, value)" % (iname or ""), why)


def rule_range_gate(ctx, tci):
    R = "R-C14-2"
    repo = ctx.repo
    fi = repo.find_method(tci, "add_notes")
    ici = repo.mod(INS).cls("Instrument")
    note = stub(repo, NOTE, "Note", name="note")
    dur = Opaque("value")
    for can in (True, False):
        summ = dict(bar_recorders(repo))
        summ.update(record_class(repo, INS, "Instrument", ["can_play_notes"], result=can))
        paths = run_method(repo, fi, lambda: [AObj(tci, {"bars": [bar_stub(repo)], "instrument": AObj(ici, {}, name="ins")}, name="track"), note, dur], summaries=summ)
        ok, why = bool(paths), "no outcome"
        for p in paths:
            log = log_of(p.interp)
            asked = [e for e in log if e[0] == "Instrument.can_play_notes"]
            placed = [e for e in log if e[0] == "Bar.place_notes"]
            if not asked or asked[0][1][1] is not note:
                ok, why = False, "the instrument is not asked about the note"
            elif can and not (p.kind == "return" and len(placed) == 1 and placed[0][1][1] is note and placed[0][1][2] is dur):
                ok, why = False, "a playable note gives %s %r (placed %s)" % (p.kind, p.value, [e[1][1:] for e in placed])
            elif not can and not (p.kind == "raise" and p.value == "InstrumentRangeError" and not placed):
                ok, why = False, "an unplayable note gives %s %r and places %d entries" % (p.kind, p.value, len(placed))
        ctx.check(ok, R, "gate[%s]" % ("in range" if can else "out of range"), fi.where(), "Track.add_notes(note) with an instrument", why)
    # default value is a quarter
    summ = dict(bar_recorders(repo))
    paths = run_method(repo, fi, lambda: [AObj(tci, {"bars": [bar_stub(repo)], "instrument": None}, name="track"), note], summaries=summ)
    placed = [e for e in log_of(paths[0].interp) if e[0] == "Bar.place_notes"] if len(paths) == 1 else []
    ctx.check(len(placed) == 1 and placed[0][1][2] == 4, R, "default-value", fi.where(), "Track.add_notes(note)", "the default value must be 4, placed %s" % [e[1][1:] for e in placed])
    # note_in_range <=> lo <= note <= hi
    fn = repo.find_method(ici, "note_in_range")
    lo, hi = stub(repo, NOTE, "Note", name="lo"), stub(repo, NOTE, "Note", name="hi")

    def cmp_(op):
        def f(it, args, kwargs, node):
            a, b = args
            log_of(it).append((op, [a, b], {}))
            return it.fork("%s(%s,%s)" % (op, a.name, b.name))
        return f
    summ = {NOTE + ".Note.__ge__": cmp_("ge"), NOTE + ".Note.__le__": cmp_("le"), NOTE + ".Note.__lt__": cmp_("lt"), NOTE + ".Note.__gt__": cmp_("gt")}
    paths = run_method(repo, fn, lambda: [AObj(ici, {"range": (lo, hi)}, name="ins"), note], summaries=summ)
    ok, why = bool(paths), "no outcome"
    seen = set()
    for p in paths:
        t = dict(p.trace)
        above_lo = t.get("ge(note,lo)", None) if "ge(note,lo)" in t else (not t["lt(note,lo)"] if "lt(note,lo)" in t else (t.get("le(lo,note)")))
        below_hi = t.get("le(note,hi)", None) if "le(note,hi)" in t else (not t["gt(note,hi)"] if "gt(note,hi)" in t else (t.get("ge(hi,note)")))
        want = bool(above_lo) and (below_hi if above_lo else True)
        if above_lo is None or (above_lo and below_hi is None):
            ok, why = False, "range test does not compare the note with both ends (%s)" % (p.trace,)
            break
        if p.kind != "return" or p.value is not (bool(above_lo) and bool(below_hi)):
            ok, why = False, "note %s low end, %s high end gives %r" % ("above" if above_lo else "below", "below" if below_hi else "above", p.value)
            break
        seen.add(p.value)
    if ok and seen != {True, False}:
        ok, why = False, "range test is constant"
    ctx.check(ok, R, "note_in_range", fn.where(), "Instrument.note_in_range(note)", why)
    for label, arg, exc in (("non-note", 3.5, "UnexpectedObjectError"),):
        paths = run_method(repo, fn, lambda: [AObj(ici, {"range": (lo, hi)}, name="ins"), arg], summaries=summ)
        ok = bool(paths) and all(p.kind == "raise" and p.value == exc for p in paths)
        ctx.check(ok, R, "note_in_range.rejects", fn.where(), "Instrument.note_in_range(3.5)", "gives %s" % [(p.kind, p.value) for p in paths])
    # can_play_notes: unwrap containers / single notes, all must be in range
    fc = repo.find_method(ici, "can_play_notes")
    n1, n2, n3 = (stub(repo, NOTE, "Note", name="n%d" % i) for i in range(3))
    cont = stub(repo, NC, "NoteContainer", name="cont")
    cont.attrs["notes"] = [n1, n2, n3]
    for label, arg, members in (("container", cont, [n1, n2, n3]), ("list", [n1, n2], [n1, n2]), ("single", n1, [n1])):
        for fail_at in (None, 0, len(members) - 1):
            def nir(it, args, kwargs, node, fail_at=fail_at):
                lg = log_of(it)
                lg.append(("nir", [args[1]], {}))
                return not (fail_at is not None and len([e for e in lg if e[0] == "nir"]) - 1 == fail_at)
            key = "%s.Instrument.note_in_range" % INS
            paths = run_method(repo, fc, lambda: [AObj(ici, {}, name="ins"), arg], summaries={key: nir})
            ok = len(paths) == 1 and paths[0].kind == "return"
            if ok:
                asked = [e[1][0] for e in log_of(paths[0].interp) if e[0] == "nir"]
                want_asked = members if fail_at is None else members[:fail_at + 1]
                # every note up to the first one out of range is looked at (looking at more is nobody's business), nothing else is
                ok = [id(x) for x in asked][:len(want_asked)] == [id(x) for x in want_asked] and all(any(x is m_ for m_ in members) for x in asked) \
                    and paths[0].value is (fail_at is None)
            ctx.check(ok, R, "can_play_notes[%s,fail=%s]" % (label, fail_at), fc.where(), "Instrument.can_play_notes(<%s>)" % label,
                      "must test every note and answer True only if all are in range: %s" % [(p.kind, p.value) for p in paths])


def rule_new_bar(ctx, tci):
    R = "R-C14-3"
    repo = ctx.repo
    fi = repo.find_method(tci, "add_notes")
    bci = repo.mod(BAR).cls("Bar")
    # the item is a container (what every other form is turned into before it is stored)
    note, dur, res = AObj(repo.mod(NC).cls("NoteContainer"), {"notes": [Opaque("member")]}, name="item"), Opaque("value"), Opaque("placed")

    def bar_ctor(it, args, kwargs, node):
        o = AObj(bci, {"ctor_args": list(args), "ctor_kwargs": dict(kwargs)}, name="newbar")
        log_of(it).append(("Bar()", list(args), dict(kwargs), o))
        return o
    for label, nbars, full in (("empty track", 0, None), ("last bar not full", 2, False), ("last bar full", 2, True)):
        summ = dict(bar_recorders(repo, is_full=full, placed=res))
        summ[BAR + ".Bar"] = bar_ctor

        def mk():
            bars = [bar_stub(repo, name="bar%d" % i, key=Opaque("key%d" % i), meter=Opaque("meter%d" % i)) for i in range(nbars)]
            return [AObj(tci, {"bars": bars, "instrument": None}, name="track"), note, dur]
        paths = run_method(repo, fi, mk, summaries=summ)
        ok, why = len(paths) == 1 and paths[0].kind == "return", "outcome %s" % [(p.kind, p.value) for p in paths]
        if ok:
            p = paths[0]
            tr = p.interp.args[0]
            bars = tr.attrs["bars"]
            log = log_of(p.interp)
            made = [e for e in log if e[0] == "Bar()"]
            placed = [e for e in log if e[0] == "Bar.place_notes"]
            want_new = (nbars == 0) or bool(full)
            if len(made) != (1 if want_new else 0) or len(bars) != nbars + (1 if want_new else 0):
                ok, why = False, "%s: %d new bars created, track has %d bars" % (label, len(made), len(bars))
            elif want_new and bars[-1] is not made[0][3]:
                ok, why = False, "the new bar is not appended at the end"
            elif full and not (len(made[0][1]) == 2 and getattr(made[0][1][0], "tag", "") == "key1" and getattr(made[0][1][1], "tag", "") == "meter1"):
                ok, why = False, "the new bar is built from %s instead of the last bar's key and meter" % (made[0][1],)
            elif len(placed) != 1 or placed[0][1][0] is not bars[-1] or placed[0][1][1] is not note or placed[0][1][2] is not dur \
                    or not (p.value is res or p.value is True):
                ok, why = False, "the item must be placed in the last bar and its acceptance reported (placed in %s, returned %r)" % (
                    [getattr(e[1][0], "name", "?") for e in placed], p.value)
        ctx.check(ok, R, "new-bar[%s]" % label, fi.where(), "Track.add_notes [%s]" % label, why)
    fa = repo.find_method(tci, "add_bar")
    b = bar_stub(repo, name="added")
    paths = run_method(repo, fa, lambda: [AObj(tci, {"bars": [bar_stub(repo)]}, name="track"), b])
    ok = len(paths) == 1 and paths[0].interp.args[0].attrs["bars"][-1] is b and len(paths[0].interp.args[0].attrs["bars"]) == 2 and paths[0].value is paths[0].interp.args[0]
    ctx.check(ok, R, "add_bar", fa.where(), "Track.add_bar(bar)", "add_bar must append the bar and return the track")


def rule_iteration(ctx, tci):
    R = "R-C14-4"
    repo = ctx.repo
    fg = repo.find_method(tci, "get_notes")
    bci = repo.mod(BAR).cls("Bar")
    entries = [[[Opaque("b%d%d" % (i, j)), Opaque("v%d%d" % (i, j)), Opaque("c%d%d" % (i, j))] for j in range(n)] for i, n in enumerate((2, 0, 3))]

    def mk():
        return [AObj(tci, {"bars": [AObj(bci, {"bar": list(e)}, name="bar%d" % i) for i, e in enumerate(entries)]}, name="track")]
    try:
        paths = run_method(repo, fg, mk)
    except CannotDecide as e:
        raise AnalysisError("Track.get_notes: %s" % e)
    ok = len(paths) == 1 and paths[0].kind == "return"
    got = None
    if ok:
        v = paths[0].value
        got = list(v.items) if isinstance(v, AIter) else (list(v) if isinstance(v, list) else None)
        flat = [tuple(x) for e in entries for x in e]
        ok = got is not None and len(got) == len(flat) and all(isinstance(g, tuple) and all(a is b for a, b in zip(g, f)) for g, f in zip(got, flat))
    ctx.check(ok, R, "get_notes", fg.where(), "Track.get_notes()", "iteration must yield every (beat, value, content) of every bar in order, got %s" % short(repr(got), 200))
    ft = repo.find_method(tci, "test_integrity")
    for label, fulls, want in (("all full", [True, True, False], True), ("middle not full", [True, False, True], False), ("single", [False], True)):
        def mk2():
            return [AObj(tci, {"bars": [bar_stub(repo, name="bar%d" % i, full=f) for i, f in enumerate(fulls)]}, name="track")]
        key = "%s.Bar.is_full" % BAR
        paths = run_method(repo, ft, mk2, summaries={key: lambda it, a, k, n: a[0].attrs["full"]})
        ok = len(paths) == 1 and paths[0].value is want
        ctx.check(ok, R, "test_integrity[%s]" % label, ft.where(), "Track.test_integrity()", "bars full=%s gives %s, expected %s" % (fulls, [(p.kind, p.value) for p in paths], want))
    for mname, args, check in (("__len__", [], lambda v, bars: v == len(bars)), ("__getitem__", [1], lambda v, bars: v is bars[1])):
        f = repo.find_method(tci, mname)
        paths = run_method(repo, f, lambda: mk() + args)
        ok = len(paths) == 1 and paths[0].kind == "return" and check(paths[0].value, paths[0].interp.args[0].attrs["bars"])
        ctx.check(ok, R, mname, f.where(), "Track.%s" % mname, "gives %s" % [(p.kind, p.value) for p in paths])


def rule_from_chords(ctx, tci):
    R = "R-C14-5"
    repo = ctx.repo
    fi = repo.find_method(tci, "from_chords")
    nci = repo.mod(NC).cls("NoteContainer")

    def from_chord(it, args, kwargs, node):
        return ("chord", args[1])
    base = {NC + ".NoteContainer.from_chord": from_chord,
            TR + ".Track.get_tuning": lambda it, a, k, n: None,
            "mingus.core.value.subtract": lambda it, a, k, n: ("minus", a[0], a[1]),
            BAR + ".Bar.value_left": lambda it, a, k, n: "LEFT"}
    # accept everything
    summ = dict(base)
    summ.update(record_class(repo, TR, "Track", ["add_notes"], result=True))
    chords = ["Am", ["C", ["G7", None]], None, "F"]
    paths = run_method(repo, fi, lambda: [AObj(tci, {"bars": [bar_stub(repo)], "instrument": None, "tuning": None}, name="track"), chords, 2], summaries=summ)
    ok, why = len(paths) == 1 and paths[0].kind == "return", "outcome %s" % [(p.kind, p.value) for p in paths]
    if ok:
        got = [tuple(e[1][1:]) + tuple(e[2].values()) for e in log_of(paths[0].interp) if e[0] == "Track.add_notes"]
        want = [(("chord", "Am"), 2), (("chord", "C"), 4), (("chord", "G7"), 8), (None, 8), (None, 2), (("chord", "F"), 2)]
        # a None inside a nested list is passed to add_chord -> from_chord(None); the statement only requires top-level rests
        got_n = [(g[0], g[1]) for g in got]
        if got_n != want and got_n != want[:3] + [(("chord", None), 8)] + want[4:]:
            ok, why = False, "items placed %s, expected %s (nesting doubles the value, None is a rest)" % (got_n, want)
        elif paths[0].value is not paths[0].interp.args[0]:
            ok, why = False, "does not return the track"
    ctx.check(ok, R, "from_chords.accepting", fi.where(), "Track.from_chords([...], 2)", why)
    # a refused chord is split across the bar line
    calls = []

    def add_notes(it, args, kwargs, node):
        lg = log_of(it)
        lg.append(("Track.add_notes", list(args), dict(kwargs)))
        return len([e for e in lg if e[0] == "Track.add_notes"]) != 1  # first call refused
    summ = dict(base)
    summ[TR + ".Track.add_notes"] = add_notes
    paths = run_method(repo, fi, lambda: [AObj(tci, {"bars": [bar_stub(repo)], "instrument": None, "tuning": None}, name="track"), ["Am"], 1], summaries=summ)
    ok, why = len(paths) == 1 and paths[0].kind == "return", "outcome %s" % [(p.kind, p.value) for p in paths]
    if ok:
        got = [tuple(e[1][1:]) for e in log_of(paths[0].interp) if e[0] == "Track.add_notes"]
        want = [(("chord", "Am"), 1), (("chord", "Am"), "LEFT"), (("chord", "Am"), ("minus", 1, "LEFT"))]
        if got != want:
            ok, why = False, "after a refusal the chord must be placed with the value left in the bar and then with the remainder: %s" % (got,)
    ctx.check(ok, R, "from_chords.split", fi.where(), "Track.from_chords(['Am'], 1) when the chord does not fit", why)
    # top-level None and duration default
    d = ctx.repo.try_const(repo.mod(TR), fi.defaults.get("duration"))
    ctx.check(d == 1, R, "from_chords.default", fi.where(), "from_chords default duration", "default duration is %r" % (d,))
    summ = dict(base)
    summ.update(record_class(repo, TR, "Track", ["add_notes"], result=True))
    paths = run_method(repo, fi, lambda: [AObj(tci, {"bars": [], "instrument": None, "tuning": None}, name="track"), [None, None], 4], summaries=summ)
    got = [tuple(e[1][1:]) for e in log_of(paths[0].interp) if e[0] == "Track.add_notes"] if len(paths) == 1 else None
    ctx.check(got == [(None, 4), (None, 4)], R, "from_chords.rests", fi.where(), "Track.from_chords([None, None], 4)", "rests placed as %s" % (got,))


def rule_composition(ctx):
    R = "R-C14-6"
    repo = ctx.repo
    cci = repo.mod(COMP).cls("Composition")
    for m in cci.methods.values():
        ctx.touch(m)
    tci = repo.mod(TR).cls("Track")
    f = repo.find_method(cci, "add_track")
    t_new = stub(repo, TR, "Track", name="newtrack", bars=[])

    def mk():
        return [AObj(cci, {"tracks": [stub(repo, TR, "Track", name="t0", bars=[]), stub(repo, TR, "Track", name="t1", bars=[])], "selected_tracks": [0]}, name="comp"), t_new]
    paths = run_method(repo, f, mk)
    ok = len(paths) == 1 and paths[0].kind == "return"
    if ok:
        c = paths[0].interp.args[0]
        ok = len(c.attrs["tracks"]) == 3 and c.attrs["tracks"][2] is t_new and c.attrs["selected_tracks"] == [2]
    ctx.check(ok, R, "add_track", f.where(), "Composition.add_track(track)", "must append the track and select exactly its index")
    paths = run_method(repo, f, lambda: [AObj(cci, {"tracks": [], "selected_tracks": []}, name="comp"), 5])
    ok = bool(paths) and all(p.kind == "raise" and p.value == "UnexpectedObjectError" for p in paths)
    ctx.check(ok, R, "add_track.rejects", f.where(), "Composition.add_track(5)", "gives %s" % [(p.kind, p.value) for p in paths])
    f = repo.find_method(cci, "add_note")
    # the item is a container (one selected track at most gets the object itself, the others may get copies of it)
    x = AObj(repo.mod(NC).cls("NoteContainer"), {"notes": []}, name="item")
    rec = record_class(repo, TR, "Track", ["__add__"], result=Opaque("r"))
    for sel in ([0, 2], [1], []):
        def mk2():
            # (tracks without an instrument: whatever asks about the range first has nothing to refuse)
            ts = [stub(repo, TR, "Track", name="t%d" % i, bars=[], instrument=None) for i in range(3)]
            return [AObj(cci, {"tracks": ts, "selected_tracks": list(sel)}, name="comp"), x]
        paths = run_method(repo, f, mk2, summaries=rec)
        ok = len(paths) == 1 and paths[0].kind == "return"
        if ok:
            got = [(e[1][0].name, e[1][1]) for e in log_of(paths[0].interp) if e[0] == "Track.__add__"]
            same_kind = lambda o: o is x or (isinstance(o, AObj) and o.cls is x.cls and o.attrs.get("notes") == [])
            ok = [g[0] for g in got] == ["t%d" % i for i in sel] and all(same_kind(g[1]) for g in got)
        ctx.check(ok, R, "add_note%s" % sel, f.where(), "Composition.add_note(note) with selection %s" % sel, "the note must reach exactly the selected tracks")
    f = repo.find_method(cci, "__add__")
    rec = record_class(repo, COMP, "Composition", ["add_track", "add_note"], result=Opaque("r"))
    for label, val, target in (("track", t_new, "add_track"), ("note", Opaque("n"), "add_note"), ("string", "C", "add_note")):
        paths = run_method(repo, f, lambda: [AObj(cci, {"tracks": [], "selected_tracks": []}, name="comp"), val], summaries=rec)
        got = None
        for p in paths:
            got = [(e[0], e[1][1]) for e in log_of(p.interp)]
        ok = bool(paths) and all([(e[0], e[1][1]) for e in log_of(p.interp)] == [("Composition." + target, val)] for p in paths
                                 if not (isinstance(val, type(Opaque("x"))) and [(e[0]) for e in log_of(p.interp)] == ["Composition.add_track"]))
        ctx.check(ok, R, "__add__[%s]" % label, f.where(), "Composition + <%s>" % label, "'+' dispatches to %s" % (got,))
    f = repo.find_method(cci, "__init__")
    paths = run_method(repo, f, lambda: [AObj(cci, {}, name="comp")])
    ok = len(paths) == 1 and paths[0].interp.args[0].attrs.get("tracks") == []
    ctx.check(ok, R, "__init__", f.where(), "Composition()", "a new composition must get its own empty track list")
