"""C01 -- note names <-> pitch classes (mingus/core/notes.py).  See DESIGN.md section C01."""
from __future__ import annotations

import itertools

from ..engine.absval import Lin, Sym, Ch, Run, AbsStr, Rep, Sel, Opaque, INF
from ..engine.absint import CannotDecide
from ..engine.loader import AnalysisError, short
from ..engine import notesdom as nd
from ..engine.notesdom import paths_of, decompose, congruent, NAT, LETTERS, SHARP, FLAT

PROP = "C01"
EXPLANATION = (
    "Static rules over mingus/core/notes.py: module tables are constant-folded and compared with an "
    "independent oracle; every function is evaluated abstractly over note-name *shapes* (7 concrete letters x "
    "a symbolic run of '#'/'b' of any length and order, plus malformed-shape classes); per-character fold "
    "summaries give closed forms in the symbolic accidental counts, so each held instance is a statement "
    "about every spelling, not about sampled names.")
TRUSTED = ["CPython ast module", "mingus_static abstract evaluator (validated by the variant corpus)",
           "oracle constants derived from the 2-2-1-2-2-2-1 step pattern in engine/notesdom.py"]
NOT_DECIDED = "behaviour on the empty string (outside the statement)"

M = "mingus.core.notes"


def _loc(fi):
    return fi.where()


def run(ctx):
    repo = ctx.repo
    mod = repo.mod(M)
    ctx.touch(mod)
    f = {n: mod.func(n) for n in ("int_to_note", "is_enharmonic", "is_valid_note", "note_to_int",
                                  "reduce_accidentals", "remove_redundant_accidentals", "augment", "diminish")}
    ctx.touch(*f.values())
    rule_tables(ctx, mod, f)
    rule_folds(ctx, mod, f)
    rule_validity(ctx, mod, f)
    rule_aug_dim(ctx, mod, f)
    rule_simplifiers(ctx, mod, f)
    rule_enharmonic(ctx, mod, f)
    ctx.floor("R-C01-1", 2 + 2 * 12 + 4)
    ctx.floor("R-C01-2", 7)
    ctx.floor("R-C01-3", 10)
    ctx.floor("R-C01-4", 2 * 7 * 3)
    ctx.floor("R-C01-5", 14)
    ctx.floor("R-C01-6", 1)


# ------------------------------------------------------------------ R-C01-1
def rule_tables(ctx, mod, f):
    R = "R-C01-1"
    nd_node = mod.glob("_note_dict")
    try:
        d = mod.const("_note_dict")
    except Exception as e:
        raise AnalysisError("_note_dict is not a constant table: %s" % e)
    ctx.check(d == NAT, R, "_note_dict", mod.where(nd_node), "_note_dict = %s" % short(nd_node),
              "letter table differs from the natural pitch classes C0 D2 E4 F5 G7 A9 B11", table=d, oracle=NAT)
    fnode = mod.glob("fifths")
    fv = mod.const("fifths")
    oracle = nd.circle_of_fifths_letters()
    ctx.check(fv == oracle, R, "fifths", mod.where(fnode), "fifths = %s" % short(fnode),
              "fifths is not the letter circle F C G D A E B", table=fv, oracle=oracle)
    fi = f["int_to_note"]
    n = Sym("note_int", 0, 11)
    for style, allowed in (("#", {"", "#"}), ("b", {"", "b"})):
        paths = paths_of(ctx.repo, fi, [Lin.of(n), style])
        if len(paths) != 1 or paths[0].kind != "return" or not isinstance(paths[0].value, Sel):
            ctx.violated(R, "int_to_note[%s]" % style, _loc(fi), "int_to_note(i, %r)" % style,
                         "for 0 <= i <= 11 the result is not a single table row selected by i: %r" % (paths,))
            continue
        sel = paths[0].value
        if not (sel.index == Lin.of(n)) or len(sel.table) != 12:
            ctx.violated(R, "int_to_note[%s].index" % style, _loc(fi), "int_to_note(i, %r)" % style,
                         "table of %d rows indexed by %s instead of 12 rows indexed by the argument"
                         % (len(sel.table), sel.index))
            continue
        for i, name in enumerate(sel.table):
            ok = isinstance(name, str) and nd.pitch_of_concrete(name) == i and name[1:] in allowed
            ctx.check(ok, R, "int_to_note[%s][%d]" % (style, i), _loc(fi), "%s-style row %d = %r" % (style, i, name),
                      "row %d of the %r-style table is %r: pitch class %r, allowed accidentals %s"
                      % (i, style, name, nd.pitch_of_concrete(name) if isinstance(name, str) else None, sorted(allowed)),
                      row=name)
    # rejections
    for label, sym in (("below", Sym("note_int", -INF, -1)), ("above", Sym("note_int", 12, INF))):
        paths = paths_of(ctx.repo, fi, [Lin.of(sym), "#"])
        ok = all(p.kind == "raise" and p.value == "RangeError" for p in paths) and paths
        ctx.check(ok, R, "int_to_note.range." + label, _loc(fi), "int_to_note(i) for i %s 0..11" % label,
                  "integers %s 0..11 are not all rejected with RangeError: %r" % (label, paths))
    other = nd.other_class({"#", "b"})
    for label, acc in (("other-char", other), ("two-chars", AbsStr([SHARP, SHARP])), ("empty", "")):
        paths = paths_of(ctx.repo, fi, [Lin.of(n), acc])
        ok = all(p.kind == "raise" and p.value == "FormatError" for p in paths) and paths
        ctx.check(ok, R, "int_to_note.style." + label, _loc(fi), "int_to_note(i, <%s>)" % label,
                  "an unknown accidental style (%s) is not rejected with FormatError: %r" % (label, paths))


# ------------------------------------------------------------------ R-C01-2
def rule_folds(ctx, mod, f):
    R = "R-C01-2"
    fi = f["note_to_int"]
    for L in LETTERS:
        run = nd.acc_run("R")
        paths = paths_of(ctx.repo, fi, [AbsStr([L, run])])
        want = Lin.of(NAT[L]) + nd.run_net(run)
        ok = bool(paths)
        why = ""
        for p in paths:
            if p.kind != "return" or Lin.of(p.value) is None:
                ok, why = False, "path %r does not return an integer" % (p,)
                break
            v = Lin.of(p.value)
            lo, hi = p.interp.lin_interval(v)
            if not congruent(v, want, 12):
                ok, why = False, "returns %s which is not congruent to natural+sharps-flats = %s (mod 12)" % (v, want)
                break
            if lo < 0 or hi > 11:
                ok, why = False, "returns %s with range [%s,%s], not inside 0..11" % (v, lo, hi)
                break
        ctx.check(ok, R, "note_to_int[%s+run]" % L, _loc(fi), "note_to_int(%s<any accidentals>)" % L,
                  "note_to_int on letter %s with an arbitrary accidental string: %s" % (L, why),
                  result=[repr(p.value) for p in paths], oracle=repr(want))


# ------------------------------------------------------------------ R-C01-3
MALFORMED = ["#C", "bB", "b#Ab", "#", "b", "##", "#C#", "bbD", "C#x", "Cx", "Cb#b!", "H", "c", "c#", "cb", "h", "C-4", "C#-4", "C ", " C", "CC", "C#C",
             "CbC", "C#B", "Cis", "Ces", "1", "C1", "C#1", "C\n", "C#\n", "\nC", "C/", "C|", "Cm", "CM7", "Bbb7", "x", "-", "C--", "C.", "do", "B\u266d", "C\u266f",
             "\uff23", "Cbx#", "C#bx", "AbA", "GG#", "E#e", "Fb "]


def rule_validity(ctx, mod, f):
    R = "R-C01-3"
    undecided = []
    other_tail = nd.other_class({"#", "b"}, "OTHERTAIL")
    # heads that are no letter: an accidental sign in the first place, or anything else (two classes, so that code which
    # looks at the signs -- strip('#b'), count('#') -- is decided on each)
    other_head = nd.other_class(set(LETTERS) | {"#", "b"}, "OTHERHEAD")
    acc_head = Ch("ACCHEAD", {"#", "b"})
    heads = [(L, True) for L in LETTERS] + [(other_head, False), (acc_head, False)]
    for head, head_ok in heads:
        hname = head if isinstance(head, str) else ("OTHER" if head is other_head else "ACCIDENTAL")
        run = Run("T", [SHARP, FLAT, other_tail])
        s = AbsStr([head, run])
        # is_valid_note: True exactly when the head is a letter and no OTHER character occurs
        try:
            paths = paths_of(ctx.repo, f["is_valid_note"], [s])
        except CannotDecide as e:
            # the predicate asks something the classes of this rule do not separate (e.g. whether a foreign character is
            # a letter): no statement about the whole class; the battery of texts below decides its members
            undecided.append("is_valid_note[%s]: %s" % (hname, e))
            continue
        ok, why = bool(paths), ""
        seen_true = seen_false = False
        for p in paths:
            lo, hi = p.interp.lin_interval(Lin.of(run.count["OTHERTAIL"]))
            has_other = lo >= 1
            no_other = hi <= 0
            if p.kind != "return" or not isinstance(p.value, bool):
                ok, why = False, "path does not return a bool: %r" % (p,)
                break
            expect = head_ok and no_other if (has_other or no_other or not head_ok) else None
            if not head_ok:
                expect = False
            if expect is None:
                ok, why = False, "result %r does not depend on the presence of a foreign character" % p.value
                break
            if p.value != expect:
                ok, why = False, "returns %r for head=%s, foreign characters %s" % (
                    p.value, hname, "present" if has_other else "absent")
                break
            seen_true |= p.value
            seen_false |= not p.value
        if ok and head_ok and not (seen_true and seen_false):
            ok, why = False, "predicate is constant on letter %s" % hname
        ctx.check(ok, R, "is_valid_note[%s]" % hname, _loc(f["is_valid_note"]),
                  "is_valid_note(%s<any tail>)" % hname, "validity predicate wrong: %s" % why)
        # note_to_int / reduce_accidentals reject exactly the invalid shapes
        for fname in ("note_to_int", "reduce_accidentals"):
            fi = f[fname]
            try:
                paths = paths_of(ctx.repo, fi, [s])
            except CannotDecide as e:
                undecided.append("%s[%s]: %s" % (fname, hname, e))
                continue
            ok, why = bool(paths), ""
            for p in paths:
                lo, hi = p.interp.lin_interval(Lin.of(run.count["OTHERTAIL"]))
                invalid = (not head_ok) or lo >= 1
                if invalid and not (p.kind == "raise" and p.value == "NoteFormatError"):
                    ok, why = False, "malformed name (head=%s, foreign tail char %s) gives %s %r instead of NoteFormatError" % (
                        hname, lo >= 1, p.kind, p.value)
                    break
                if not invalid and hi <= 0 and p.kind == "raise":
                    ok, why = False, "valid name rejected with %r" % p.value
                    break
                if p.kind == "return" and hi >= 1:
                    # the answer was given without ever ruling out a foreign character in the tail: names that have one
                    # take this path too, and are accepted
                    ok, why = False, "answers %r on a path that never looks whether the tail holds anything but '#' and 'b': a malformed name is accepted" % (p.value,)
                    break
            ctx.check(ok, R, "%s.rejects[%s]" % (fname, hname), _loc(fi), "%s(%s<any tail>)" % (fname, hname), why)

    # a battery of texts that are no note names, evaluated as they stand: the predicate says False, the two converters refuse
    bad = []
    for text in MALFORMED:
        for fname in ("is_valid_note", "note_to_int", "reduce_accidentals"):
            try:
                paths = paths_of(ctx.repo, f[fname], [text])
            except CannotDecide as e:
                raise AnalysisError("%s(%r): %s" % (fname, text, e))
            if fname == "is_valid_note":
                ok = len(paths) == 1 and paths[0].kind == "return" and paths[0].value is False
            else:
                ok = bool(paths) and all(p.kind == "raise" and p.value == "NoteFormatError" for p in paths)
            if not ok:
                bad.append("%s(%r) gives %s" % (fname, text, [(p.kind, p.value) for p in paths]))
    ctx.check(not bad, R, "malformed-texts", _loc(f["is_valid_note"]), "is_valid_note / note_to_int / reduce_accidentals on %d texts that are no note names" % len(MALFORMED),
              "%d wrong answers (expected False / NoteFormatError), e.g. %s" % (len(bad), bad[:3]))
    # ... and of names, in every order of the signs
    bad = []
    for L in LETTERS:
        for k in range(0, 4):
            for signs in itertools.product("#b", repeat=k):
                name = L + "".join(signs)
                paths = paths_of(ctx.repo, f["is_valid_note"], [name])
                if not (len(paths) == 1 and paths[0].kind == "return" and paths[0].value is True):
                    bad.append("is_valid_note(%r) gives %s" % (name, [(p.kind, p.value) for p in paths]))
                paths = paths_of(ctx.repo, f["note_to_int"], [name])
                want = (NAT[L] + name.count("#") - name.count("b")) % 12
                if not (len(paths) == 1 and paths[0].kind == "return" and paths[0].value == want):
                    bad.append("note_to_int(%r) gives %s, expected %d" % (name, [(p.kind, p.value) for p in paths], want))
    ctx.check(not bad, R, "well-formed-texts", _loc(f["is_valid_note"]), "is_valid_note / note_to_int on letter + up to three signs in any order",
              "%d wrong answers, e.g. %s" % (len(bad), bad[:3]))
    if undecided:
        ctx.note(R, "no statement about a whole class of texts for %d shapes (%s); the batteries decide their members" % (len(undecided), undecided[0]))


# ------------------------------------------------------------------ R-C01-4
def rule_aug_dim(ctx, mod, f):
    R = "R-C01-4"
    undecided = []
    for fname, want in (("augment", 1), ("diminish", -1)):
        fi = f[fname]
        for L in LETTERS:
            run = nd.acc_run("R")
            shapes = {"bare": AbsStr([L]), "ends#": AbsStr([L, run, "#"]), "endsb": AbsStr([L, run, "b"])}
            for sname, s in shapes.items():
                _, net_in, _ = decompose(s)
                try:
                    paths = paths_of(ctx.repo, fi, [s])
                except CannotDecide as e:
                    # the function looks at the order of the signs inside the name (find, a scan): no statement about
                    # "any accidentals in any order" can be made; the spellings of the battery below stand in for it
                    undecided.append("%s[%s,%s]: %s" % (fname, L, sname, e))
                    continue
                ok, why = bool(paths), ""
                for p in paths:
                    if p.kind != "return":
                        ok, why = False, "%s %r" % (p.kind, p.value)
                        break
                    try:
                        head, net_out, _k = decompose(p.value, p.interp)
                    except nd.Shape as e:
                        ok, why = False, "result is not letter+accidentals: %s" % e
                        break
                    if head != L:
                        ok, why = False, "letter changes from %s to %r" % (L, head)
                        break
                    if not nd.same(p.interp, net_out - net_in, want):
                        ok, why = False, "net accidental changes by %s instead of %+d" % (net_out - net_in, want)
                        break
                ctx.check(ok, R, "%s[%s,%s]" % (fname, L, sname), _loc(fi), "%s(%s:%s)" % (fname, L, sname),
                          "%s on a name with shape %s: %s" % (fname, sname, why))
        # every spelling with up to four signs in every order, evaluated as it stands: same letter, only signs after it,
        # the pitch class moves by exactly one
        bad, n = None, 0
        for L in LETTERS:
            for k in range(0, 5):
                for signs in itertools.product("#b", repeat=k):
                    name = L + "".join(signs)
                    n += 1
                    try:
                        paths = paths_of(ctx.repo, fi, [name])
                    except CannotDecide as e:
                        raise AnalysisError("%s(%r): %s" % (fname, name, e))
                    if len(paths) != 1 or paths[0].kind != "return" or not isinstance(paths[0].value, str):
                        bad = "%s(%r) gives %s" % (fname, name, [(p.kind, p.value) for p in paths])
                        break
                    r = paths[0].value
                    if not r or r[0] != L or set(r[1:]) - {"#", "b"}:
                        bad = "%s(%r) == %r: not the same letter followed by signs" % (fname, name, r)
                        break
                    if (r.count("#") - r.count("b")) - (name.count("#") - name.count("b")) != want:
                        bad = "%s(%r) == %r: the pitch class moves by %+d, expected %+d" % (
                            fname, name, r, (r.count("#") - r.count("b")) - (name.count("#") - name.count("b")), want)
                        break
                if bad:
                    break
            if bad:
                break
        ctx.check(bad is None, R, "%s[spellings]" % fname, _loc(fi), "%s on %d spellings (letter + up to four signs in any order)" % (fname, n), bad or "")
    if undecided:
        ctx.note(R, "the order-independent statement could not be made for %d shapes (%s); the spellings battery decides them up to four signs" % (len(undecided), undecided[0]))


# ------------------------------------------------------------------ R-C01-5
def rule_simplifiers(ctx, mod, f):
    R = "R-C01-5"
    fi = f["remove_redundant_accidentals"]
    for L in LETTERS:
        run = nd.acc_run("R")
        net_in = nd.run_net(run)
        paths = paths_of(ctx.repo, fi, [AbsStr([L, run])])
        ok, why = bool(paths), ""
        for p in paths:
            if p.kind != "return":
                ok, why = False, "%s %r" % (p.kind, p.value)
                break
            try:
                head, net_out, kinds = decompose(p.value, p.interp)
            except nd.Shape as e:
                ok, why = False, "result is not letter+accidentals: %s" % e
                break
            if head != L or not nd.same(p.interp, net_out, net_in):
                ok, why = False, "result %r has letter %r / net %s, expected %s / %s" % (p.value, head, net_out, L, net_in)
                break
            if len(kinds) > 1:
                ok, why = False, "result %r mixes sharps and flats" % (p.value,)
                break
            # exactly |net| accidentals: the string is L followed by one homogeneous repetition
            n_acc = Lin({}, 0)
            for a in (p.interp.norm_str(p.value).units()[1:] if isinstance(p.value, AbsStr) else list(p.value[1:])):
                n_acc = n_acc + (a.count.scale(len(a.lit)) if isinstance(a, Rep) else 1)
            lo, hi = p.interp.lin_interval(net_in)
            expect = net_in if lo >= 0 else (-net_in if hi <= 0 else None)
            if expect is None or not nd.same(p.interp, n_acc, expect):
                ok, why = False, "result carries %s accidentals for a net of %s" % (n_acc, net_in)
                break
        ctx.check(ok, R, "remove_redundant_accidentals[%s]" % L, _loc(fi),
                  "remove_redundant_accidentals(%s<any accidentals>)" % L, why,
                  results=[repr(p.value) for p in paths])
    fi = f["reduce_accidentals"]
    sharp_tbl = flat_tbl = None
    for L in LETTERS:
        run = nd.acc_run("R")
        net_in = nd.run_net(run)
        paths = paths_of(ctx.repo, fi, [AbsStr([L, run])])
        ok, why = bool(paths), ""
        for p in paths:
            if p.kind != "return" or not isinstance(p.value, Sel):
                ok, why = False, "does not return a row of an int_to_note table: %s %r" % (p.kind, p.value)
                break
            sel = p.value
            if not congruent(sel.index, Lin.of(NAT[L]) + net_in, 12):
                ok, why = False, "selects row %s, not congruent to natural+net = %s" % (sel.index, Lin.of(NAT[L]) + net_in)
                break
            style = _table_style(sel.table)
            lo, hi = p.interp.lin_interval(net_in)
            if style is None:
                ok, why = False, "selected table %r is neither the sharp nor the flat table" % (sel.table,)
                break
            # sharp for a net raise, flat for a net lowering; at net 0 both tables agree on naturals
            if style == "#" and lo < 0:
                ok, why = False, "sharp spelling chosen on a path where the net accidental may be negative (%s..%s)" % (lo, hi)
                break
            if style == "b" and hi > 0:
                ok, why = False, "flat spelling chosen on a path where the net accidental may be positive (%s..%s)" % (lo, hi)
                break
            if lo <= 0 <= hi and sel.table[NAT[L]] != L:
                ok, why = False, "row %d of the %s table is %r, so a net of 0 does not return the natural" % (
                    NAT[L], style, sel.table[NAT[L]])
                break
        ctx.check(ok, R, "reduce_accidentals[%s]" % L, _loc(fi), "reduce_accidentals(%s<any accidentals>)" % L, why,
                  results=[repr(p.value) for p in paths])


def _table_style(tbl):
    accs = {n[1:] for n in tbl if isinstance(n, str)}
    if len(tbl) != 12 or any(nd.pitch_of_concrete(n) != i for i, n in enumerate(tbl)):
        return None
    if accs <= {"", "#"}:
        return "#"
    if accs <= {"", "b"}:
        return "b"
    return None


# ------------------------------------------------------------------ R-C01-6
def rule_enharmonic(ctx, mod, f):
    R = "R-C01-6"
    fi = f["is_enharmonic"]
    pa, pb = Sym("pc(note1)", 0, 11), Sym("pc(note2)", 0, 11)
    a, b = Opaque("note1"), Opaque("note2")
    calls = []

    def n2i(it, args, kwargs, node):
        calls.append(args[0])
        if args[0] is a:
            return Lin.of(pa)
        if args[0] is b:
            return Lin.of(pb)
        raise CannotDecide("note_to_int applied to something other than an argument")
    try:
        paths = paths_of(ctx.repo, fi, [a, b], summaries={M + ".note_to_int": n2i})
    except CannotDecide:
        paths = None  # is_enharmonic does not go through note_to_int of its two arguments: judged on names below
    if paths is not None:
        d = Lin.of(pa) - Lin.of(pb)
        ok, why = len(paths) == 2, "expected exactly the two outcomes equal / unequal, got %d paths" % len(paths)
        if ok:
            for p in paths:
                lo, hi = p.interp.lin_interval(d)
                equal = (lo, hi) == (0, 0)
                if p.kind != "return" or p.value is not equal:
                    ok, why = False, "returns %r on the path where pitch classes are %s" % (
                        p.value, "equal" if equal else "unequal")
        ctx.check(ok, R, "is_enharmonic", _loc(fi), "is_enharmonic(note1, note2)", why)
    # on names, with the real code: true exactly when the pitch classes are equal -- also across the B/C and E/F lines,
    # and for names that go round the octave
    accs = ["", "#", "b", "##", "bb"]
    names = [l + x for l in "CDEFGAB" for x in accs]
    special = ["B#", "Cb", "E#", "Fb", "A###", "C" + "#" * 12, "C" + "b" * 12, "D" + "#" * 13, "C#b", "Gbbbb"]
    natural = {"C": 0, "D": 2, "E": 4, "F": 5, "G": 7, "A": 9, "B": 11}

    def pc_(n):
        return (natural[n[0]] + n[1:].count("#") - n[1:].count("b")) % 12
    pairs = [(x, y) for x in names for y in names] if ctx.tier == "thorough" else [(x, y) for x in names for y in names[::3]]
    pairs += [(x, y) for x in special for y in special + ["C", "B", "E", "F"]] + [(y, x) for x in special for y in ["C", "B", "E", "F"]]
    bad = []

    def go(it):
        out = []
        for x, y in pairs:
            out.append(it.call_function(fi, [x, y], {}))
        return out
    from ..engine.absint import explore, Interp
    try:
        ps = explore(lambda ch: Interp(ctx.repo, ch), go)
    except CannotDecide as e:
        raise AnalysisError("is_enharmonic on names: %s" % e)
    if len(ps) != 1 or ps[0].kind != "return":
        bad.append(("outcome", [(p.kind, p.value) for p in ps][:2]))
    else:
        for (x, y), r in zip(pairs, ps[0].value):
            if r is not (pc_(x) == pc_(y)):
                bad.append((x, y, r))
    ctx.check(not bad, R, "is_enharmonic[names]", _loc(fi), "is_enharmonic(x, y) for %d pairs of names" % len(pairs),
              "%d answers differ from 'pitch classes equal', e.g. %s" % (len(bad), bad[:4]))
