"""C07 -- chord recognition (mingus/core/chords.py)."""
from __future__ import annotations

import ast

from ..engine.absval import Lin, Sym, Ch, Run, AbsStr, Rep, Sel, Opaque, INF
from ..engine.absint import CannotDecide, Interp, explore, RaiseEx
from ..engine.loader import AnalysisError, short, FuncRef
from ..engine import notesdom as nd
from ..engine.notesdom import paths_of, NAT, LETTERS, formula, NoteVal
from .c06 import ORACLE, tables, _builder_fi, C

PROP = "C07"
EXPLANATION = (
    "Static rules over the chord recognisers: chords.determine is evaluated abstractly (offset domain: root = letter x "
    "symbolic accidentals, chord tones = root + constant, interval naming summarised by its C03-verified semantics) on "
    "every constructible shorthand x root letter x rotation x {shorthand, long form}; the answers are parsed and "
    "compared with the builder formulas (a name rebuilding the original chord exists, the long form at the same "
    "position carries the meaning and the inversion ordinal, both forms have the same length, neither raises, every "
    "returned name incl. polychord halves is a constructible shorthand). Structural rules: closure of all emitted "
    "name constants under both tables, the ordinal function's domain, soundness of the triad decision table "
    "(three-note clause), the trivial answers for 0-2 notes.")
TRUSTED = ["CPython ast module", "mingus_static abstract evaluator", "C02/C03/C06 summaries and oracles"]
NOT_DECIDED = ("soundness of names returned for arbitrary 4-7 note inputs that are not constructible chords; polychord "
               "splitting beyond the halves being constructible names")

I = "mingus.core.intervals"
ORDINALS = ["", ", first inversion", ", second inversion", ", third inversion", ", fourth inversion",
            ", fifth inversion", ", sixth inversion"]
NUMBER_NAMES = ["unison", "second", "third", "fourth", "fifth", "sixth", "seventh"]
RECOGNISERS = ["determine_triad", "determine_seventh", "determine_extended_chord5", "determine_extended_chord6",
               "determine_extended_chord7"]


def recognition_model(repo):
    model = nd.interval_model(repo)
    imod = repo.mod(I)
    real_determine = imod.func("determine")
    memo = {}

    def measure(it, args, kwargs, node):
        d = nd.pitch_lin(it, args[1]) - nd.pitch_lin(it, args[0])
        return it.mod_lin(d, 12)

    def determine(it, args, kwargs, node):
        n1, n2 = args[0], args[1]
        sh = args[2] if len(args) > 2 else kwargs.get("shorthand", False)
        h1, h2 = nd.head_of(it, n1), nd.head_of(it, n2)
        if h1 != h2 or not (isinstance(n1, NoteVal) or isinstance(n2, NoteVal)):
            # the name is a function of the two letters and the pitch difference only (measure is summarised):
            # evaluate the real function once per (letters, difference, form) and reuse the residual constant
            dl = it.resolve(nd.pitch_lin(it, n2) - nd.pitch_lin(it, n1))
            lo_, hi_ = it.lin_interval(dl)
            key = (h1, h2, int(lo_) % 12, bool(sh)) if (h1 != h2 and lo_ == hi_ and isinstance(h1, str) and isinstance(h2, str)) else None
            if key is not None and key in memo:
                return memo[key]
            r = it.call_function(real_determine, list(args), dict(kwargs), node)
            if key is not None and isinstance(r, str):
                memo[key] = r
            return r
        # same letter, spelling of one side unknown: semantics of the unison arm on the accidental difference
        d = it.resolve(nd.pitch_lin(it, n2) - nd.pitch_lin(it, n1))
        lo, hi = it.lin_interval(d)
        if lo != hi:
            raise CannotDecide("unison between %r and %r" % (n1, n2))
        d = int(lo) % 12
        d = d - 12 if d > 6 else d
        if d == 0:
            return "1" if sh else "major unison"
        if d > 0:
            return "#" * d + "1" if sh else "augmented unison"
        if d == -1:
            return "b1" if sh else "minor unison"
        return "bb1" if sh else "diminished unison"
    model[I + ".measure"] = measure
    model[I + ".determine"] = determine
    return model


def parse_name(it, v):
    """name -> (note value, suffix) or None"""
    if isinstance(v, str):
        v = AbsStr([v])
    if not isinstance(v, AbsStr):
        return None
    atoms = list(it.norm_str(v).atoms)
    if not atoms:
        return None
    if isinstance(atoms[0], NoteVal):
        note, rest = atoms[0], atoms[1:]
    elif isinstance(atoms[0], str) and atoms[0][0] in LETTERS:
        first = atoms[0]
        # literal letter followed by runs / accidentals
        k = 1
        while k < len(first) and first[k] in "#b":
            k += 1
        if k < len(first):
            note, rest = first[:k], [first[k:]] + atoms[1:]
        else:
            j = 1
            while j < len(atoms) and isinstance(atoms[j], (Run, Rep)):
                j += 1
            note, rest = AbsStr(atoms[:j]), atoms[j:]
    else:
        return None
    if not all(isinstance(a, str) for a in rest):
        return None
    return note, "".join(rest)


def split_poly(it, v):
    """'X|Y' -> [X, Y] as AbsStr halves, or None if v is not a polychord name."""
    if not isinstance(v, AbsStr):
        return None
    atoms = it.norm_str(v).atoms
    for i, a in enumerate(atoms):
        if isinstance(a, str) and "|" in a:
            j = a.index("|")
            return [AbsStr(atoms[:i] + [a[:j]]), AbsStr([a[j + 1:]] + atoms[i + 1:])]
    return None


def run(ctx):
    mod, sh, mean = tables(ctx)
    ctx.touch(mod)
    for r in RECOGNISERS + ["determine", "int_desc", "determine_polychords"]:
        ctx.touch(mod.func(r))
    model = recognition_model(ctx.repo)
    rule_name_closure(ctx, mod, sh, mean)
    rule_ordinals(ctx, mod)
    rule_triad_table(ctx, mod, sh, mean)
    rule_three_notes(ctx, mod, sh, mean, model)
    rule_trivial(ctx, mod, model)
    rule_recognition(ctx, mod, sh, mean, model)
    rule_names_accepted(ctx, mod)
    rule_seven_notes(ctx, mod)
    ctx.floor("R-C07-1", 40)
    ctx.floor("R-C07-2", 6)
    ctx.floor("R-C07-3", 10)
    ctx.floor("R-C07-4", 3)
    ctx.floor("R-C07-R", 400)


def _emitted_names(ctx, mod, fi, arg):
    """String constants an add_result argument may denote: a literal, or a local bound from a module-level
    constant table (``T[...]`` / ``T.get(...)``) whose values are strings."""
    if isinstance(arg, ast.Constant) and isinstance(arg.value, str):
        return [arg.value]
    if not isinstance(arg, ast.Name):
        return None
    out = []
    for n in ast.walk(fi.node):
        if isinstance(n, ast.Assign) and any(isinstance(t, ast.Name) and t.id == arg.id for t in n.targets):
            v = n.value
            tab = None
            if isinstance(v, ast.Subscript) and isinstance(v.value, ast.Name):
                tab = v.value.id
            elif isinstance(v, ast.Call) and isinstance(v.func, ast.Attribute) and v.func.attr == "get" and isinstance(v.func.value, ast.Name):
                tab = v.func.value.id
            if tab is None or tab not in mod.globals:
                return None
            try:
                d = mod.const(tab)
            except Exception:
                return None
            if not isinstance(d, dict) or not all(isinstance(x, str) for x in d.values()):
                return None
            out += list(d.values())
    return out or None


def rule_name_closure(ctx, mod, sh, mean):
    R = "R-C07-1"
    for rname in RECOGNISERS:
        fi = mod.func(rname)
        for n in ast.walk(fi.node):
            if isinstance(n, ast.Call) and isinstance(n.func, ast.Name) and n.func.id == "add_result" and n.args:
                names = _emitted_names(ctx, mod, fi, n.args[0])
                if names is None:
                    continue  # computed name: R-C07-R judges the answers themselves
                for name in names:
                    ok = name in sh and name in mean
                    ctx.check(ok, R, "%s emits %r" % (rname, name), fi.where(n), "add_result(%r)" % name,
                              "the recogniser emits %r which is %s: the long form raises KeyError and from_shorthand rejects the answer"
                              % (name, " and ".join(x for x, c in (("not constructible (no chord_shorthand row)", name not in sh),
                                                                    ("without a meaning (no chord_shorthand_meaning row)", name not in mean)) if c)))


def rule_ordinals(ctx, mod):
    R = "R-C07-2"
    fi = mod.func("int_desc")
    for t in range(1, 7):
        paths = paths_of(ctx.repo, fi, [t])
        ok = len(paths) == 1 and paths[0].kind == "return" and paths[0].value == ORDINALS[t - 1]
        ctx.check(ok, R, "int_desc[%d]" % t, fi.where(), "int_desc(%d)" % t,
                  "a chord of up to six notes is tried in %d rotations, int_desc(%d) gives %r instead of %r "
                  "(the long form concatenates it to a string)" % (t, t, [(p.kind, p.value) for p in paths], ORDINALS[t - 1]))


def rule_triad_table(ctx, mod, sh, mean):
    """Every row 'interval pair -> name' of determine_triad is sound: root and both intervals belong to the named chord."""
    R = "R-C07-3"
    fi = mod.func("determine_triad")
    rows = []
    for n in ast.walk(fi.node):
        if isinstance(n, ast.If) and isinstance(n.test, ast.Compare) and len(n.test.ops) == 1 \
                and isinstance(n.test.ops[0], ast.Eq) and isinstance(n.test.comparators[0], ast.Constant) \
                and isinstance(n.test.comparators[0].value, str) and isinstance(n.test.left, ast.Name):
            for st in n.body:
                if isinstance(st, ast.Expr) and isinstance(st.value, ast.Call) and isinstance(st.value.func, ast.Name) \
                        and st.value.func.id == "add_result" and st.value.args and isinstance(st.value.args[0], ast.Constant):
                    rows.append((n.test.comparators[0].value, st.value.args[0].value, n))
    for pair, name, node in rows:
        toks, cur = [], ""
        for c in pair:
            cur += c
            if c.isdigit():
                toks.append(cur)
                cur = ""
        m = mean.get(name)
        if cur or len(toks) != 2 or m not in ORACLE:
            ctx.violated(R, "row[%s->%s]" % (pair, name), fi.where(node), "intval == %r -> %r" % (pair, name),
                         "row cannot be interpreted (interval pair %r, name %r)" % (pair, name))
            continue
        have = {nd.degree(t) for t in toks} | {(0, 0)}
        chord = set(formula(ORACLE[m]))
        ctx.check(have <= chord, R, "row[%s->%s]" % (pair, name), fi.where(node), "intval == %r -> %r" % (pair, name),
                  "three notes at intervals %s from the first are named %r, but %s = %s does not contain %s"
                  % (toks, name, m.strip(), ORACLE[m], sorted(have - chord)))


def rule_three_notes(ctx, mod, sh, mean, model):
    """Every name offered for three notes denotes a chord that contains the three notes: determine_triad on 'C' (thorough:
    also F# and Bb) with the other two notes over all 21 spellings, in root position (the recogniser applies one and
    the same table to every rotation), names decoded with the chord-theory oracle."""
    R = "R-C07-3"
    fi = mod.func("determine_triad")
    names21 = [l + a for l in LETTERS for a in ("", "#", "b")]
    roots = ("C",) if ctx.tier != "thorough" else ("C", "F#", "Bb")

    def rel(root, n):
        return ((LETTERS.index(n[0]) - LETTERS.index(root[0])) % 7, (nd.pitch_of_concrete(n) - nd.pitch_of_concrete(root)) % 12)
    for root in roots:
        bad, n_names = [], 0
        for x in names21:
            for y in names21:
                try:
                    ps = paths_of(ctx.repo, fi, lambda: [[root, x, y], True, True], summaries=model, max_depth=40)
                except (CannotDecide, nd.Shape) as e:
                    raise AnalysisError("determine_triad([%s, %s, %s]): %s" % (root, x, y, e))
                if len(ps) != 1 or ps[0].kind != "return" or not isinstance(ps[0].value, list):
                    bad.append(((root, x, y), "outcome %s" % [(p.kind, short(repr(p.value), 40)) for p in ps]))
                    continue
                for name in ps[0].value:
                    n_names += 1
                    nm = ps[0].interp.norm_str(name).concrete() if isinstance(name, AbsStr) and ps[0].interp.norm_str(name).is_concrete() else name
                    if not isinstance(nm, str):
                        bad.append(((root, x, y), "a name that is not plain text: %r" % (name,)))
                        continue
                    k = 1
                    while k < len(nm) and nm[k] in "#b":
                        k += 1
                    nroot, suffix = nm[:k], nm[k:]
                    m = mean.get(suffix)
                    if m not in ORACLE or nd.pitch_of_concrete(nroot) is None:
                        bad.append(((root, x, y), "the name %r cannot be read" % nm))
                        continue
                    chord = set(formula(ORACLE[m]))
                    missing = [n for n in (root, x, y) if rel(nroot, n) not in chord]
                    if missing:
                        bad.append(((root, x, y), "is named %r, a chord that does not contain %s" % (nm, missing)))
        ctx.check(not bad, R, "three-notes[%s]" % root, fi.where(), "determine_triad([%r, x, y], shorthand) for x, y over 21 spellings" % root,
                  "%d of %d names are wrong, e.g. %s" % (len(bad), n_names, bad[:3]), names=n_names)


def rule_trivial(ctx, mod, model):
    R = "R-C07-4"
    fi = mod.func("determine")
    paths = paths_of(ctx.repo, fi, lambda: [[]], summaries=model)
    ctx.check(len(paths) == 1 and paths[0].kind == "return" and paths[0].value == [], R, "determine[0 notes]", fi.where(),
              "determine([])", "the empty chord gives %r" % [(p.kind, p.value) for p in paths])
    a = AbsStr(["C", nd.acc_run("R")])
    paths = paths_of(ctx.repo, fi, lambda: [[a]], summaries=model)
    ok = len(paths) == 1 and paths[0].kind == "return" and isinstance(paths[0].value, list) and len(paths[0].value) == 1 \
        and paths[0].value[0] is a
    ctx.check(ok, R, "determine[1 note]", fi.where(), "determine([x])", "a single note gives %r" % [(p.kind, p.value) for p in paths])
    calls = []
    m2 = dict(model)

    def det(it, args, kwargs, node):
        calls.append(tuple(args[:2]))
        short_form = (args[2] if len(args) > 2 else kwargs.get("shorthand", False))
        return "<interval shorthand>" if short_form is not False else "<interval name>"
    m2[I + ".determine"] = det
    x, y = Opaque("x"), Opaque("y")
    paths = paths_of(ctx.repo, fi, lambda: [[x, y]], summaries=m2)
    ok = len(paths) == 1 and paths[0].kind == "return" and paths[0].value == ["<interval name>"] and calls and calls[-1] == (x, y)
    ctx.check(ok, R, "determine[2 notes]", fi.where(), "determine([x, y])",
              "two notes must give [interval name of (x, y)], got %r" % [(p.kind, p.value) for p in paths])
    # ... in both forms: an interval's shorthand ('5', 'b3') is no chord shorthand -- chord construction does not accept it
    for flags in ([True], [True, True, True], [False, True]):
        del calls[:]
        paths = paths_of(ctx.repo, fi, lambda: [[x, y]] + list(flags), summaries=m2)
        ok = len(paths) == 1 and paths[0].kind == "return" and paths[0].value == ["<interval name>"] and calls and calls[-1] == (x, y)
        ctx.check(ok, R, "determine[2 notes,%s]" % flags, fi.where(), "determine([x, y], %s)" % ", ".join(map(str, flags)),
                  "two notes must give [interval name of (x, y)] in the shorthand form too, got %r" % [(p.kind, p.value) for p in paths])
    # ... and with the library's own interval naming: all 21 x 21 pairs of names with at most one sign, both forms: one text,
    # never an exception (a doubly augmented third is still an interval with a name)
    names21 = [L + a_ for L in LETTERS for a_ in ("", "#", "b")]
    bad = []
    for n1 in names21:
        def pairs(it, n1=n1):
            out = []
            for n2 in names21:
                for form in (False, True):
                    try:
                        out.append((n2, form, "return", it.call_function(fi, [[n1, n2], form], {})))
                    except RaiseEx as r:
                        out.append((n2, form, "raise", r.exc))
            return out
        try:
            ps = explore(lambda ch: Interp(ctx.repo, ch, max_depth=40), pairs)
        except CannotDecide as e:
            raise AnalysisError("determine([%r, x]) over 21 names: %s" % (n1, e))
        if len(ps) != 1 or ps[0].kind != "return":
            bad.append((n1, "*", [(p.kind, short(repr(p.value), 60)) for p in ps]))
            continue
        for n2, form, kind, v in ps[0].value:
            if kind != "return" or not (isinstance(v, list) and len(v) == 1 and isinstance(v[0], str) and v[0]):
                bad.append(((n1, n2), "shorthand=%s" % form, kind, v))
    ctx.check(not bad, R, "determine[2 notes, real interval names]", fi.where(), "determine([x, y]) and determine([x, y], True) for 441 pairs of names",
              "%d do not answer with one interval name, e.g. %s" % (len(bad), bad[:3]))


def rule_recognition(ctx, mod, sh, mean, model):
    R = "R-C07-R"
    fi = mod.func("determine")
    known = sorted(set(sh) & set(mean))
    thorough = ctx.tier == "thorough"
    for key in known:
        bfi = _builder_fi(sh[key])
        m = mean[key]
        if bfi is None or m not in ORACLE:
            continue
        want = formula(ORACLE[m])
        size = len(want)
        if size < 3:
            continue
        letters = LETTERS if thorough else ("CFB" if size <= 4 else "CB")
        for L in letters:
            run = nd.acc_run("R")
            root = AbsStr([L, run])
            root_pitch = Lin.of(NAT[L]) + nd.run_net(run)
            bp = paths_of(ctx.repo, bfi, [root], summaries=model)
            if len(bp) != 1 or bp[0].kind != "return" or not isinstance(bp[0].value, list):
                continue  # reported by C06
            chord = bp[0].value
            for r in range(len(chord)):
                rotated = chord[r:] + chord[:r]
                inst = "recognise[%r,%s,inv%d]" % (key, L, r)
                try:
                    ps = paths_of(ctx.repo, fi, lambda: [list(rotated), True], summaries=model, max_depth=40)
                    pl = paths_of(ctx.repo, fi, lambda: [list(rotated), False], summaries=model, max_depth=40)
                except (CannotDecide, nd.Shape) as e:
                    raise AnalysisError("determine(%s%s, inversion %d): %s" % (L, key, r, e))
                ok, why = True, ""
                if len(ps) != 1 or len(pl) != 1:
                    labels = sorted({lab for p_ in ps + pl for lab, _v in p_.trace})
                    ok, why = False, "recognition branches on something the chord does not determine (%d / %d paths): %s" % (
                        len(ps), len(pl), "; ".join(short(x, 110) for x in labels[:3]))
                elif ps[0].kind != "return" or not isinstance(ps[0].value, list):
                    ok, why = False, "shorthand form: %s %r" % (ps[0].kind, ps[0].value)
                elif pl[0].kind != "return" or not isinstance(pl[0].value, list):
                    ok, why = False, "long form: %s %r (shorthand form answers %s)" % (
                        pl[0].kind, pl[0].value, [short(repr(x), 40) for x in ps[0].value][:4])
                else:
                    sv, lv = ps[0].value, pl[0].value
                    its, itl = ps[0].interp, pl[0].interp
                    if len(sv) != len(lv):
                        ok, why = False, "shorthand form has %d answers, long form %d" % (len(sv), len(lv))
                    found = None
                    for i, nm in enumerate(sv if ok else []):
                        halves = split_poly(its, nm) if isinstance(nm, AbsStr) else None
                        for part in (halves or [nm]):
                            pn = parse_name(its, part)
                            if pn is None or pn[1] not in sh:
                                ok, why = False, "answer %s is not <note><constructible shorthand>" % short(repr(nm), 80)
                                break
                        if not ok:
                            break
                        if halves:
                            continue
                        note, suffix = parse_name(its, nm)
                        if nd.rel(its, note, L, root_pitch) == (0, 0) and mean.get(suffix) in ORACLE \
                                and formula(ORACLE[mean[suffix]]) == want and found is None:
                            found = (i, suffix)
                    if ok and found is None:
                        ok, why = False, "no answer rebuilds the chord: %s" % [short(repr(x), 40) for x in sv][:6]
                    if ok:
                        # the answers must be accepted by the constructor itself (not only have a known suffix)
                        ffi = mod.func("from_shorthand")
                        for nm in ([sv[found[0]]] + [x for k_, x in enumerate(sv) if k_ != found[0]][:(len(sv) if thorough else 1)]):
                            if split_poly(its, nm) if isinstance(nm, AbsStr) else False:
                                continue
                            # an interval result stands for its letter with some accidentals: give the constructor that shape
                            if isinstance(nm, AbsStr):
                                nm = AbsStr([AbsStr([a.head, nd.acc_run("A%d" % k_)]) if isinstance(a, NoteVal) else a for k_, a in enumerate(its.norm_str(nm).atoms)])
                            try:
                                bps = paths_of(ctx.repo, ffi, lambda nm=nm: [nm], summaries=model, max_depth=40)
                            except (CannotDecide, nd.Shape) as e:
                                raise AnalysisError("from_shorthand(%s): %s" % (short(repr(nm), 60), e))
                            badp = [q for q in bps if q.kind != "return" or not isinstance(q.value, list)]
                            if badp or not bps:
                                ok, why = False, "the answer %s is rejected by from_shorthand: %s %r" % (
                                    short(repr(nm), 60), badp[0].kind if badp else "no outcome", badp[0].value if badp else None)
                                break
                    if ok:
                        i, suffix = found
                        lp = parse_name(itl, lv[i])
                        expect = mean[suffix] + ORDINALS[r]
                        if lp is None or nd.rel(itl, lp[0], L, root_pitch) != (0, 0) or lp[1] != expect:
                            ok, why = False, "long form at the same position is %s, expected root + %r" % (
                                short(repr(lv[i]), 80), expect)
                ctx.check(ok, R, inst, fi.where(), "determine(%s..%s rotated by %d)" % (L, key, r), why)


def rule_names_accepted(ctx, mod):
    """Every shorthand name determine() returns -- a polychord name as a whole, too -- is accepted by from_shorthand.  Concrete
    chords on roots with a sharp or a flat (the parser's offsets count the root's accidentals), evaluated with the real code."""
    R = "R-C07-R"
    fd, ff = mod.func("determine"), mod.func("from_shorthand")
    texts = ["F#m7", "BbM7", "C#7", "Ebm6", "AbM7", "F#m", "Bb7", "C#m7", "Dm7", "G7", "Ebm7", "F#dim7", "Bb6"]
    for text in texts:
        def go(it, text=text):
            chord = it.call_function(ff, [text], {})
            names = it.call_function(fd, [list(chord), True], {})
            out = []
            for nm in names:
                try:
                    out.append((nm, "return", it.call_function(ff, [nm], {})))
                except RaiseEx as r:
                    out.append((nm, "raise", r.exc))
            return chord, names, out
        try:
            ps = explore(lambda ch: Interp(ctx.repo, ch, max_depth=60), go)
        except CannotDecide as e:
            raise AnalysisError("determine(from_shorthand(%r), True) and back: %s" % (text, e))
        ok, why = len(ps) == 1 and ps[0].kind == "return", "outcome %s" % [(p.kind, short(repr(p.value), 80)) for p in ps]
        if ok:
            chord, names, out = ps[0].value
            bad = [(nm, k, v) for nm, k, v in out if k != "return" or not isinstance(v, list) or not v]
            if not any(k == "return" and v == chord for nm, k, v in out):
                ok, why = False, "determine(%s, True) gives %s: none of them rebuilds the chord" % (chord, names)
            elif bad:
                ok, why = False, "determine(%s, True) returns the name %r, which from_shorthand does not accept (%s %r)" % (chord, bad[0][0], bad[0][1], bad[0][2])
        ctx.check(ok, R, "names-accepted[%s]" % text, fd.where(), "every name of determine(from_shorthand(%r), True) through from_shorthand" % text, why)


def rule_seven_notes(ctx, mod):
    """Seven-note stacks of thirds (the full thirteenth chords): both forms answer, with equally many names, and neither
    raises -- in every rotation (real code, concrete notes)."""
    R = "R-C07-R"
    fd = mod.func("determine")
    stacks = {"C13": ["C", "E", "G", "Bb", "D", "F", "A"], "Am13": ["A", "C", "E", "G", "B", "D", "F#"], "FM13": ["F", "A", "C", "E", "G", "Bb", "D"],
              "A13": ["A", "C#", "E", "G", "B", "D", "F#"], "EbM13": ["Eb", "G", "Bb", "D", "F", "Ab", "C"]}
    for label, notes7 in stacks.items():
        def go(it, notes7=notes7):
            out = []
            for r in range(7):
                rot = notes7[r:] + notes7[:r]
                res = []
                for form in (True, False):
                    try:
                        res.append(("return", it.call_function(fd, [list(rot), form], {})))
                    except RaiseEx as e:
                        res.append(("raise", e.exc))
                out.append((r, res))
            return out
        try:
            ps = explore(lambda ch: Interp(ctx.repo, ch, max_depth=80), go)
        except CannotDecide as e:
            raise AnalysisError("determine(<%s, seven notes>): %s" % (label, e))
        ok, why = len(ps) == 1 and ps[0].kind == "return", "outcome %s" % [(p.kind, short(repr(p.value), 80)) for p in ps]
        if ok:
            for r, (sf, lf) in ps[0].value:
                if sf[0] != "return" or lf[0] != "return":
                    ok, why = False, "rotation %d: shorthand form %s, long form %s" % (r, sf if sf[0] != "return" else "answers", lf if lf[0] != "return" else "answers")
                    break
                if not isinstance(sf[1], list) or not isinstance(lf[1], list) or len(sf[1]) != len(lf[1]):
                    ok, why = False, "rotation %d: the shorthand form has %s names, the long form %s" % (r, sf[1], lf[1])
                    break
        ctx.check(ok, R, "seven-notes[%s]" % label, fd.where(), "determine(<the seven notes of %s>, both forms), every rotation" % label, why)
