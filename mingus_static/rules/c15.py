"""C15 -- no hidden shared state."""
from __future__ import annotations

import ast
import os

from ..engine.absval import Lin, Sym, AbsStr, Token, Opaque, AObj, AClass, AIter, INF
from ..engine.absint import CannotDecide, Interp, explore, RaiseEx
from ..engine.loader import AnalysisError, Repo, short, norm, walk_no_nested
from ..engine import effects as fx
from ..engine.stubs import log_of, recorder, stub, record_class, run_method
from ..engine.report import VERIF

PROP = "C15"
EXPLANATION = (
    "Static effect / alias / escape analysis over core, containers, the MIDI writers and sequencer, and extra.fft: "
    "(1) every class-level mutable default is either definitely rebound per instance by __init__ (followed through "
    "self.m() and base-class calls on every path) or never mutated in place anywhere in the package; (2) memo tables: "
    "every public function returning lists is evaluated twice in one abstract interpreter and the two results may "
    "share no mutable object with each other nor with any module-level container (escape analysis to the inferred "
    "depth); (3) no public function mutates a parameter or a plain alias of it in place (net-zero and "
    "internal-recursion exceptions frozen with reasons); (4) module-level mutable state is written only by its "
    "frozen owner functions and no function has a mutable default argument; (5) building a container from another "
    "does not share the mutable Note objects; (6) fft._find_log_index, the lookup with position memory, is evaluated in an "
    "order domain (strictly increasing symbolic table, unknown frequencies, every comparison a case split): from any "
    "remembered state satisfying 'the remembered frequency lies in the remembered row' every shortcut answer is the row f "
    "lies in, the search is entered from a start the cold search passes through, and every state written re-establishes "
    "the invariant. Zero-count rules are exercised on positive fixtures on every run.")
TRUSTED = ["CPython ast module", "mingus_static effect analysis and abstract evaluator", "frozen exception / ownership tables in rules/c15.py (one reason per row)"]
NOT_DECIDED = ("termination of fft._find_log_index's search loop and the fallback statements after it (the shortcut paths, the loop entry and "
               "the in-loop answers are decided); value-independence of arbitrary call histories beyond purity + memo transparency")

SCOPE_PREFIXES = ("mingus.core.", "mingus.containers.")
SCOPE_EXTRA = {"mingus.midi.midi_file_out", "mingus.midi.midi_track", "mingus.midi.sequencer", "mingus.midi.sequencer_observer", "mingus.extra.fft"}

# (module, function qualname, parameter) -> reason
PARAM_MUTATION_EXCEPTIONS = {
    ("mingus.core.intervals", "invert", "interval"): "reverse / copy / reverse: net effect zero (decided semantically: C03's invert rule, run here as R-C15-3 invert)",
    # '*': whichever function of the module threads the accumulator (from_shorthand and the helper it recurses through)
    ("mingus.core.chords", "*", "slash"): "internal recursion parameter: documented 'should not be given'; the only in-package call sites pass the fresh result of a recursive call",
    ("mingus.core.chords", "determine_extended_chord5.<locals>.inversion_exhauster", "polychords"): "nested helper, called with a fresh [] by its parent",
    ("mingus.core.chords", "determine_extended_chord6.<locals>.inversion_exhauster", "polychords"): "nested helper, called with a fresh [] by its parent",
    ("mingus.core.chords", "determine_extended_chord7.<locals>.inversion_exhauster", "polychords"): "nested helper, called with a fresh [] by its parent",
}
# class-level tables the package only reads: (module, class, attribute) -> reason
CLASS_CONSTANTS = {
    ("fixpkg.bad", "Table", "ROWS"): "fixture",
}
# module-level mutable state -> functions allowed to write it
STATE_OWNERS = {
    ("mingus.core.keys", "_key_cache"): {"get_notes"},
    ("mingus.core.chords", "_triads_cache"): {"triads"},
    ("mingus.core.chords", "_sevenths_cache"): {"sevenths"},
    ("mingus.extra.fft", "_last_asked"): {"_find_log_index"},
    ("mingus.extra.fft", "_log_cache"): set(),  # filled at import time only
    ("mingus.extra.tunings", "_known"): {"add_tuning"},
    ("mingus.midi.fluidsynth", "midi"): set(),
    ("mingus.midi.fluidsynth", "initialized"): {"init"},
}

# registries whose purpose is to keep what they are given (under a text key)
RETAINED_BY_DESIGN = {("mingus.extra.tunings", "_known", "add_tuning")}


def in_scope(name):
    return name.startswith(SCOPE_PREFIXES) or name in SCOPE_EXTRA


def run(ctx):
    repo = ctx.repo
    mods = [m for n, m in sorted(repo.modules.items()) if in_scope(n)]
    for m in mods:
        ctx.touch(m)
        for f in m.functions.values():
            ctx.touch(f)
    n1 = rule_class_defaults(ctx, repo, mods, "R-C15-1")
    rule_memo_escape(ctx, repo)
    n3 = rule_param_mutation(ctx, repo, mods, "R-C15-3")
    # the one function excepted because it undoes what it does to its argument: decided by running it
    from . import c03
    c03.rule_invert(ctx, repo.mod("mingus.core.intervals"), R="R-C15-3")
    n4 = rule_module_state(ctx, repo, [m for n, m in sorted(repo.modules.items()) if in_scope(n) or n in ("mingus.extra.tunings",)], "R-C15-4")
    rule_copies(ctx, repo)
    rule_stored_once(ctx, repo)
    rule_accelerator(ctx, repo)
    rule_fixtures(ctx)
    ctx.floor("R-C15-1", 7)
    ctx.floor("R-C15-2", 30)
    ctx.floor("R-C15-3", 150)
    ctx.floor("R-C15-4", 5)
    ctx.floor("R-C15-5", 2)
    ctx.floor("R-C15-6", 3)
    ctx.floor("R-C15-F", 5)


# ------------------------------------------------------------------------------ R-C15-1
def attr_mutation_sites(repo, attr):
    sites = []
    for m in repo.modules.values():
        for n in ast.walk(m.tree):
            if isinstance(n, ast.Call) and isinstance(n.func, ast.Attribute) and n.func.attr in fx.MUTATORS \
                    and isinstance(n.func.value, ast.Attribute) and n.func.value.attr == attr:
                sites.append((m, n))
            elif isinstance(n, (ast.Assign, ast.AugAssign)):
                tg = n.targets if isinstance(n, ast.Assign) else [n.target]
                for t in tg:
                    if isinstance(t, ast.Subscript) and isinstance(t.value, ast.Attribute) and t.value.attr == attr:
                        sites.append((m, n))
                    if isinstance(n, ast.AugAssign) and isinstance(t, ast.Attribute) and t.attr == attr:
                        sites.append((m, n))
            elif isinstance(n, ast.Delete):
                for t in n.targets:
                    if isinstance(t, ast.Subscript) and isinstance(t.value, ast.Attribute) and t.value.attr == attr:
                        sites.append((m, n))
    return sites


def _mutable_class_names(repo):
    """Names of the package's classes whose objects are edited in place by their own methods."""
    out = set()
    for m in repo.modules.values():
        for ci in m.classes.values():
            for mname, fi in ci.methods.items():
                if mname == "__init__":
                    continue
                if any(isinstance(t, ast.Attribute) and isinstance(t.value, ast.Name) and t.value.id == "self"
                       for n in ast.walk(fi.node) if isinstance(n, (ast.Assign, ast.AugAssign))
                       for t in (n.targets if isinstance(n, ast.Assign) else [n.target])):
                    out.add(ci.name)
                    break
    return out


def holds_mutable_instances(val, mutable_names):
    """A tuple display (immutable itself) whose elements are new objects of a class that is edited in place:
    range = (Note('C', 0), Note('C', 8)) -- every instance that does not replace it shares those two Notes."""
    if not isinstance(val, ast.Tuple):
        return False
    return any(isinstance(n, ast.Call) and isinstance(n.func, ast.Name) and n.func.id in mutable_names for e in val.elts for n in ast.walk(e))


def rule_class_defaults(ctx, repo, mods, R, report=True):
    count = 0
    mutable_names = _mutable_class_names(repo)
    for m in mods:
        for ci in m.classes.values():
            for attr, val in ci.attrs.items():
                if not fx.is_mutable_display(val) and not holds_mutable_instances(val, mutable_names):
                    continue
                count += 1
                init = repo.find_method(ci, "__init__")
                rebound = init is not None and fx.must_assign_self_attr(repo, init, attr)
                sites = [] if rebound else attr_mutation_sites(repo, attr)
                # a default that is a per-object slot (the package assigns it through self somewhere) must be rebound by
                # __init__ even if the package itself never edits it in place: the caller may, and would edit the class's
                # own list; a table the package only ever reads (CLASS_CONSTANTS, one reason each) may stay shared
                is_slot = any(isinstance(n_, (ast.Assign, ast.AugAssign)) and any(
                    isinstance(t_, ast.Attribute) and t_.attr == attr and isinstance(t_.value, ast.Name) and t_.value.id == "self"
                    for t_ in (n_.targets if isinstance(n_, ast.Assign) else [n_.target]))
                    for m_ in repo.modules.values() for n_ in ast.walk(m_.tree))
                constant = (m.name, ci.name, attr) in CLASS_CONSTANTS and not is_slot
                ok = rebound or (not sites and constant)
                if report:
                    ctx.check(ok, R, "%s.%s.%s" % (m.name, ci.name, attr), m.where(ci.attr_nodes[attr]), "%s.%s = %s" % (ci.name, attr, short(val, 40)),
                              "class-level mutable default %s.%s is not rebound by __init__ on every path%s: "
                              "all instances (and the class) share one object" % (ci.name, attr, (" and is mutated in place at %s" % [
                                  "%s: %s" % (sm.where(sn), short(sn, 50)) for sm, sn in sites[:3]]) if sites else
                                  " although it is a per-object slot (assigned through self elsewhere): editing one object's value in place edits the class's"),
                              rebound_by_init=rebound)
                elif not ok:
                    ctx.held(R, "fixture:class-default %s.%s" % (ci.name, attr), m.where(ci.attr_nodes[attr]))
    return count


# ------------------------------------------------------------------------------ R-C15-2
def mutable_ids(v, depth=0, acc=None):
    acc = acc if acc is not None else {}
    if depth > 6:
        return acc
    if isinstance(v, AIter):
        v = v.items
    if isinstance(v, (list, dict, set)):
        acc[id(v)] = v
        for x in (v.values() if isinstance(v, dict) else v):
            mutable_ids(x, depth + 1, acc)
    elif isinstance(v, tuple):
        for x in v:
            mutable_ids(x, depth + 1, acc)
    elif isinstance(v, AObj):
        acc[id(v)] = v
    return acc


def rule_memo_escape(ctx, repo):
    R = "R-C15-2"
    K, C, P, S = "mingus.core.keys", "mingus.core.chords", "mingus.core.progressions", "mingus.core.scales"
    cm = repo.mod(C)
    battery = [(K, "get_notes", ["C"]), (K, "get_notes", ["eb"]), (K, "get_key_signature_accidentals", ["A"]),
               (C, "triads", ["C"]), (C, "sevenths", ["G"]), (C, "triad", ["E", "C"]), (C, "seventh", ["E", "C"]),
               (C, "from_shorthand", ["Am7"]), (C, "from_shorthand", ["C|G7"]), (C, "from_shorthand", ["NC"]), (C, "from_shorthand", ["N.C."]),
               (C, "from_shorthand", ["Am/C"]), (C, "from_shorthand", [["C", "NC"]]),
               (C, "determine", [["C"]]), (C, "determine", [["C", "E"]]), (C, "determine", [["C", "E", "G"]]), (C, "determine", [["C", "E", "G", "B"]]),
               ("mingus.core.intervals", "invert", [["C", "E", "G"]]), (P, "determine", [["C", "E", "G"], "C"]), (S, "determine", [["C", "D", "E", "F", "G", "A", "B"]]),
               (P, "to_chords", [["I", "V7"], "C"]), (P, "to_chords", ["bIIIm7", "F"]), (P, "to_chords", ["vi", "Eb"])]
    for fn in ["tonic", "tonic7", "supertonic", "mediant7", "subdominant", "dominant7", "submediant", "subtonic7",
               "I", "ii7", "III", "IV7", "V", "vi7", "VII", "vii7"]:
        if fn in cm.functions:
            battery.append((C, fn, ["D"]))
    for modname, fname, args in battery:
        fi = repo.mod(modname).func(fname)

        def twice(it, fi=fi, args=args):
            import copy as _copy
            a1 = _copy.deepcopy(args)
            r1 = it.call_function(fi, a1, {})
            r2 = it.call_function(fi, _copy.deepcopy(args), {})
            it.__dict__["first_args"] = a1
            return r1, r2
        try:
            paths = explore(lambda ch: Interp(repo, ch, max_depth=30), twice)
        except CannotDecide as e:
            raise AnalysisError("%s.%s%s: %s" % (modname, fname, args, e))
        ok, why = len(paths) == 1 and paths[0].kind == "return", "outcome %s" % [(p.kind, short(repr(p.value), 60)) for p in paths][:2]
        if ok:
            it = paths[0].interp
            r1, r2 = paths[0].value
            m1, m2 = mutable_ids(r1), mutable_ids(r2)
            shared = set(m1) & set(m2)
            glob = {}
            for (gm, gn), gv in it.global_cache.items():
                if isinstance(gv, (list, dict, set)):
                    for k_, v_ in mutable_ids(gv).items():
                        glob[k_] = (gm, gn)
            esc = [(glob[i]) for i in list(m1) + list(m2) if i in glob]
            arg_alias = set(m1) & set(mutable_ids(it.__dict__.get("first_args", [])))
            if arg_alias:
                ok, why = False, ("the result is (or contains) the caller's own argument object %s: modifying the returned list changes the caller's list "
                                  "and with it the answer to the next call" % [short(repr(m1[i]), 50) for i in list(arg_alias)[:2]])
            elif shared:
                ok, why = False, ("two calls return the same mutable object(s) %s: modifying one answer changes what later calls return"
                                  % [short(repr(m1[i]), 50) for i in list(shared)[:2]])
            elif esc:
                ok, why = False, "the result aliases module-level state %s.%s: modifying the returned list corrupts the memo" % esc[0]
            elif not m1:
                ok, why = False, "the function returned no list (%r): battery entry out of date" % (r1,)
        ctx.check(ok, R, "%s.%s%s" % (modname.split(".")[-1], fname, args), fi.where(), "%s(%s)" % (fname, ", ".join(repr(a) for a in args)), why)
    # a request that fails must fail the same way when repeated (no half-filled memo entry left behind)
    for modname, fname in ((K, "get_notes"), (K, "get_key_signature"), (K, "get_key_signature_accidentals"), (C, "triads"), (C, "sevenths"),
                           (C, "tonic"), (C, "dominant7"), (C, "I"), (C, "vii7")):
        m_ = repo.mod(modname)
        if fname not in m_.functions:
            continue
        fi = m_.func(fname)
        for bad in ("G#", "H", "db", "Fb", ""):
            def thrice(it, fi=fi, bad=bad):
                out = []
                for _ in range(3):
                    try:
                        out.append(("return", it.call_function(fi, [bad], {})))
                    except RaiseEx as r:
                        out.append(("raise", r.exc))
                return out
            try:
                paths = explore(lambda ch: Interp(repo, ch, max_depth=30), thrice)
            except CannotDecide as e:
                raise AnalysisError("%s.%s(%r) repeated: %s" % (modname, fname, bad, e))
            ok = len(paths) == 1 and paths[0].kind == "return" and len({repr(o) for o in paths[0].value}) == 1
            ctx.check(ok, R, "%s.%s[%r x3]" % (modname.split(".")[-1], fname, bad), fi.where(), "%s(%r) asked three times" % (fname, bad),
                      "the same request gives different outcomes depending on what was asked before: %s" % (
                          [short(repr(o), 60) for o in paths[0].value] if len(paths) == 1 and paths[0].kind == "return" else [(p.kind, p.value) for p in paths]))
    # scales hand out fresh lists too
    sm = repo.mod(S)
    for cname, tonic, meth in (("Major", "C", "ascending"), ("NaturalMinor", "A", "descending"), ("HarmonicMinor", "E", "ascending"), ("Chromatic", "C", "ascending")):
        ci = sm.cls(cname)

        def twice(it, ci=ci, tonic=tonic, meth=meth):
            o1 = it.call(AClass(ci), [tonic], {}, None)
            r1 = it.call_method(o1, meth, [], {}, None)
            o2 = it.call(AClass(ci), [tonic], {}, None)
            r2 = it.call_method(o2, meth, [], {}, None)
            return r1, r2
        paths = explore(lambda ch: Interp(repo, ch, max_depth=30), twice)
        ok, why = len(paths) == 1 and paths[0].kind == "return", "outcome %s" % [(p.kind, short(repr(p.value), 60)) for p in paths][:2]
        if ok:
            it = paths[0].interp
            r1, r2 = paths[0].value
            m1, m2 = mutable_ids(r1), mutable_ids(r2)
            glob = set()
            for gv in it.global_cache.values():
                if isinstance(gv, (list, dict, set)):
                    glob |= set(mutable_ids(gv))
            if set(m1) & set(m2) or (set(m1) | set(m2)) & glob:
                ok, why = False, "scale note lists alias each other or module-level state"
        ctx.check(ok, R, "%s(%s).%s" % (cname, tonic, meth), sm.where(ci.node), "%s(%r).%s()" % (cname, tonic, meth), why)


# ------------------------------------------------------------------------------ R-C15-3
def _is_private(qn):
    last = qn.split(".")[-1]
    return "<locals>" in qn or (last.startswith("_") and not (last.startswith("__") and last.endswith("__")))


def _callers_pass(m, fi, qn, param):
    """How the in-module callers of a private helper supply ``param``: list of (calling FuncInfo, calling qualname, arg
    expression or None if the default is used)."""
    name = qn.split(".")[-1]
    out = []
    if param not in fi.params:
        return out
    pos = fi.params.index(param)
    skip_self = 1 if fi.params and fi.params[0] in ("self", "cls") else 0
    for cqn, cfi in m.functions.items():
        if isinstance(cfi.node, ast.Lambda):
            continue
        for n in walk_no_nested(cfi.node):
            if not isinstance(n, ast.Call):
                continue
            f = n.func
            via_attr = isinstance(f, ast.Attribute) and f.attr == name
            if not ((isinstance(f, ast.Name) and f.id == name) or via_attr):
                continue
            idx = pos - (skip_self if via_attr else 0)
            arg = None
            if 0 <= idx < len(n.args):
                arg = n.args[idx]
            for kw in n.keywords:
                if kw.arg == param:
                    arg = kw.value
            out.append((cfi, cqn, arg))
    return out


def _escapes(repo, m, fi, qn, param, exceptions, seen=None):
    """Can an object supplied by a caller of the *package* reach this parameter (which is mutated in place)?  For a
    public function: yes.  For a private helper: only through its in-module callers -- a fresh object or a piece of
    module state does not count, a caller's own parameter is followed upwards.  Returns a description or None."""
    seen = seen or set()
    if (qn, param) in seen:
        return None
    seen = seen | {(qn, param)}
    if (m.name, qn, param) in exceptions or (m.name, "*", param) in exceptions:
        return None
    if not _is_private(qn):
        return "%s(%s)" % (qn, param)
    sites = _callers_pass(m, fi, qn, param)
    if not sites:
        return None  # a helper nobody in the package calls with this argument
    for cfi, cqn, arg in sites:
        if arg is None:
            continue  # the default: R-C15-4 judges mutable defaults
        if fx.is_fresh_expr(arg):
            continue
        if isinstance(arg, ast.Call):
            continue  # the result of a call: its aliasing is the callee's business (memo escape is R-C15-2)
        if isinstance(arg, ast.Attribute):
            continue  # a piece of an object's own state
        if isinstance(arg, ast.Name):
            if arg.id in m.globals and arg.id not in cfi.params:
                continue  # module state (ownership is R-C15-4's business)
            alias = fx.param_aliases(cfi, [p_ for p_ in cfi.params if p_ not in ("self", "cls")])
            if arg.id in alias:
                if fx.rebinds_before(cfi, arg.id, arg):
                    continue
                if cqn == qn and alias[arg.id] == param:
                    continue  # the helper hands its own accumulator on to itself
                up = _escapes(repo, m, cfi, cqn, alias[arg.id], exceptions, seen)
                if up:
                    return "%s <- %s" % (up, qn)
                continue
            # a local of the caller: fresh if every assignment to it is
            vals = [st.value for st in walk_no_nested(cfi.node) if isinstance(st, ast.Assign) and any(isinstance(t, ast.Name) and t.id == arg.id for t in st.targets)]
            if vals and all(fx.is_fresh_expr(v) or isinstance(v, ast.Call) for v in vals):
                continue
            return "%s(<local %s>) <- %s" % (cqn, arg.id, qn)
        return "%s(<%s>) <- %s" % (cqn, short(arg, 30), qn)
    return None


def rule_param_mutation(ctx, repo, mods, R, report=True, exceptions=PARAM_MUTATION_EXCEPTIONS):
    count = 0
    for m in mods:
        for qn, fi in m.functions.items():
            if isinstance(fi.node, ast.Lambda):
                continue
            params = [p for p in fi.params if p not in ("self", "cls")]
            if not params:
                if report:
                    ctx.held(R, "%s.%s" % (m.name, qn), fi.where(), params=0)
                count += 1
                continue
            alias = fx.param_aliases(fi, params)
            sites = fx.mutation_sites(fi, alias)
            bad = []
            for p, kind, node in sites:
                if (m.name, qn, p) in exceptions or (m.name, "*", p) in exceptions:
                    continue
                # the name was rebound to a fresh copy before the mutation
                names = [a for a, pp in alias.items() if pp == p]
                local = fx.root_name(node.func.value) if isinstance(node, ast.Call) else None
                if local is None:
                    tg = node.targets[0] if isinstance(node, ast.Assign) else (node.target if hasattr(node, "target") else (node.targets[0] if hasattr(node, "targets") else None))
                    local = fx.root_name(tg) if tg is not None else None
                if local is not None and fx.rebinds_before(fi, local, node):
                    continue
                if _is_private(qn) and _escapes(repo, m, fi, qn, p, exceptions) is None:
                    continue  # a private helper that only ever gets fresh objects / module state / exempt accumulators
                bad.append((p, kind, node))
            count += 1
            if report:
                ctx.check(not bad, R, "%s.%s" % (m.name, qn), fi.where(bad[0][2] if bad else None), bad[0][2] if bad else "def %s" % qn,
                          "parameter %r is modified in place (%s): the caller's object changes" % (bad[0][0] if bad else "", bad[0][1] if bad else ""),
                          params=len(params))
            elif bad:
                ctx.held(R, "fixture:param-mutation %s" % qn, fi.where(bad[0][2]))
    # the exception rows must still match something (a stale exception hides nothing, but must be noticed)
    if report:
        for (mn, qn, p), reason in exceptions.items():
            if qn == "*" and mn in repo.modules:
                hit = any(p in f_.params and fx.mutation_sites(f_, fx.param_aliases(f_, [p])) for f_ in repo.modules[mn].functions.values() if not isinstance(f_.node, ast.Lambda))
                if not hit:
                    ctx.note(R, "exception row (%s, *, %s) no longer matches any mutation: %s" % (mn, p, reason))
            elif mn in repo.modules and qn in repo.modules[mn].functions:
                fi = repo.modules[mn].functions[qn]
                alias = fx.param_aliases(fi, [p]) if p in fi.params else {}
                if not fx.mutation_sites(fi, alias):
                    ctx.note(R, "exception row (%s, %s, %s) no longer matches any mutation: %s" % (mn, qn, p, reason))
    return count


# ------------------------------------------------------------------------------ R-C15-4
def rule_module_state(ctx, repo, mods, R, report=True, owners=STATE_OWNERS):
    count = 0
    for m in mods:
        mutable_globals = {n for n, v in m.globals.items() if fx.is_mutable_display(v)}
        declared_global = set()
        for fi in m.functions.values():
            for n in walk_no_nested(fi.node):
                if isinstance(n, ast.Global):
                    declared_global |= set(n.names)
        for g in sorted(mutable_globals | declared_global):
            writers = set()
            for qn, fi in m.functions.items():
                locals_ = set(fi.params)
                for n in walk_no_nested(fi.node):
                    if isinstance(n, ast.Name) and isinstance(n.ctx, ast.Store):
                        locals_.add(n.id)
                is_global_here = any(isinstance(n, ast.Global) and g in n.names for n in walk_no_nested(fi.node))
                if g in locals_ and not is_global_here:
                    continue  # shadowed by a local
                # the table itself, and local names that are just another name for it (t = TABLE; t.append(..))
                galias = {g: g}
                grow = True
                while grow:
                    grow = False
                    for n in walk_no_nested(fi.node):
                        if isinstance(n, ast.Assign) and len(n.targets) == 1 and isinstance(n.targets[0], ast.Name) and n.targets[0].id not in galias:
                            v_ = n.value
                            srcs = [v_] if isinstance(v_, ast.Name) else ([v_.body, v_.orelse] if isinstance(v_, ast.IfExp) else (list(v_.values) if isinstance(v_, ast.BoolOp) else []))
                            if any(isinstance(x, ast.Name) and x.id in galias for x in srcs):
                                galias[n.targets[0].id] = g
                                grow = True
                sites = fx.mutation_sites(fi, galias)
                rebinds = is_global_here and any(isinstance(n, ast.Name) and n.id == g and isinstance(n.ctx, ast.Store) for n in walk_no_nested(fi.node))
                # handing the table to a helper that edits the parameter it gets is writing it, too
                via_helper = False
                for n in walk_no_nested(fi.node):
                    if isinstance(n, ast.Call) and isinstance(n.func, (ast.Name, ast.Attribute)):
                        cname = n.func.id if isinstance(n.func, ast.Name) else n.func.attr
                        for hqn, hfi in m.functions.items():
                            if hqn.split(".")[-1] != cname or isinstance(hfi.node, ast.Lambda):
                                continue
                            for i_, a_ in enumerate(n.args):
                                if isinstance(a_, ast.Name) and a_.id == g and i_ < len(hfi.params):
                                    hp = hfi.params[i_]
                                    if fx.mutation_sites(hfi, fx.param_aliases(hfi, [hp])):
                                        via_helper = True
                if sites or rebinds or via_helper:
                    writers.add(qn.split(".<locals>")[0])
            if not writers:
                continue
            count += 1
            allowed = owners.get((m.name, g))
            # a private helper writes on behalf of the functions that call it
            def public_roots(w, seen=()):
                if not _is_private(w) or w in seen or w not in m.functions or (allowed and w in allowed):
                    return {w}
                callers = {cqn.split(".<locals>")[0] for cqn, cfi in m.functions.items() if not isinstance(cfi.node, ast.Lambda) and cqn != w
                           and any(isinstance(n, ast.Call) and ((isinstance(n.func, ast.Name) and n.func.id == w) or (isinstance(n.func, ast.Attribute) and n.func.attr == w))
                                   for n in walk_no_nested(cfi.node))}
                if not callers:
                    return {w}
                out = set()
                for c in callers:
                    out |= public_roots(c, seen + (w,))
                return out
            roots = set()
            for w in writers:
                roots |= public_roots(w)
            writers = roots
            ok = allowed is not None and writers <= allowed
            if report:
                ctx.check(ok, R, "%s.%s" % (m.name, g), m.where(m.glob(g)) if g in m.globals else m.relpath + ":0", "module state %s" % g,
                          "module-level state %s.%s is written at run time by %s; %s" % (
                              m.name, g, sorted(writers), "it is not in the frozen ownership table (new hidden shared state)" if allowed is None
                              else "only %s may write it" % sorted(allowed)))
            elif not ok:
                ctx.held(R, "fixture:module-state %s" % g, m.relpath + ":0")
        # module state must not keep the caller's own object: what it remembers about an argument (a position, a result)
        # stays true only as long as the caller does not touch that object again
        for qn, fi in m.functions.items():
            if isinstance(fi.node, ast.Lambda):
                continue
            alias = fx.param_aliases(fi, [p_ for p_ in fi.params if p_ not in ("self", "cls")])
            declared = set()
            for n in walk_no_nested(fi.node):
                if isinstance(n, ast.Global):
                    declared |= set(n.names)
            shadow = {n.id for n in walk_no_nested(fi.node) if isinstance(n, ast.Name) and isinstance(n.ctx, ast.Store)} | set(fi.params)

            def kept(e):
                if isinstance(e, ast.Name):
                    return {alias[e.id]} if e.id in alias else set()
                if isinstance(e, (ast.Tuple, ast.List, ast.Set)):
                    return set().union(*[kept(x) for x in e.elts]) if e.elts else set()
                if isinstance(e, ast.Dict):
                    return set().union(*[kept(x) for x in e.values if x is not None]) if e.values else set()
                if isinstance(e, ast.IfExp):
                    return kept(e.body) | kept(e.orelse)
                return set()
            nstore = [0]
            for n in sorted((x for x in walk_no_nested(fi.node) if hasattr(x, "lineno")), key=lambda x: (x.lineno, x.col_offset)):
                g, val = None, None
                if isinstance(n, ast.Assign):
                    for tg in n.targets:
                        if isinstance(tg, ast.Name) and tg.id in declared:
                            g, val = tg.id, n.value
                        elif isinstance(tg, ast.Subscript) and isinstance(tg.value, ast.Name) and tg.value.id in (mutable_globals | declared_global) \
                                and (tg.value.id not in shadow or tg.value.id in declared):
                            g, val = tg.value.id, n.value
                elif isinstance(n, ast.Call) and isinstance(n.func, ast.Attribute) and n.func.attr in ("append", "add", "insert", "extend", "setdefault", "update") \
                        and isinstance(n.func.value, ast.Name) and n.func.value.id in (mutable_globals | declared_global) \
                        and (n.func.value.id not in shadow or n.func.value.id in declared):
                    g, val = n.func.value.id, ast.Tuple(elts=list(n.args), ctx=ast.Load())
                if g is None:
                    continue
                params = kept(val)
                if (m.name, g, qn.split(".<locals>")[0]) in RETAINED_BY_DESIGN:
                    params = set()
                if report:
                    nstore[0] += 1
                    ctx.check(not params, R, "retained[%s.%s<-%s#%d]" % (m.name, g, qn, nstore[0]), fi.where(n), "%s: %s" % (qn, short(ast.unparse(n), 80)),
                              "module-level state %s.%s keeps the caller's own object (parameter %s of %s): when the caller changes that object later, what the module "
                              "remembers about it is no longer true and later calls answer differently; keep a value derived from it (a row, float(x), a copy)" % (
                                  m.name, g, sorted(params), qn))
                elif params:
                    ctx.held(R, "fixture:retained %s" % g, m.relpath + ":0")
        # mutable default arguments
        for qn, fi in m.functions.items():
            if isinstance(fi.node, ast.Lambda):
                continue
            bad = [p for p, d in fi.defaults.items() if fx.is_mutable_display(d)]
            if report:
                if bad:
                    ctx.violated(R, "default-arg %s.%s" % (m.name, qn), fi.where(), "def %s(... %s=<mutable>)" % (qn, bad[0]),
                                 "mutable default argument %r is shared between calls" % bad[0])
            elif bad:
                ctx.held(R, "fixture:mutable-default %s" % qn, fi.where())
    if report:
        ctx.held(R, "mutable-default-arguments", None, scanned=sum(len(m.functions) for m in mods), found=0)
    return count


# ------------------------------------------------------------------------------ R-C15-5
def rule_copies(ctx, repo):
    R = "R-C15-5"
    NC, NOTE = "mingus.containers.note_container", "mingus.containers.note"
    ci = repo.mod(NC).cls("NoteContainer")
    nci = repo.mod(NOTE).cls("Note")
    init = repo.find_method(ci, "__init__")

    def ctor(it, args, kwargs, node):
        return AObj(nci, {"copied_from": args[0] if args else None}, name="copy")
    eq = {NOTE + ".Note.__eq__": lambda it, a, k, n: a[0] is a[1], NOTE + ".Note.__lt__": lambda it, a, k, n: False,
          NOTE + ".Note": ctor}
    for label, mk_arg in (("NoteContainer(other)", None), ("add_notes(other)", "add_notes")):
        def mk():
            src_notes = [stub(repo, NOTE, "Note", name="n%d" % i) for i in range(2)]
            src = AObj(ci, {"notes": src_notes}, name="source")
            return [AObj(ci, {"notes": []} if mk_arg else {}, name="copy"), src]
        fi = init if mk_arg is None else repo.find_method(ci, mk_arg)
        try:
            paths = run_method(repo, fi, mk, summaries=eq)
        except CannotDecide as e:
            raise AnalysisError("%s: %s" % (label, e))
        ok, why = bool(paths), "no outcome"
        for p in paths:
            dst, src = p.interp.args
            shared = [x for x in dst.attrs.get("notes", []) if any(x is y for y in src.attrs["notes"])]
            if p.kind != "return":
                ok, why = False, "%s %r" % (p.kind, p.value)
            elif dst.attrs.get("notes") is src.attrs["notes"]:
                ok, why = False, "the copy shares the source's note list"
            elif shared:
                ok, why = False, ("the copy holds the source's own Note objects (%d shared) and NoteContainer.augment/diminish/transpose mutate "
                                  "notes in place: changing the copy changes the source" % len(shared))
            elif len(dst.attrs.get("notes", [])) != 2:
                ok, why = False, "the copy holds %d notes instead of 2" % len(dst.attrs.get("notes", []))
        ctx.check(ok, R, label, fi.where(), label, why)
    # Note(other): the deprecated dynamics dictionary handed out is fresh
    dyn = None
    for m in nci.methods.values():
        if m.name == "dynamics":
            dyn = m
    if dyn is not None:
        def twice(it):
            o = AObj(nci, {"channel": 1, "velocity": 2}, name="note")
            return it.call_function(dyn, [o], {}), it.call_function(dyn, [o], {})
        paths = explore(lambda ch: Interp(repo, ch), twice)
        ok = len(paths) == 1 and paths[0].kind == "return" and isinstance(paths[0].value[0], dict) and paths[0].value[0] is not paths[0].value[1]
        ctx.check(ok, R, "Note.dynamics", dyn.where(), "Note.dynamics", "the dynamics dictionary handed out must be a fresh object on every access")


def rule_stored_once(ctx, repo):
    """Entry points that hand one argument to several containers (Composition.add_note over the selected tracks,
    Track.from_chords over bar lines): run on the real classes; no Bar, NoteContainer or Note object may end up
    reachable from two tracks / two entries."""
    R = "R-C15-5"
    NC, NOTE, TR, BAR, COMP = ("mingus.containers.note_container", "mingus.containers.note", "mingus.containers.track", "mingus.containers.bar", "mingus.containers.composition")
    nci, noteci, tci, bci, cci = repo.mod(NC).cls("NoteContainer"), repo.mod(NOTE).cls("Note"), repo.mod(TR).cls("Track"), repo.mod(BAR).cls("Bar"), repo.mod(COMP).cls("Composition")
    f = repo.find_method(cci, "add_note")

    def new(it, c, *args):
        return it.call(AClass(c), list(args), {}, None)

    def reach(it, track):
        objs = []
        # (read the way Python would: an attribute the instance does not have comes from the class)
        for b in it.getattr(track, "bars"):
            objs.append(b)
            for e in it.getattr(b, "bar"):
                if isinstance(e[2], AObj):
                    objs.append(e[2])
                    objs.extend(n for n in e[2].attrs.get("notes", []) if isinstance(n, AObj))
        return objs
    for label, mkitem in (("NoteContainer", lambda it: new(it, nci, ["D", "F"])), ("Note", lambda it: new(it, noteci, "E", 4)), ("Bar with a chord", None), ("list of Notes", lambda it: [new(it, noteci, "C", 4), new(it, noteci, "G", 4)])):
        def go(it, mkitem=mkitem):
            c = new(it, cci)
            ts = [new(it, tci) for _ in range(3)]
            for t in ts:
                it.call_method(c, "add_track", [t], {}, None)
            c.attrs["selected_tracks"] = [0, 1, 2]
            if mkitem is None:
                b = new(it, bci, "C", (4, 4))
                it.call_method(b, "place_notes", [["C", "E"], 4], {}, None)
                item = b
            else:
                item = mkitem(it)
            it.call_method(c, "add_note", [item], {}, None)
            return [reach(it, t) for t in ts]
        try:
            ps = explore(lambda ch: Interp(repo, ch, max_depth=60, max_iter=5000), go)
        except CannotDecide as e:
            raise AnalysisError("Composition.add_note(<%s>) to three tracks: %s" % (label, e))
        ok, why = len(ps) == 1 and ps[0].kind == "return", "outcome %s" % [(p.kind, short(repr(p.value), 60)) for p in ps]
        if ok:
            rs = ps[0].value
            if any(not r for r in rs):
                ok, why = False, "a selected track holds nothing after add_note"
            for i in range(3):
                for j in range(i + 1, 3):
                    both = [o for o in rs[i] if any(o is o2 for o2 in rs[j])]
                    if ok and both:
                        ok, why = False, "tracks %d and %d both hold the same %s object: editing one track's music edits the other's" % (i, j, both[0].cls.name if both[0].cls else "object")
        ctx.check(ok, R, "add_note.stored-once[%s]" % label, f.where(), "Composition.add_note(<%s>) with three tracks selected" % label, why)

    # Track.from_chords: a chord that does not fit is cut at the bar line; every piece is an entry of its own -- its
    # container, the list inside it and the Note objects in that list belong to that entry alone
    ffc = repo.find_method(tci, "from_chords")
    for label, pre, chords, dur in (("a breve over two bars", [], [["C", "E", "G"]], 0.5), ("a whole note after a quarter", [("A", 4)], [["D", "F#"]], 1),
                                    ("a longa, then a rest, then a chord", [], [["C", "G"], None, ["E", "B"]], 0.25)):
        def go2(it, pre=pre, chords=chords, dur=dur):
            t = new(it, tci)
            for n_, v_ in pre:
                it.call_method(t, "add_notes", [n_, v_], {}, None)
            it.call_method(t, "from_chords", [[list(c) if isinstance(c, list) else c for c in chords], dur], {}, None)
            entries = []
            for b in it.getattr(t, "bars"):
                for e in it.getattr(b, "bar"):
                    if isinstance(e[2], AObj):
                        lst = e[2].attrs.get("notes", [])
                        entries.append((e[2], lst, [n for n in lst if isinstance(n, AObj)]))
            return entries
        try:
            ps = explore(lambda ch: Interp(repo, ch, max_depth=60, max_iter=5000), go2)
        except CannotDecide as e:
            raise AnalysisError("Track.from_chords(<%s>): %s" % (label, e))
        ok, why = len(ps) == 1 and ps[0].kind == "return", "outcome %s" % [(p.kind, short(repr(p.value), 60)) for p in ps]
        if ok:
            es = ps[0].value
            if len(es) < 2:
                ok, why = False, "only %d sounding entries: the chord was not cut at a bar line" % len(es)
            for i in range(len(es)):
                for j in range(i + 1, len(es)):
                    if not ok:
                        break
                    if es[i][0] is es[j][0]:
                        ok, why = False, "entries %d and %d are the same NoteContainer object" % (i, j)
                    elif es[i][1] is es[j][1]:
                        ok, why = False, "entries %d and %d are two containers around the same list of notes: adding a note to one piece adds it to the other" % (i, j)
                    elif any(a is b for a in es[i][2] for b in es[j][2]):
                        ok, why = False, "entries %d and %d hold the same Note object: transposing the track moves that note twice" % (i, j)
        ctx.check(ok, R, "from_chords.pieces[%s]" % label, ffc.where(), "Track.from_chords(<%s>)" % label, why)

    # Track.has_room asks a question: the probe it places its trial entry in is no part of the track
    fhr = repo.find_method(tci, "has_room")
    if fhr is not None:
        def go3(it):
            t = new(it, tci)
            it.call_method(t, "add_notes", ["C", 4], {}, None)
            it.call_method(t, "add_notes", [None, 8], {}, None)
            bars = it.getattr(t, "bars")
            if not bars:
                return None
            rows = it.getattr(bars[0], "bar")
            before = (list(bars), [list(r) for r in rows], it.getattr(bars[0], "current_beat"))
            answers = [it.call_method(t, "has_room", [v], {}, None) for v in (4, 2, 4, 1, 8)]
            bars2 = it.getattr(t, "bars")
            rows2 = it.getattr(bars2[0], "bar")
            return before, (list(bars2), [list(r) for r in rows2], it.getattr(bars2[0], "current_beat")), answers, rows is rows2
        try:
            ps = explore(lambda ch: Interp(repo, ch, max_depth=60), go3)
        except CannotDecide as e:
            raise AnalysisError("Track.has_room on a track with an unfinished bar: %s" % e)
        ok, why = len(ps) == 1 and ps[0].kind == "return", "outcome %s" % [(p.kind, short(repr(p.value), 80)) for p in ps]
        if ok and ps[0].value is None:
            ok, why = False, "the track holds no bar after two entries were added to it"
        if ok:
            before, after, answers, same_list = ps[0].value
            if len(before[0]) != len(after[0]) or any(a is not b for a, b in zip(before[0], after[0])) or len(before[1]) != len(after[1]) \
                    or any(len(x) != len(y) or any(p_ is not q_ and p_ != q_ for p_, q_ in zip(x, y)) for x, y in zip(before[1], after[1])) or before[2] != after[2]:
                ok, why = False, "five questions later the bar holds %d entries (before: %d), current beat %r (before: %r): the trial entries went into the track" % (
                    len(after[1]), len(before[1]), after[2], before[2])
            elif answers != [True, True, True, False, True]:
                ok, why = False, "has_room(4), (2), (4), (1), (8) on a 4/4 bar holding 3/8 answer %s, expected [True, True, True, False, True]" % (answers,)
        ctx.check(ok, R, "has_room.leaves-the-track", fhr.where(), "Track.has_room(v) five times on a track whose bar holds a quarter and an eighth rest", why)


# ------------------------------------------------------------------------------ R-C15-6
def _acc_split(st):
    """The remembered state as (row, frequency or None); (None, None) when it is neither a row nor a (row, frequency) pair."""
    from ..engine.orddom import OrdVal
    if isinstance(st, tuple) and len(st) == 2 and isinstance(st[1], OrdVal) and Lin.of(st[0]) is not None:
        return Lin.of(st[0]), st[1]
    if not isinstance(st, (tuple, str, bool)) and st is not None and Lin.of(st) is not None:
        return Lin.of(st), None
    return None, None


def _acc_shape(states):
    for st in states:
        if st is None:
            continue
        row, val = _acc_split(st)
        if row is not None:
            return "pair" if val is not None else "row"
    return None


def _acc_warm(it, T, shape):
    """Any state the lookup can have left behind: a row 0..127, with a frequency that lies in that row when it keeps one."""
    from ..engine.orddom import OrdVal, TabVal, assume
    lastn = Lin.of(Sym("lastn", 0, 127))
    if shape == "row":
        return lastn
    lastval = OrdVal("lastval")
    assume(it, TabVal(T, lastn - 1), ast.Lt, lastval)
    assume(it, lastval, ast.LtE, TabVal(T, lastn))
    return (lastn, lastval)


def _acc_loop_states(repo, mod, inner, T, FFT):
    """States one iteration of the search writes from the cold state (the cold run before the loop may write none)."""
    from ..engine.orddom import OrdVal, consistent
    out = []

    def go(it):
        it.global_cache[(FFT, "_log_cache")] = T
        it.global_cache[(FFT, "_last_asked")] = None
        b, e = Sym("begin", 0, 127), Sym("end", 1, 128)
        it._refine(Lin.of(e) - Lin.of(b), lo=1)
        try:
            it.call_function(inner, [OrdVal("f"), Lin.of(b), Lin.of(e)], {})
        except RaiseEx:
            pass
        return it.global_cache[(FFT, "_last_asked")]
    try:
        for p in explore(lambda ch: Interp(repo, ch, max_iter=8), go):
            if consistent(p.interp):
                out.append(p.value)
    except CannotDecide:
        pass
    return out


def rule_accelerator(ctx, repo):
    """fft._find_log_index keeps the position of the last lookup.  The table and the frequencies are only ever compared,
    so the function is evaluated in the order domain (engine/orddom.py): the table is a strictly increasing sequence of
    unknowns, f and the remembered frequency are unknowns, every undetermined comparison splits the path.

    Invariant I(state): state is None, or (n, v) with T[n-1] < v <= T[n]  ("v lies in row n").
    Obligations, for every state satisfying I and every f:
      * a path that answers n before the search loop entails T[n-1] < f <= T[n] -- the answer a cold lookup gives;
      * the out-of-range answer 128 entails f > T[127] or f <= 0;
      * a path that enters the search loop does so with begin = 0, or with T[begin] < f (a start the cold search passes through);
      * every write of the state re-establishes I (so the next lookup starts from a true statement);
      * an answer given inside the loop entails T[n-1] < f <= T[n] and leaves I established.
    The loop's own termination argument and the statements after it are not decided."""
    from ..engine.orddom import OrdVal, MonoTable, TabVal, assume, entails, consistent
    from ..engine.loader import FuncInfo
    import copy as _copy
    R = "R-C15-6"
    FFT = "mingus.extra.fft"
    mod = repo.mod(FFT)
    fi = mod.func("_find_log_index")
    mod.glob("_last_asked"), mod.glob("_log_cache")
    ctx.touch(fi)
    body = fi.body
    loops = [i for i, st in enumerate(body) if isinstance(st, (ast.While, ast.For))]
    if len(loops) == 0:
        # no search loop of its own: the search is left to bisect (modelled in the order domain); the function is
        # evaluated as a whole, cold and warm, and every answer and every remembered state is judged
        return _accelerator_whole(ctx, repo, mod, fi, R)
    if len(loops) != 1:
        raise AnalysisError("fft._find_log_index: expected one search loop, found %d" % len(loops))
    loop = body[loops[0]]
    param = fi.params[0]

    def sliced(name, stmts, params, tail):
        ret = ast.Return(value=ast.Tuple(elts=[ast.Constant(value=tail)] + [ast.Name(id=n, ctx=ast.Load()) for n in ("begin", "end")], ctx=ast.Load()))
        node = ast.FunctionDef(name=name, args=ast.arguments(posonlyargs=[], args=[ast.arg(arg=a) for a in params], kwonlyargs=[], kw_defaults=[], defaults=[]),
                               body=[st for st in body[:1] if isinstance(st, ast.Global)] + list(stmts) + [ret], decorator_list=[], type_params=[])
        ast.copy_location(node, fi.node)
        ast.fix_missing_locations(node)
        return FuncInfo(mod, fi.qualname + "." + name, node)
    glob = [st for st in body if isinstance(st, ast.Global)]
    pre = sliced("<before the loop>", [st for st in body[:loops[0]] if not isinstance(st, ast.Global)], [param], "SLOW")
    pre.node.body = glob + pre.node.body
    inner = sliced("<loop body>", loop.body, [param, "begin", "end"], "CONTINUE")
    inner.node.body = glob + inner.node.body

    def in_row(it, n, v):
        n = Lin.of(n)
        if n is None:
            return "row %r is not an integer" % (n,)
        a = entails(it, TabVal(T, n - 1), ast.Lt, v)
        b = entails(it, v, ast.LtE, TabVal(T, n))
        if a is True and b is True:
            return None
        return "%s[%s] < %s is %s, %s <= %s[%s] is %s" % (T.name, it.resolve(n - 1), v, {True: "entailed", False: "refuted", None: "not entailed"}[a],
                                                         v, T.name, it.resolve(n), {True: "entailed", False: "refuted", None: "not entailed"}[b])

    def state_ok(it, st, old):
        if st is old:
            return None
        if st is None:
            return None
        row, val = _acc_split(st)
        if row is None:
            return "the remembered state becomes %r" % (st,)
        rlo, rhi = it.lin_interval(it.resolve(row))
        # the table is strictly increasing: T[row - 1] < T[127] on this path means row - 1 < 127
        if rhi > 127 and rhi <= 128 and entails(it, TabVal(T, row - 1), ast.Lt, TabVal(T, 127)) is True:
            rhi = 127
        if rlo < 0 or rhi > 127:
            return ("the remembered row may be %s..%s, outside the rows 0..127 a lookup can answer: the next lookup reads the table at row + 1 "
                    "(IndexError beyond row 127) -- the range check comes after the shortcut" % (rlo, rhi))
        if val is None:
            return None  # only a row is remembered: any row 0..127 is a true statement about the table
        w = in_row(it, row, val)
        return None if w is None else "the remembered pair (%s, %s) does not satisfy 'the frequency lies in that row': %s" % (it.resolve(row), val, w)

    T = MonoTable("T", 129)
    results = {}
    shape = ["pair"]  # what the function remembers: (row, frequency) or the row alone -- read off what the cold call leaves behind
    for label in ("cold", "warm"):
        def go(it, label=label):
            f = OrdVal("f")
            it.global_cache[(FFT, "_log_cache")] = T
            if label == "cold":
                old = None
            else:
                old = _acc_warm(it, T, shape[0])
            it.global_cache[(FFT, "_last_asked")] = old
            try:
                r = ("return", it.call_function(pre, [f], {}))
            except RaiseEx as e:
                r = ("raise", e.exc)
            return r, f, old, it.global_cache[(FFT, "_last_asked")]
        try:
            paths = explore(lambda ch: Interp(repo, ch, max_iter=8), go)
        except CannotDecide as e:
            raise AnalysisError("fft._find_log_index (%s, before the loop): %s" % (label, e))
        ok, why, n_fast, n_slow = bool(paths), "no outcome", 0, 0
        for p in paths:
            it = p.interp
            if not consistent(it):
                continue  # contradictory comparison outcomes: no input takes this path
            (kind, val), f, old, st = p.value
            if kind == "raise":
                ok, why = False, "raises %s on a path with %s" % (val, it.__dict__.get("ord_assumed", [])[-3:])
                break
            w = state_ok(it, st, old)
            if w:
                ok, why = False, w
                break
            if isinstance(val, tuple) and val and val[0] == "SLOW":
                n_slow += 1
                begin, end = val[1], val[2]
                lo, hi = it.lin_interval(it.resolve(Lin.of(begin)))
                if not (Lin.of(end) is not None and Lin.of(end).is_const() and Lin.of(end).const == 128):
                    ok, why = False, "the search starts with end = %s" % (end,)
                elif not (lo == hi == 0) and entails(it, TabVal(T, Lin.of(begin)), ast.Lt, f) is not True:
                    ok, why = False, "the search starts at begin = %s although %s[begin] < f is not known" % (it.resolve(Lin.of(begin)), T.name)
                elif entails(it, f, ast.LtE, TabVal(T, 127)) is not True or entails(it, f, ast.Gt, 0) is not True:
                    ok, why = False, "the search is entered without the range check 0 < f <= %s[127]" % T.name
            else:
                n_fast += 1
                li = Lin.of(val) if not isinstance(val, (str, tuple, bool)) and val is not None else None
                if li is None:
                    ok, why = False, "answers %r" % (val,)
                elif li.is_const() and li.const == 128:
                    if entails(it, f, ast.Gt, TabVal(T, 127)) is not True and entails(it, f, ast.LtE, 0) is not True:
                        ok, why = False, "answers 128 (out of range) without f > %s[127] or f <= 0" % T.name
                else:
                    w = in_row(it, li, f)
                    if w:
                        ok, why = False, ("answers %s from the remembered position although f need not lie in that row (%s): a cold lookup "
                                          "would answer differently" % (it.resolve(li), w))
            if not ok:
                break
        if ok and label == "warm" and n_fast < 2:
            ok, why = False, "the remembered position is never used (%d shortcut answers)" % n_fast
        results[label] = (n_fast, n_slow)
        if label == "cold":
            shape[0] = _acc_shape([p.value[3] for p in paths if consistent(p.interp)] + _acc_loop_states(repo, mod, inner, T, FFT)) or shape[0]
        ctx.check(ok, R, "_find_log_index.before-loop[%s]" % label, fi.where(), "fft._find_log_index, %s state" % label, why,
                  paths=len(paths), shortcut_answers=n_fast, searches=n_slow)

    def go2(it):
        f = OrdVal("f")
        it.global_cache[(FFT, "_log_cache")] = T
        old = _acc_warm(it, T, shape[0])
        it.global_cache[(FFT, "_last_asked")] = old
        b, e = Sym("begin", 0, 127), Sym("end", 1, 128)
        it._refine(Lin.of(e) - Lin.of(b), lo=1)
        try:
            r = ("return", it.call_function(inner, [f, Lin.of(b), Lin.of(e)], {}))
        except RaiseEx as ex:
            r = ("raise", ex.exc)
        return r, f, old, it.global_cache[(FFT, "_last_asked")]
    try:
        paths = explore(lambda ch: Interp(repo, ch, max_iter=8), go2)
    except CannotDecide as e:
        raise AnalysisError("fft._find_log_index (loop body): %s" % e)
    ok, why, answers = bool(paths), "no outcome", 0
    for p in paths:
        it = p.interp
        if not consistent(it):
            continue
        (kind, val), f, old, st = p.value
        if kind == "raise":
            ok, why = False, "raises %s" % val
            break
        w = state_ok(it, st, old)
        if w:
            ok, why = False, w
            break
        if not (isinstance(val, tuple) and val and val[0] == "CONTINUE"):
            answers += 1
            li = Lin.of(val) if not isinstance(val, (str, tuple, bool)) and val is not None else None
            w = "answers %r" % (val,) if li is None else in_row(it, li, f)
            if w:
                ok, why = False, "an answer given inside the search loop is not the row f lies in: %s" % w
                break
    if ok and answers < 1:
        ok, why = False, "the loop body never answers"
    ctx.check(ok, R, "_find_log_index.loop-body", fi.where(loop), "fft._find_log_index, one iteration of the search", why, paths=len(paths), answers=answers)


def _accelerator_whole(ctx, repo, mod, fi, R):
    from ..engine.orddom import OrdVal, MonoTable, TabVal, assume, entails, consistent
    FFT = "mingus.extra.fft"
    T = MonoTable("T", 129)

    def in_row(it, n, v):
        n = Lin.of(n)
        a = entails(it, TabVal(T, n - 1), ast.Lt, v)
        b = entails(it, v, ast.LtE, TabVal(T, n))
        if a is True and b is True:
            return None
        return "%s[%s] < %s is %s, %s <= %s[%s] is %s" % (T.name, it.resolve(n - 1), v, {True: "entailed", False: "refuted", None: "not entailed"}[a],
                                                         v, T.name, it.resolve(n), {True: "entailed", False: "refuted", None: "not entailed"}[b])

    def mk(ch):
        it = Interp(repo, ch, max_iter=8)
        orig = it.call_builtin
        n_calls = [0]

        def cb(name, args, kwargs, node=None):
            if name in ("bisect_left", "ext:bisect.bisect_left", "ext:bisect.bisect") and len(args) >= 2 and args[0] is T:
                # bisect_left(T, x, lo, hi): the first index in lo..hi whose entry is not below x
                x = args[1]
                lo = Lin.of(args[2]) if len(args) > 2 else Lin.of(0)
                hi = Lin.of(args[3]) if len(args) > 3 else Lin.of(T.size)
                n_calls[0] += 1
                llo, _ = it.lin_interval(lo)
                _, hhi = it.lin_interval(hi)
                idx = Lin.of(Sym("found%d" % n_calls[0], llo, hhi))
                it._refine(idx - lo, lo=0)
                it._refine(hi - idx, lo=0)
                # (at either end the index is written as that end itself, so that facts about T[lo - 1] / T[hi] apply to it)
                if not it.compare_lin(ast.Gt, idx, lo):
                    idx = lo
                elif not it.compare_lin(ast.Lt, idx, hi):
                    idx = hi
                if idx is not lo:
                    assume(it, TabVal(T, idx - 1), ast.Lt, x)
                if idx is not hi:
                    assume(it, x, ast.LtE, TabVal(T, idx))
                return idx
            return orig(name, args, kwargs, node)
        it.call_builtin = cb
        return it
    shape = ["pair"]
    for label in ("cold", "warm"):
        def go(it, label=label):
            f = OrdVal("f")
            it.global_cache[(FFT, "_log_cache")] = T
            if label == "cold":
                old = None
            else:
                old = _acc_warm(it, T, shape[0])
            it.global_cache[(FFT, "_last_asked")] = old
            try:
                r = ("return", it.call_function(fi, [f], {}))
            except RaiseEx as e:
                r = ("raise", e.exc)
            return r, f, old, it.global_cache[(FFT, "_last_asked")]
        try:
            paths = explore(mk, go)
        except CannotDecide as e:
            raise AnalysisError("fft._find_log_index (%s, as a whole): %s" % (label, e))
        ok, why, n_ans = bool(paths), "no outcome", 0
        for p in paths:
            it = p.interp
            if not consistent(it):
                continue
            (kind, val), f, old, st = p.value
            if kind == "raise":
                ok, why = False, "raises %s" % val
                break
            li = Lin.of(val) if not isinstance(val, (str, tuple, bool)) and val is not None else None
            if li is None:
                ok, why = False, "answers %r" % (val,)
                break
            n_ans += 1
            if li.is_const() and li.const == 128:
                if entails(it, f, ast.Gt, TabVal(T, 127)) is not True and entails(it, f, ast.LtE, 0) is not True:
                    ok, why = False, "answers 128 (out of range) without f > %s[127] or f <= 0" % T.name
                    break
            else:
                w = in_row(it, li, f)
                if w:
                    ok, why = False, "answers %s although f need not lie in that row (%s): a cold lookup would answer differently" % (it.resolve(li), w)
                    break
            if st is not old and st is not None:
                row, sval = _acc_split(st)
                if row is None:
                    ok, why = False, "the remembered state becomes %r" % (st,)
                    break
                rlo, rhi = it.lin_interval(it.resolve(row))
                if rhi > 127 and rhi <= 128 and entails(it, TabVal(T, row - 1), ast.Lt, TabVal(T, 127)) is True:
                    rhi = 127
                w = in_row(it, row, sval) if sval is not None else None
                if rlo < 0 or rhi > 127 or w:
                    ok, why = False, "the remembered state (%s, %s) is not 'a row 0..127 (and a frequency that lies in it)': %s" % (it.resolve(row), sval, w or "row %s..%s" % (rlo, rhi))
                    break
        if label == "cold":
            shape[0] = _acc_shape([p.value[3] for p in paths if consistent(p.interp)]) or shape[0]
        ctx.check(ok, R, "_find_log_index.whole[%s]" % label, fi.where(), "fft._find_log_index, %s state, evaluated as a whole" % label, why, paths=len(paths), answers=n_ans)
    # (keeps the instance count of the sliced mode: three obligations)
    ctx.held(R, "_find_log_index.search-by-bisect", fi.where(), note="the search itself is bisect's")


# ------------------------------------------------------------------------------ fixtures
def rule_fixtures(ctx):
    """Zero-count rules must fire on the positive fixtures on every run."""
    R = "R-C15-F"
    froot = os.path.join(VERIF, "fixtures")
    try:
        frepo = Repo(froot, package="fixpkg")
    except AnalysisError as e:
        raise AnalysisError("positive fixtures missing: %s" % e)
    mods = list(frepo.modules.values())

    class Probe:
        def __init__(self):
            self.hits = []

        def held(self, rule, instance, where=None, **facts):
            self.hits.append(instance)

        def note(self, *a, **k):
            pass
    pr = Probe()
    rule_class_defaults(pr, frepo, mods, "F", report=False)
    rule_param_mutation(pr, frepo, mods, "F", report=False, exceptions={})
    rule_module_state(pr, frepo, mods, "F", report=False, owners={})
    want = ["fixture:class-default Shared.things", "fixture:param-mutation mutates_argument", "fixture:param-mutation mutates_alias",
            "fixture:module-state _seen", "fixture:module-state _registry", "fixture:mutable-default mutable_default", "fixture:retained _seen"]
    for w in want:
        if w not in pr.hits:
            raise AnalysisError("zero-count rule lost its positive fixture: %s not reported (the rule would pass vacuously)" % w)
        ctx.held(R, w, "fixtures/fixpkg/bad.py")
    if "fixture:param-mutation copies_first" in pr.hits:
        raise AnalysisError("parameter-mutation rule fires on a function that copies its argument first (false alarm)")
    ctx.held(R, "silent on copies_first", "fixtures/fixpkg/bad.py")
    if "fixture:retained _registry" in pr.hits:
        raise AnalysisError("retained-argument rule fires on a table that only uses the argument as its key (false alarm)")
    ctx.held(R, "silent on a key", "fixtures/fixpkg/bad.py")
