"""C08 -- diatonic harmony (chords.py function/numeral accessors, progressions.py)."""
from __future__ import annotations

import ast
import re

from ..engine.absval import Lin, Sym, Ch, Run, AbsStr, Rep, Sel, Opaque, INF
from ..engine.absint import CannotDecide, Interp, explore, RaiseEx, AFunc
from ..engine.loader import AnalysisError, short, FuncRef
from ..engine import notesdom as nd
from ..engine.notesdom import paths_of, NAT, LETTERS, formula
from .c06 import ORACLE, tables, _builder_fi, C
from .c07 import recognition_model

PROP = "C08"
EXPLANATION = (
    "Static rules over diatonic harmony: triads()/sevenths() and every function-name / numeral accessor of chords.py "
    "are specialised to each of the 30 rows of the constant key table and compared with stacks of thirds inside the "
    "oracle key notes; progressions.parse_string / tuple_to_string are evaluated on symbolic accidental prefixes "
    "(fold and count-down summaries give closed forms: acc = #sharps - #flats, |acc| prefix characters); to_chords "
    "is specialised over keys x numerals (both cases) x {'', '7'} x prefixes -3..3 and over chord suffixes; "
    "progressions.determine is evaluated on every diatonic triad and seventh of the major keys; the substitution "
    "rules are evaluated on numeral x prefix x suffix and their answers parsed and compared with what each rule "
    "promises; substitute() is checked to leave its argument list unchanged.")
TRUSTED = ["CPython ast module", "mingus_static abstract evaluator", "C04 key oracle, C06 chord oracle, C07 recognition model"]
NOT_DECIDED = "substitution recursion beyond depth 2; prefixes beyond +-6 (the formatter's folding of larger counts is reported as NOTE only)"

P = "mingus.core.progressions"
FUNCS = ["tonic", "supertonic", "mediant", "subdominant", "dominant", "submediant", "subtonic"]
NUMERALS = ["I", "II", "III", "IV", "V", "VI", "VII"]


def harmony_model(repo):
    return recognition_model(repo)


def expected_stack(key, deg, seventh):
    notes, _ = nd.oracle_key_notes(key)
    idx = [0, 2, 4] + ([6] if seventh else [])
    return [notes[(deg + i) % 7] for i in idx]


def eval_calls(ctx, calls, model):
    """calls: list of (label, FuncInfo, args).  One interpreter, in order (memo tables persist like at run time)."""
    out = {}

    def run(it):
        for label, fi, args in calls:
            try:
                out[label] = ("return", it.call_function(fi, list(args), {}))
            except RaiseEx as r:
                out[label] = ("raise", r.exc)
        return None
    paths = explore(lambda ch: Interp(ctx.repo, ch, summaries=model), run)
    if len(paths) != 1:
        raise AnalysisError("evaluation of %s forked into %d paths" % ([c[0] for c in calls][:3], len(paths)))
    return out


def run(ctx):
    cmod = ctx.repo.mod(C)
    pmod = ctx.repo.mod(P)
    ctx.touch(cmod, pmod)
    model = harmony_model(ctx.repo)
    table = nd.oracle_key_table()
    all_keys = [ma for ma, mi in table] + [mi for ma, mi in table]
    rule_accessors(ctx, cmod, model, all_keys)
    rule_parse_format(ctx, pmod, model)
    rule_to_chords(ctx, cmod, pmod, model, all_keys, table)
    rule_determine(ctx, cmod, pmod, model, table)
    rule_substitutions(ctx, pmod, model)
    rule_substitute_shares(ctx, pmod, cmod)
    rule_argument_untouched(ctx, pmod, model)
    ctx.floor("R-C08-1", 30 * 16)
    ctx.floor("R-C08-3", 40)
    ctx.floor("R-C08-T", 25)
    ctx.floor("R-C08-4", 20)
    ctx.floor("R-C08-5", 30)
    ctx.floor("R-C08-6", 1)


def rule_accessors(ctx, cmod, model, all_keys):
    R = "R-C08-1"
    names = []
    for d, f in enumerate(FUNCS):
        names += [(f, d, False), (f + "7", d, True)]
    for d, n in enumerate(NUMERALS):
        for variant in {n, n.lower()}:
            names += [(variant, d, False), (variant + "7", d, True)]
    have = [(n, d, s) for n, d, s in names if n in cmod.functions]
    required = {f for f in FUNCS} | {f + "7" for f in FUNCS} | set(NUMERALS) | {n + "7" for n in NUMERALS}
    missing = sorted(required - set(cmod.functions))
    ctx.check(not missing, R, "accessors-exist", cmod.relpath + ":0", "chords.<function/numeral accessors>",
              "to_chords dispatches on these names through chords.__dict__, they do not exist: %s" % missing)
    for n, d, s in have:
        ctx.touch(cmod.func(n))
    tri, sev = cmod.func("triads"), cmod.func("sevenths")
    ctx.touch(tri, sev, cmod.func("triad"), cmod.func("seventh"))
    for key in all_keys:
        calls = [("triads", tri, [key]), ("sevenths", sev, [key])] + [(n, cmod.func(n), [key]) for n, d, s in have]
        try:
            out = eval_calls(ctx, calls, model)
        except CannotDecide as e:
            raise AnalysisError("chord accessors in key %r: %s" % (key, e))
        for label, seventh in (("triads", False), ("sevenths", True)):
            want = [expected_stack(key, d, seventh) for d in range(7)]
            ctx.check(out[label] == ("return", want), R, "%s[%s]" % (label, key), (tri if not seventh else sev).where(),
                      "%s(%r)" % (label, key), "not the stacks of thirds inside the key: %s" % short(repr(out[label]), 300))
        for n, d, s in have:
            want = expected_stack(key, d, s)
            ctx.check(out[n] == ("return", want), R, "%s[%s]" % (n, key), cmod.func(n).where(), "%s(%r)" % (n, key),
                      "%s(%r) gives %s, the %s on degree %d of the key is %s" % (
                          n, key, short(repr(out[n]), 120), "seventh chord" if s else "triad", d + 1, want))


    # history independence of the memo tables: all keys through ONE interpreter, in two orders
    # (relative keys share their notes but not their chords: an entry filed under the wrong index leaks)
    for oname, order in (("majors-first", list(all_keys)), ("minors-first", list(reversed(all_keys)))):
        calls = []
        for key in order:
            calls += [("triads@" + key, tri, [key]), ("sevenths@" + key, sev, [key])]
        try:
            out = eval_calls(ctx, calls, model)
        except CannotDecide as e:
            raise AnalysisError("chord tables over all keys (%s): %s" % (oname, e))
        for key in order:
            for label, seventh, f in (("triads", False, tri), ("sevenths", True, sev)):
                want = [expected_stack(key, d, seventh) for d in range(7)]
                got = out["%s@%s" % (label, key)]
                ctx.check(got == ("return", want), R, "%s[%s|after %s]" % (label, key, oname), f.where(),
                          "%s(%r) after the other keys were asked (%s)" % (label, key, oname),
                          "answer depends on earlier requests: %s instead of %s" % (short(repr(got), 200), short(repr(want), 120)))

    # the caller owns what it was handed: editing an answer (the list and every chord in it) and asking
    # again gives the chords of the key, through the table functions and the accessors that read them
    readers = [(n, d, s) for n, d, s in have if n in ("tonic", "tonic7", "I", "I7", "dominant7", "V7", "subtonic", "vii7")]
    for key in (all_keys[0], all_keys[len(all_keys) // 2], all_keys[-1]):
        out = {}

        def history(it):
            for label, f in (("triads", tri), ("sevenths", sev)):
                try:
                    first = it.call_function(f, [key], {})
                    if isinstance(first, list):
                        for chord in first:
                            if isinstance(chord, list):
                                chord.reverse()
                                chord.append("X")
                        del first[1:]
                    out[label] = ("return", it.call_function(f, [key], {}))
                    for n, d, s in readers:
                        out[label + ">" + n] = ("return", it.call_function(cmod.func(n), [key], {}))
                except RaiseEx as r:
                    out[label] = ("raise", r.exc)
            return None
        try:
            paths = explore(lambda ch: Interp(ctx.repo, ch, summaries=model), history)
        except CannotDecide as e:
            raise AnalysisError("chord tables after an edited answer in key %r: %s" % (key, e))
        if len(paths) != 1:
            raise AnalysisError("chord tables after an edited answer in key %r forked into %d paths" % (key, len(paths)))
        for label, seventh, f in (("triads", False, tri), ("sevenths", True, sev)):
            want = [expected_stack(key, d, seventh) for d in range(7)]
            ctx.check(out.get(label) == ("return", want), R, "%s[%s|after its answer was edited]" % (label, key), f.where(),
                      "%s(%r), the chords of the first answer reversed and extended by the caller, then asked again" % (label, key),
                      "the caller's edit reached the table: %s instead of %s" % (short(repr(out.get(label)), 200), short(repr(want), 120)))
            for n, d, s in readers:
                got = out.get(label + ">" + n)
                if got is None:
                    continue
                want1 = expected_stack(key, d, s)
                ctx.check(got == ("return", want1), R, "%s[%s|after %s answer was edited]" % (n, key, label), cmod.func(n).where(),
                          "%s(%r) after the caller edited the chords %s(%r) handed out" % (n, key, label, key),
                          "the caller's edit reached the table: %s instead of %s" % (short(repr(got), 160), want1))


# ------------------------------------------------------------------------------ parser / formatter
def rule_parse_format(ctx, pmod, model):
    R = "R-C08-3"
    fp, ft = pmod.func("parse_string"), pmod.func("tuple_to_string")
    ctx.touch(fp, ft)
    # parse: mixed prefix run + numeral in either case + suffix
    for num in ("I", "ii", "III", "iv", "V", "vI", "VII"):
        for suffix in ("", "7", "m7", "dim7", "M"):
            run = nd.acc_run("P")
            try:
                paths = paths_of(ctx.repo, fp, [AbsStr([run, num, suffix])], summaries=model)
            except CannotDecide as e:
                raise AnalysisError("parse_string(<acc>%s%s): %s" % (num, suffix, e))
            ok, why = bool(paths), "no outcome"
            for p in paths:
                v = p.value
                if p.kind != "return" or not isinstance(v, tuple) or len(v) != 3:
                    ok, why = False, "%s %r" % (p.kind, v)
                    break
                if v[0] != num.upper() or not nd.same(p.interp, Lin.of(v[1]) if not isinstance(v[1], str) else Lin.of(99), nd.run_net(run)) or v[2] != suffix:
                    ok, why = False, "parses to %r, expected (%r, #sharps - #flats, %r)" % (v, num.upper(), suffix)
                    break
            ctx.check(ok, R, "parse[%s%s]" % (num, suffix), fp.where(), "parse_string(<accidentals>%s%s)" % (num, suffix), why)
    # format: |acc| prefix characters of the right kind, for -6..6
    a = Sym("acc", -6, 6)
    paths = paths_of(ctx.repo, ft, [("IV", Lin.of(a), "m7")], summaries=model)
    ok, why = bool(paths), "no outcome"
    for p in paths:
        lo, hi = p.interp.lin_interval(Lin.of(a))
        v = p.value if not isinstance(p.value, str) else AbsStr([p.value])
        if p.kind != "return" or not isinstance(v, AbsStr):
            ok, why = False, "%s %r" % (p.kind, p.value)
            break
        atoms = p.interp.norm_str(v).atoms
        tail = atoms[-1] if atoms and isinstance(atoms[-1], str) else ""
        pre = atoms[:-1]
        net = Lin({}, 0)
        good = tail.endswith("IVm7")
        extra = tail[:-4] if good else ""
        for x in pre:
            if isinstance(x, Rep) and set(x.lit) <= {"#"}:
                net = net + x.count.scale(len(x.lit))
            elif isinstance(x, Rep) and set(x.lit) <= {"b"}:
                net = net - x.count.scale(len(x.lit))
            else:
                good = False
        net = net + extra.count("#") - extra.count("b")
        if not good or set(extra) - set("#b") or not nd.same(p.interp, net, Lin.of(a)):
            ok, why = False, "for acc in %s..%s the text is %r, expected |acc| times '#' or 'b' before 'IVm7'" % (lo, hi, v)
            break
        n_chars = sum((x.count.scale(len(x.lit)) for x in pre if isinstance(x, Rep)), Lin({}, len(extra)))
        want_n = Lin.of(a) if lo >= 0 else -Lin.of(a)
        if not nd.same(p.interp, n_chars, want_n):
            ok, why = False, "prefix has %s characters for acc = %s" % (n_chars, a)
            break
    ctx.check(ok, R, "format[-6..6]", ft.where(), "tuple_to_string((roman, acc, suffix))", why)
    # round trip on well-formed numerals: homogeneous prefix of k <= 6 accidentals
    for sign in "#b":
        for num in NUMERALS:
            k = Sym("k", 0, 6)
            s = AbsStr([Rep(sign, Lin.of(k)), num, "7"])

            def both(it):
                t = it.call_function(fp, [s], {})
                return it.call_function(ft, [t], {})
            paths = explore(lambda ch: Interp(ctx.repo, ch, summaries=model), both)
            ok, why = bool(paths), "no outcome"
            for p in paths:
                v = p.value if not isinstance(p.value, str) else AbsStr([p.value])
                if p.kind != "return" or not isinstance(v, AbsStr):
                    ok, why = False, "%s %r" % (p.kind, p.value)
                    break
                atoms = [x for x in p.interp.norm_str(v).atoms]
                lit = "".join(x for x in atoms if isinstance(x, str))
                reps = [x for x in atoms if isinstance(x, Rep)]
                cnt = sum((x.count.scale(len(x.lit)) for x in reps), Lin({}, 0)) + lit.count(sign)
                if lit.replace(sign, "") != num + "7" or any(set(x.lit) - {sign} for x in reps) \
                        or not nd.same(p.interp, cnt, Lin.of(k)):
                    ok, why = False, "%r comes back as %r" % (s, v)
                    break
            ctx.check(ok, R, "roundtrip[%s*k %s7]" % (sign, num), ft.where(), "tuple_to_string(parse_string(%s*k + %s7))" % (sign, num), why)
    # folding of larger counts is outside the property's range
    ctx.note(R, "tuple_to_string folds |acc| > 6 with 'acc % 6', which is not a 12-congruence (outside the property's -3..+3 range)")


def _note_lp(n):
    return (n[0], nd.pitch_of_concrete(n)) if isinstance(n, str) else None


def rule_to_chords(ctx, cmod, pmod, model, all_keys, table):
    R = "R-C08-T"
    fi = pmod.func("to_chords")
    ctx.touch(fi)
    quick_keys = all_keys if ctx.tier == "thorough" else ["C", "F#", "Cb", "Bb", "a", "eb", "g#"]
    for key in quick_keys:
        progs = []
        for d, n in enumerate(NUMERALS):
            for num in (n, n.lower()):
                for suffix in ("", "7"):
                    progs.append((num + suffix, d, suffix == "7", 0))
            for acc in (-3, -2, -1, 1, 2, 3):
                pre = "#" * acc if acc > 0 else "b" * -acc
                progs.append((pre + n, d, False, acc))
        calls = [(p[0], fi, [p[0], key]) for p in progs]
        calls.append(("<list>", fi, [["I", "V7", "bVI"], key]))
        try:
            out = eval_calls(ctx, calls, model)
        except CannotDecide as e:
            raise AnalysisError("to_chords in key %r: %s" % (key, e))
        bad = []
        for text, d, sev, acc in progs:
            base = expected_stack(key, d, sev)
            want = [(b[0], (nd.pitch_of_concrete(b) + acc) % 12) for b in base]
            kind, v = out[text]
            got = [_note_lp(x) for x in v[0]] if kind == "return" and isinstance(v, list) and len(v) == 1 and isinstance(v[0], list) else None
            if got != want:
                bad.append((text, short(repr(v), 80), base, acc))
        ctx.check(not bad, R, "to_chords[%s]" % key, fi.where(), "to_chords(<numeral>, %r)" % key,
                  "%d of %d numerals denote the wrong chord, e.g. %s" % (len(bad), len(progs), bad[:2]))
        kind, v = out["<list>"]
        ok = kind == "return" and isinstance(v, list) and len(v) == 3 and v[0] == expected_stack(key, 0, False) \
            and v[1] == expected_stack(key, 4, True)
        ctx.check(ok, R, "to_chords.list[%s]" % key, fi.where(), "to_chords([..], %r)" % key,
                  "a list of numerals must map element-wise: %s" % short(repr(v), 160))
    # chord suffixes rebuild the chord type on the degree's root
    mod, sh, mean = tables(ctx)
    for key in ("C", "Eb", "f#"):
        for d, n in enumerate(NUMERALS[:7:3]):
            dn = NUMERALS.index(n)
            calls = [(s, fi, [n + s, key]) for s in sorted(sh) if s not in ("", "7") and mean.get(s) in ORACLE]
            out = eval_calls(ctx, calls, model)
            root = nd.oracle_key_notes(key)[0][dn]
            bad = []

            def mk(ch):
                return Interp(ctx.repo, ch, summaries=model)
            it = mk(None)
            for s, _, _ in calls:
                kind, v = out[s]
                want = formula(ORACLE[mean[s]])
                if kind != "return" or not isinstance(v, list) or len(v) != 1:
                    bad.append((s, kind, short(repr(v), 60)))
                    continue
                got = [nd.rel(it, x, root[0], Lin.of(nd.pitch_of_concrete(root))) for x in v[0]]
                if got != want:
                    bad.append((s, got, want))
            ctx.check(not bad, R, "to_chords.suffix[%s,%s]" % (key, n), fi.where(), "to_chords(%s<suffix>, %r)" % (n, key),
                      "suffixes do not rebuild their chord type on %s: %s" % (root, bad[:2]))
    # unrecognised numerals
    for text in ("X", "", "IIII", "VIIII", "x7", "8"):
        paths = paths_of(ctx.repo, fi, [text, "C"], summaries=model)
        ok = len(paths) == 1 and paths[0].kind == "return" and paths[0].value == []
        ctx.check(ok, R, "to_chords.unknown[%r]" % text, fi.where(), "to_chords(%r)" % text,
                  "an unrecognised numeral must give the documented empty answer, got %s" % [(p.kind, p.value) for p in paths])


def rule_determine(ctx, cmod, pmod, model, table):
    R = "R-C08-4"
    fi = pmod.func("determine")
    ctx.touch(fi)
    majors = [ma for ma, mi in table]
    keys = majors if ctx.tier == "thorough" else ["C", "F#", "Db", "Cb", "A"]
    names = ["tonic", "supertonic", "mediant", "subdominant", "dominant", "submediant", "subtonic"]
    nums = ["I", "ii", "iii", "IV", "V", "vi", "vii"]
    for key in keys:
        calls = []
        for d in range(7):
            for sev in (False, True):
                ch = expected_stack(key, d, sev)
                calls.append(((d, sev, True), fi, [list(ch), key, True]))
                calls.append(((d, sev, False), fi, [list(ch), key, False]))
        try:
            out = eval_calls(ctx, calls, model)
        except CannotDecide as e:
            raise AnalysisError("progressions.determine in key %r: %s" % (key, e))
        bad = []
        for (d, sev, shorthand), _, args in calls:
            kind, v = out[(d, sev, shorthand)]
            want = (nums[d] + ("7" if sev else "")) if shorthand else (names[d] + (" seventh" if sev else ""))
            if kind != "return" or not isinstance(v, list) or want not in v[:1]:
                bad.append((args[0], shorthand, short(repr(v), 80), want))
        ctx.check(not bad, R, "determine[%s]" % key, fi.where(), "progressions.determine(<diatonic chord>, %r)" % key,
                  "%d of %d diatonic chords do not get their function first, e.g. %s" % (len(bad), len(calls), bad[:2]))
    # the function table and numerals agree (exhaustiveness of the interval-name chain)
    consts = {n.value for n in ast.walk(fi.node) if isinstance(n, ast.Constant) and isinstance(n.value, str)}
    for nm in ["unison", "second", "third", "fourth", "fifth", "sixth", "seventh"] + names + nums:
        ctx.check(nm in consts, R, "determine.table[%s]" % nm, fi.where(), "progressions.determine tables",
                  "the table entry %r vanished from progressions.determine" % nm)


# ------------------------------------------------------------------------------ substitutions
_NUM_RE = re.compile(r"^([#b]*)(VII|VI|V|IV|III|II|I)(.*)$")


def _parse_numeral(s):
    m = _NUM_RE.match(s) if isinstance(s, str) else None
    if not m:
        return None
    acc = m.group(1).count("#") - m.group(1).count("b")
    return m.group(2), acc, m.group(3)


def _canonical(s):
    """The spelling parse followed by format leaves alone: the prefix is all sharps or all flats."""
    m = _NUM_RE.match(s)
    return bool(m) and len(set(m.group(1))) <= 1


def _num_pitch(num, acc):
    return (nd.MAJOR_SIZES[NUMERALS.index(num)] + acc) % 12


def rule_substitutions(ctx, pmod, model):
    R = "R-C08-5"
    mod, sh, mean = tables(ctx)
    accs = (-3, -1, 0, 2, 3) if ctx.tier != "thorough" else range(-3, 4)

    def text(num, acc, suff):
        return ("#" * acc if acc > 0 else "b" * -acc) + num + suff
    # helpers
    fs, fd = pmod.func("skip"), pmod.func("interval_diff")
    ctx.touch(fs, fd)
    calls = [((n, k), fs, [n, k]) for n in NUMERALS for k in range(0, 8)]
    out = eval_calls(ctx, calls, model)
    bad = [(n, k, out[(n, k)]) for n in NUMERALS for k in range(0, 8) if out[(n, k)] != ("return", NUMERALS[(NUMERALS.index(n) + k) % 7])]
    ctx.check(not bad, R, "skip", fs.where(), "skip(numeral, n)", "skip is not (index + n) mod 7: %s" % bad[:3])
    # (only ever called with two different numerals: skip by 1, 2 or 5)
    calls = [((a, b, t), fd, [a, b, t]) for a in NUMERALS for b in NUMERALS for t in (1, 3, 8, 9) if a != b]
    out = eval_calls(ctx, calls, model)
    bad = []
    for a in NUMERALS:
        for b in NUMERALS:
            for t in ((1, 3, 8, 9) if a != b else ()):
                up = (nd.MAJOR_SIZES[NUMERALS.index(b)] - nd.MAJOR_SIZES[NUMERALS.index(a)]) % 12
                kind, v = out[(a, b, t)]
                if kind != "return" or v != t - up:
                    bad.append((a, b, t, v, t - up))
    ctx.check(not bad, R, "interval_diff", fd.where(), "interval_diff(a, b, target)",
              "interval_diff does not return target - ascending distance: %s" % bad[:3])

    rules = {
        "substitute_harmonic": ([""], "shared"),
        "substitute_minor_for_major": (["m", "m7"], 3),
        "substitute_major_for_minor": (["M", "M7"], 9),
        "substitute_diminished_for_diminished": (["dim", "dim7"], "dimcycle"),
    }
    for fname, (suffixes, promise) in rules.items():
        fi = pmod.func(fname)
        ctx.touch(fi)
        for num in NUMERALS:
            calls = [((acc, sf), fi, [[text(num, acc, sf)], 0]) for acc in accs for sf in suffixes]
            try:
                out = eval_calls(ctx, calls, model)
            except CannotDecide as e:
                raise AnalysisError("%s(%s..): %s" % (fname, num, e))
            bad = []
            for acc in accs:
                for sf in suffixes:
                    kind, v = out[(acc, sf)]
                    if kind != "return" or not isinstance(v, list):
                        bad.append((text(num, acc, sf), kind, v))
                        continue
                    for i, ans in enumerate(v):
                        pn = _parse_numeral(ans)
                        if pn is None or (pn[2] not in sh) or not _canonical(ans):
                            bad.append((text(num, acc, sf), "ill-formed numeral", ans))
                            continue
                        n2, a2, s2 = pn
                        if promise == "shared":
                            d1, d2 = NUMERALS.index(num), NUMERALS.index(n2)
                            t1 = {(d1 + i_) % 7 for i_ in (0, 2, 4)}
                            t2 = {(d2 + i_) % 7 for i_ in (0, 2, 4)}
                            if len(t1 & t2) != 2 or a2 != acc:
                                bad.append((text(num, acc, sf), "shares %d notes" % len(t1 & t2), ans))
                        elif promise == "dimcycle":
                            if _num_pitch(n2, a2) != (_num_pitch(num, acc) + 3 * (i + 1)) % 12:
                                bad.append((text(num, acc, sf), "not %d minor thirds up" % (i + 1), ans))
                        else:
                            if _num_pitch(n2, a2) != (_num_pitch(num, acc) + promise) % 12:
                                bad.append((text(num, acc, sf), "root not %d semitones up" % promise, ans))
                    if promise not in ("shared",) and not v:
                        bad.append((text(num, acc, sf), "no substitute", v))
            ctx.check(not bad, R, "%s[%s]" % (fname, num), fi.where(), "%s([<prefix>%s<suffix>], 0)" % (fname, num),
                      "%d answers break the rule's promise, e.g. %s" % (len(bad), bad[:3]))
    # ignore_suffix=True: the rule is applied whatever the chord's suffix is, and still answers what it promises --
    # roots at the promised distance AND chords of the promised kind
    kinds = {"substitute_minor_for_major": (3, ("M", "M7")), "substitute_major_for_minor": (9, ("m", "m7")),
             "substitute_diminished_for_diminished": ("dimcycle", ("dim", "dim7"))}
    for fname, (promise, quality) in kinds.items():
        fi = pmod.func(fname)
        foreign = ["", "7", "M", "m", "dim", "m7", "M7", "dim7", "sus4"]
        for num in (("I", "V") if ctx.tier != "thorough" else NUMERALS):
            calls = [((acc, sf), fi, [[text(num, acc, sf)], 0, True]) for acc in (0, -1, 2) for sf in foreign]
            try:
                out = eval_calls(ctx, calls, model)
            except CannotDecide as e:
                raise AnalysisError("%s(%s.., ignore_suffix=True): %s" % (fname, num, e))
            bad = []
            for (acc, sf), _, _a in calls:
                kind, v = out[(acc, sf)]
                if kind != "return" or not isinstance(v, list) or not v:
                    bad.append((text(num, acc, sf), kind, v))
                    continue
                for i, ans in enumerate(v):
                    pn = _parse_numeral(ans)
                    if pn is None or not _canonical(ans):
                        bad.append((text(num, acc, sf), "ill-formed numeral", ans))
                    elif pn[2] not in quality:
                        bad.append((text(num, acc, sf), "answers a %r chord, the rule substitutes %s chords" % (pn[2], "/".join(quality)), ans))
                    elif _num_pitch(pn[0], pn[1]) != (_num_pitch(num, acc) + (3 * (i + 1) if promise == "dimcycle" else promise)) % 12:
                        bad.append((text(num, acc, sf), "root at the wrong distance", ans))
            ctx.check(not bad, R, "%s.ignore_suffix[%s]" % (fname, num), fi.where(), "%s([<prefix>%s<any suffix>], 0, ignore_suffix=True)" % (fname, num),
                      "%d answers break the rule's promise, e.g. %s" % (len(bad), bad[:3]))
    # the general substitute(): every answer is a well-formed numeral with a constructible suffix
    fi = pmod.func("substitute")
    ctx.touch(fi)
    for num in NUMERALS:
        sfs = ["", "7", "m", "M", "m7", "M7", "dim", "dim7"]
        calls = [((acc, sf), fi, [[text(num, acc, sf)], 0]) for acc in (-1, 0, 2) for sf in sfs]
        out = eval_calls(ctx, calls, model)
        deep_accs = (-1, 0, 1) if ctx.tier != "thorough" else tuple(range(-3, 4))
        deep = [((acc, sf, d), fi, [[text(num, acc, sf)], 0, d]) for acc in deep_accs for sf in sfs for d in (1, 2)]
        out_deep = eval_calls(ctx, deep, model)
        bad = []
        for (k, _, a_) in [((acc, sf, 0), None, None) for (acc, sf), _, _a in calls] + deep:
            acc, sf, d = k
            kind, v = out[(acc, sf)] if d == 0 else out_deep[k]
            if kind != "return" or not isinstance(v, list):
                bad.append((text(num, acc, sf), "depth %d" % d, kind, v))
                continue
            for ans in v:
                pn = _parse_numeral(ans)
                if pn is None or pn[2] not in sh:
                    bad.append((text(num, acc, sf), "depth %d" % d, "ill-formed numeral", ans))
                elif not _canonical(ans):
                    bad.append((text(num, acc, sf), "depth %d" % d, "sharps and flats mixed in the prefix (parse then format rewrites it)", ans))
        ctx.check(not bad, R, "substitute.wellformed[%s]" % num, fi.where(), "substitute([<prefix>%s<suffix>], 0, depth 0..2)" % num,
                  "%d answers that are not <sharps or flats><numeral><constructible suffix>: %s" % (len(bad), bad[:3]))
        # the diminished sevenths offered for a chord form one family: their roots cycle by minor thirds
        cyc = []
        for (acc, sf), _, _a in calls:
            kind, v = out[(acc, sf)]
            if kind != "return" or not isinstance(v, list):
                continue
            roots = [(_num_pitch(pn[0], pn[1]), ans) for ans in v for pn in [_parse_numeral(ans)] if pn is not None and pn[2] in ("dim7", "dim")]
            off = [(a, b) for (pa, a) in roots for (pb, b) in roots if (pa - pb) % 3 != 0]
            if off:
                cyc.append((text(num, acc, sf), sorted({x for pair in off for x in pair})))
        ctx.check(not cyc, R, "substitute.dim7-family[%s]" % num, fi.where(), "substitute([<prefix>%s<suffix>], 0): diminished triads and sevenths" % num,
                  "the diminished substitutes do not cycle by minor thirds: %s" % cyc[:2])


def rule_argument_untouched(ctx, pmod, model):
    R = "R-C08-6"
    for fname, extra in (("substitute", [1]), ("substitute", [2]), ("substitute_harmonic", []),
                         ("substitute_minor_for_major", []), ("substitute_major_for_minor", []),
                         ("substitute_diminished_for_diminished", []), ("substitute_diminished_for_dominant", [])):
        fi = pmod.func(fname)
        orig = ["I", "IVm", "V7", "VIIdim"]
        for idx in range(len(orig)):
            arg = list(orig)
            paths = paths_of(ctx.repo, fi, lambda: [arg, idx] + extra, summaries=model)
            ok = len(paths) == 1 and paths[0].kind == "return" and arg == orig
            ctx.check(ok, R, "%s%s[index %d]" % (fname, extra or "", idx), fi.where(), "%s(progression, %d%s)" % (fname, idx, "".join(", %d" % e for e in extra)),
                      "the caller's progression is %s after the call (was %s); outcome %s" % (
                          arg, orig, [(p.kind, short(repr(p.value), 60)) for p in paths][:2]))
            if not ok:
                break


# the bare diminished triads among the substitutes of the dominant share one note with it (set aside as outside the
# property: DESIGN 8.3); every other substitute of a plain or seventh numeral shares two
SUBSTITUTE_EXCEPTIONS = {("V", "IIdim"), ("V", "IVdim"), ("V7", "IIdim"), ("V7", "IVdim")}


def rule_substitute_shares(ctx, pmod, cmod):
    """substitute(): whatever it offers for a plain numeral or its seventh shares two notes with the numeral's triad (the
    harmonic, relative and diminished substitutions all do), in key C, with the real to_chords."""
    R = "R-C08-5"
    fsub, ftc = pmod.func("substitute"), pmod.func("to_chords")
    ctx.touch(fsub)
    for acc in ("", "b", "#"):
        for n in NUMERALS:
            for suf in ("", "7"):
                text = acc + n + suf

                def go(it, text=text, n=n, acc=acc):
                    tri = it.call_function(ftc, [[acc + n], "C"], {})
                    res = it.call_function(fsub, [[text], 0], {})
                    return tri, res, [it.call_function(ftc, [[r], "C"], {}) for r in res]
                try:
                    ps = explore(lambda ch: Interp(ctx.repo, ch, max_depth=60), go)
                except CannotDecide as e:
                    raise AnalysisError("substitute([%r], 0): %s" % (text, e))
                ok, why = len(ps) == 1 and ps[0].kind == "return", "outcome %s" % [(p.kind, short(repr(p.value), 80)) for p in ps]
                if ok:
                    tri, res, chords_ = ps[0].value
                    base = {nd.pitch_of_concrete(x) % 12 for x in tri[0]} if tri and tri[0] else set()
                    bad = []
                    for r, ch in zip(res, chords_):
                        if not ch or not ch[0]:
                            bad.append((r, "builds no chord"))
                            continue
                        shared = len(base & {nd.pitch_of_concrete(x) % 12 for x in ch[0]})
                        if shared < 2 and (n + suf, r) not in SUBSTITUTE_EXCEPTIONS and acc == "":
                            bad.append((r, "shares %d notes with %s %s" % (shared, acc + n, tri[0])))
                        elif shared < 2 and acc != "" and (n + suf, r[len(acc):] if r.startswith(acc) else r) not in SUBSTITUTE_EXCEPTIONS:
                            bad.append((r, "shares %d notes with %s %s" % (shared, acc + n, tri[0])))
                    if bad:
                        ok, why = False, "substitute([%r], 0) offers %s" % (text, bad[:3])
                ctx.check(ok, R, "substitute.shares[%s]" % text, fsub.where(), "substitute([%r], 0) in C" % text, why)
