"""C17 -- MIDI round trip: writer / reader agreement (midi_file_in.py vs midi_track.py / midi_file_out.py)."""
from __future__ import annotations

import ast

from ..engine.absval import Lin, Sym, AbsStr, Token, Opaque, AObj, AClass, INF
from ..engine.absint import CannotDecide, Interp, explore, RaiseEx
from ..engine.loader import AnalysisError, short
from ..engine import notesdom as nd
from ..engine import mididom as md
from ..engine.stubs import log_of, recorder, stub, record_class, run_method

PROP = "C17"
EXPLANATION = (
    "Static writer/reader agreement rules: for every event kind the bytes the writer's encoder produces (obtained by "
    "abstract evaluation of the encoder on representative parameters: boundary channels, pitches, velocities, all 30 "
    "keys, meters, every integer bpm 4..1000) are handed to the reader's decoder (parse_midi_event, the variable-length "
    "reader, the header / chunk parsers, and the per-event arms of MIDI_to_Composition with the file parser "
    "summarised) and the decoded fields must equal what the writer was given; framing tags, format number and "
    "division agree; files with a bad header tag, a bad track tag or an impossible format number are rejected with an "
    "error; the tempo variable is checked for definite assignment (NOTE). The reader's event loop (delta times -> "
    "entries, rests, bars) is specialised to ten rhythm shapes (leading / inner / bar-crossing rests, chords, two "
    "meters, dotted and triplet lengths): the event stream the writer emits for the shape (C16's model, R-C17-W) is "
    "fed to MIDI_to_Composition and the flattened result must be the shape.")
TRUSTED = ["CPython ast module", "mingus_static abstract evaluator + MIDI byte-stream domain", "C16 (the writer's encoders are themselves checked against the SMF model)"]
NOT_DECIDED = ("the bar-rebuilding loop of MIDI_to_Composition beyond the ten rhythm shapes it is specialised to (tick lengths are concrete "
               "there, so this part is a finite case analysis, not an argument for every rhythm); several tracks with different meters")

MI, MT, MF = "mingus.midi.midi_file_in", "mingus.midi.midi_track", "mingus.midi.midi_file_out"
KEYS = "mingus.core.keys"


def interp_factory(repo, summaries=None):
    def mk(ch):
        it = Interp(repo, ch, summaries=summaries, max_depth=30)
        md.install(it)
        return it
    return mk


def writer_bytes(repo, method, args):
    """Evaluate MidiTrack.<method>(*args) with a zero pending delta -> concrete bytes of the event incl. delta."""
    mtci = repo.mod(MT).cls("MidiTrack")

    def go(it):
        mt = AObj(mtci, {"delta_time": md.Delta(b"\x00"), "track_data": b""}, name="mt")
        return it.call_function(repo.find_method(mtci, method), [mt] + list(args), {})
    p = explore(interp_factory(repo), go)
    if len(p) != 1 or p[0].kind != "return":
        raise AnalysisError("writer %s%r: %s" % (method, tuple(args), [(x.kind, x.value) for x in p]))
    v = p[0].value
    if isinstance(v, md.Emitted):
        items = v.payload.items()
        if not all(isinstance(x, int) for x in items) or not isinstance(v.delta.value, bytes):
            raise AnalysisError("writer %s%r produced symbolic bytes" % (method, tuple(args)))
        return bytes(v.delta.value) + bytes(items)
    if isinstance(v, bytes):
        return v
    raise AnalysisError("writer %s%r returned %r" % (method, tuple(args), v))


def run(ctx):
    repo = ctx.repo
    ctx.touch(repo.mod(MI), repo.mod(MT), repo.mod(MF))
    rci = repo.mod(MI).cls("MidiFile")
    for m in rci.methods.values():
        ctx.touch(m)
    rule_framing(ctx, rci)
    rule_events(ctx, rci)
    rule_meta(ctx, rci)
    rule_rebuild(ctx, rci)
    rule_vlq(ctx, rci)
    rule_bpm_assignment(ctx, rci)
    rule_track_count(ctx, rci)
    rule_key_every_bar(ctx, rci)
    # the round trip is reader o writer: the reader rules above decode exactly what the writer's primitives emit;
    # that the writer emits the music's event stream (delays included) is C16's stream rule, discharged here as well
    from . import c16
    c16.rule_stream(ctx, R="R-C17-W")
    c16.rule_writers(ctx, R="R-C17-W")  # the same number of tracks, each with its own content: one MidiTrack per track
    ctx.floor("R-C17-W", 40)
    ctx.floor("R-C17-1", 12)
    ctx.floor("R-C17-2", 20)
    ctx.floor("R-C17-3", 30 + 5 + 1)
    ctx.floor("R-C17-4", 1)
    ctx.floor("R-C17-5", 1)
    ctx.floor("R-C17-6", 10)


def reader_obj(rci):
    return AObj(rci, {"bytes_read": 0}, name="reader")


def rule_framing(ctx, rci):
    R = "R-C17-1"
    repo = ctx.repo
    fh = repo.find_method(rci, "parse_midi_file_header")
    wmf = repo.mod(MF).cls("MidiFile")
    mtci = repo.mod(MT).cls("MidiTrack")
    for n in (1, 2, 16):
        def whead(it, n=n):
            ts = [AObj(mtci, {"track_data": b"\x01"}, name="t") for _ in range(n)]
            return it.call_function(repo.find_method(wmf, "header"), [AObj(wmf, {"tracks": ts}, name="w")], {})
        p = explore(interp_factory(repo), whead)
        hdr = p[0].value if len(p) == 1 and isinstance(p[0].value, bytes) else None
        if hdr is None:
            raise AnalysisError("writer header: %s" % [(x.kind, x.value) for x in p])
        p = explore(interp_factory(repo), lambda it: it.call_function(fh, [reader_obj(rci), md.AFile(hdr)], {}))
        ok = len(p) == 1 and p[0].kind == "return" and isinstance(p[0].value, tuple) and p[0].value[0] == 1 and p[0].value[1] == n \
            and isinstance(p[0].value[2], dict) and p[0].value[2].get("fps") is False and p[0].value[2].get("ticks_per_beat") == 72
        ctx.check(ok, R, "header[%d tracks]" % n, fh.where(), "parse_midi_file_header(<writer's header, %d tracks>)" % n,
                  "the reader decodes the writer's header %r as %s, expected (1, %d, 72 ticks per beat)" % (hdr, [(x.kind, x.value) for x in p], n))
    good = b"MThd\x00\x00\x00\x06\x00\x01\x00\x01\x00\x48"
    for label, data in (("bad tag", b"MThX" + good[4:]), ("not midi", b"RIFF" + good[4:]), ("format 3", good[:8] + b"\x00\x03" + good[10:]),
                        ("format 65535", good[:8] + b"\xff\xff" + good[10:])):
        p = explore(interp_factory(repo), lambda it: it.call_function(fh, [reader_obj(rci), md.AFile(data)], {}))
        ok = bool(p) and all(x.kind == "raise" for x in p)
        ctx.check(ok, R, "header.rejects[%s]" % label, fh.where(), "parse_midi_file_header(<%s>)" % label,
                  "a file with %s is not rejected with an error: %s" % (label, [(x.kind, short(repr(x.value), 60)) for x in p]))
    ft = repo.find_method(rci, "parse_track_header")
    for n in (0, 7, 70000):
        def wchunk(it, n=n):
            return it.call_function(repo.find_method(mtci, "header"), [AObj(mtci, {"track_data": b"\x01" * n}, name="t")], {})
        p = explore(interp_factory(repo), wchunk)
        ch = p[0].value if len(p) == 1 and isinstance(p[0].value, bytes) else None
        p = explore(interp_factory(repo), lambda it: it.call_function(ft, [reader_obj(rci), md.AFile(ch or b"")], {}))
        ok = ch is not None and len(p) == 1 and p[0].kind == "return" and p[0].value == n + 4
        ctx.check(ok, R, "chunk-header[%d]" % n, ft.where(), "parse_track_header(<writer's chunk header>)",
                  "the reader reads the chunk length of %r as %s, the writer wrote %d" % (ch, [(x.kind, x.value) for x in p], n + 4))
    p = explore(interp_factory(repo), lambda it: it.call_function(ft, [reader_obj(rci), md.AFile(b"MTrX\x00\x00\x00\x04")], {}))
    ok = bool(p) and all(x.kind == "raise" for x in p)
    ctx.check(ok, R, "chunk.rejects[bad tag]", ft.where(), "parse_track_header(<bad tag>)", "a bad track tag gives %s" % [(x.kind, x.value) for x in p])

    # the same through the entry point: a file whose n-th track chunk does not start with the track tag is not music
    fpf = repo.find_method(rci, "parse_midi_file")
    ctx.touch(fpf, repo.find_method(rci, "parse_track"))
    note = b"\x00\x90\x3c\x40\x48\x80\x3c\x40\x00\xff\x2f\x00"
    chunk = b"MTrk" + len(note).to_bytes(4, "big") + note
    head2 = b"MThd\x00\x00\x00\x06\x00\x01\x00\x02\x00\x48"

    def with_file(data):
        def mk(ch):
            it = interp_factory(repo)(ch)
            inner = it.call_builtin

            def cb(name, args, kwargs, node=None):
                if name == "open" and args and args[0] == "file.mid":
                    return md.AFile(data)
                return inner(name, args, kwargs, node)
            it.call_builtin = cb
            return it
        return mk
    try:
        p = explore(with_file(head2 + chunk + chunk), lambda it: it.call_function(fpf, [reader_obj(rci), "file.mid"], {}))
        ok = len(p) == 1 and p[0].kind == "return" and isinstance(p[0].value, tuple) and isinstance(p[0].value[1], list) and len(p[0].value[1]) == 2 \
            and all(isinstance(t, list) and len(t) == 3 for t in p[0].value[1])
        ctx.check(ok, R, "file[2 tracks]", fpf.where(), "parse_midi_file(<header for 2 tracks, two chunks of a note on, a note off and the end of track>)",
                  "a well-formed file gives %s, expected the header and two tracks of three events" % [(x.kind, short(repr(x.value), 200)) for x in p])
        for label, data in (("second track tag", head2 + chunk + b"MTrX" + chunk[4:]), ("first track tag", head2 + b"RIFF" + chunk[4:] + chunk),
                            ("second chunk is a header", head2 + chunk + head2)):
            p = explore(with_file(data), lambda it: it.call_function(fpf, [reader_obj(rci), "file.mid"], {}))
            ok = bool(p) and all(x.kind == "raise" for x in p)
            ctx.check(ok, R, "file.rejects[%s]" % label, fpf.where(), "parse_midi_file(<2 tracks announced, bad %s>)" % label,
                      "a file with a bad track tag is returned as music instead of being rejected: %s" % [(x.kind, short(repr(x.value), 120)) for x in p])
    except CannotDecide as e:
        raise AnalysisError("parse_midi_file over known bytes: %s" % e)


def rule_events(ctx, rci):
    R = "R-C17-2"
    repo = ctx.repo
    fe = repo.find_method(rci, "parse_midi_event")
    cases = []
    for ch in (0, 5, 15):
        for pitch in (12, 60, 127):
            for vel in (1, 64, 127):
                cases.append(("note_on", [ch, pitch, vel], {"event": 9, "channel": ch, "param1": pitch, "param2": vel}))
        cases.append(("note_off", [ch, 61, 64], {"event": 8, "channel": ch, "param1": 61, "param2": 64}))
        cases.append(("note_on", [ch, 61, 0], {"event": 8, "channel": ch, "param1": 61, "param2": 0}))
        cases.append(("program_change_event", [ch, 13], {"event": 12, "channel": ch, "param1": 13}))
        cases.append(("controller_event", [ch, 7, 100], {"event": 11, "channel": ch, "param1": 7, "param2": 100}))
    bad = []
    for method, args, want in cases:
        data = writer_bytes(repo, method, args)
        p = explore(interp_factory(repo), lambda it: it.call_function(fe, [reader_obj(rci), md.AFile(data[1:])], {}))
        ok = len(p) == 1 and p[0].kind == "return" and isinstance(p[0].value, tuple) and p[0].value[0] == want and p[0].value[1] == len(data) - 1
        ctx.check(ok, R, "%s%s" % (method, tuple(args)), fe.where(), "parse_midi_event(<%s%s>)" % (method, tuple(args)),
                  "the writer's bytes %r are read as %s, expected %s and %d bytes consumed" % (data[1:], [(x.kind, x.value) for x in p], want, len(data) - 1))
    # note decoding in MIDI_to_Composition: pitch = writer's +12 undone
    fm = repo.find_method(rci, "MIDI_to_Composition")
    consts = [n for n in ast.walk(fm.node) if isinstance(n, ast.BinOp)]
    _ = consts


def fake_file(track_events, tracks=1, tpb=72):
    header = (1, tracks, {"fps": False, "ticks_per_beat": tpb})
    return (header, [track_events for _ in range(tracks)])


def rule_meta(ctx, rci):
    R = "R-C17-3"
    repo = ctx.repo
    fm = repo.find_method(rci, "MIDI_to_Composition")
    fe = repo.find_method(rci, "parse_midi_event")

    def decode_event(data):
        p = explore(interp_factory(repo), lambda it: it.call_function(fe, [reader_obj(rci), md.AFile(data[1:])], {}))
        if len(p) != 1 or p[0].kind != "return":
            raise AnalysisError("reader cannot parse the writer's event %r: %s" % (data, [(x.kind, x.value) for x in p]))
        return p[0].value[0]

    def compose(events):
        key = "%s.MidiFile.parse_midi_file" % MI
        summ = {key: lambda it, a, k, n: fake_file(events)}
        return explore(interp_factory(repo, summ), lambda it: it.call_function(fm, [reader_obj(rci), "file.mid"], {}))
    tempo_ev = decode_event(writer_bytes(repo, "set_tempo_event", [120]))
    # key signatures
    for ma, mi in nd.oracle_key_table():
        for key in (ma, mi):
            ev = decode_event(writer_bytes(repo, "key_signature_event", [key]))
            try:
                p = compose([[0, tempo_ev], [0, ev]])
            except CannotDecide as e:
                raise AnalysisError("MIDI_to_Composition on a key signature for %r: %s" % (key, e))
            ok, why = len(p) == 1 and p[0].kind == "return", "outcome %s" % [(x.kind, short(repr(x.value), 80)) for x in p]
            if ok:
                comp = p[0].value[0] if isinstance(p[0].value, tuple) else None
                got = None
                try:
                    bar = comp.attrs["tracks"][0].attrs["bars"][0]
                    k = bar.attrs["key"]
                    got = k.attrs.get("key") if isinstance(k, AObj) else k
                except (AttributeError, KeyError, IndexError, TypeError):
                    pass
                if got != key:
                    ok, why = False, "the key %r written as %r comes back as %r" % (key, ev.get("data"), got)
            ctx.check(ok, R, "key[%s]" % key, fm.where(), "MIDI_to_Composition: key signature of %r" % key, why)
    # time signatures
    for meter in ((4, 4), (3, 4), (6, 8), (7, 16), (2, 2)):
        ev = decode_event(writer_bytes(repo, "time_signature_event", [meter]))
        p = compose([[0, tempo_ev], [0, ev]])
        got = None
        if len(p) == 1 and p[0].kind == "return":
            try:
                got = p[0].value[0].attrs["tracks"][0].attrs["bars"][0].attrs["meter"]
            except (AttributeError, KeyError, IndexError, TypeError):
                pass
        ctx.check(got == meter, R, "meter%s" % (meter,), fm.where(), "MIDI_to_Composition: time signature %s/%s" % meter,
                  "the meter %s written as %r comes back as %r (%s)" % (meter, ev.get("data"), got, [(x.kind, short(repr(x.value), 60)) for x in p]))
    # tempo: every integer bpm
    bad = []
    bpms = range(4, 1001) if ctx.tier == "thorough" else sorted(set(range(4, 41)) | set(range(41, 1001, 11)) | {999, 1000})
    for bpm in bpms:
        ev = decode_event(writer_bytes(repo, "set_tempo_event", [bpm]))
        p = compose([[0, ev]])
        got = p[0].value[1] if len(p) == 1 and p[0].kind == "return" and isinstance(p[0].value, tuple) else None
        if got != bpm:
            bad.append((bpm, got))
    ctx.check(not bad, R, "tempo[4..1000]", fm.where(), "MIDI_to_Composition: tempo for bpm 4..1000 (%d values)" % len(bpms),
              "%d tempi do not come back as written (integer division on both sides), e.g. %s" % (len(bad), bad[:5]))
    # track name, instrument, note fields
    name_ev = decode_event(writer_bytes(repo, "track_name_event", ["Lead Guitar"]))
    prog_ev = decode_event(writer_bytes(repo, "program_change_event", [3, 29]))
    on_ev = decode_event(writer_bytes(repo, "note_on", [3, 61 + 12, 99]))
    p = compose([[0, tempo_ev], [0, name_ev], [0, prog_ev], [0, on_ev]])
    ok, why = len(p) == 1 and p[0].kind == "return", "outcome %s" % [(x.kind, short(repr(x.value), 80)) for x in p]
    if ok:
        try:
            tr = p[0].value[0].attrs["tracks"][0]
            ins = tr.attrs.get("instrument")
            nr = ins.attrs.get("instrument_nr") if isinstance(ins, AObj) else None
            bar = tr.attrs["bars"][0]
            entry = bar.attrs["bar"][0]
            note = entry[2].attrs["notes"][0]
            pitch = nd.pitch_number(note.attrs["name"], note.attrs["octave"])
            facts = (tr.attrs.get("name"), nr, pitch, note.attrs.get("channel"), note.attrs.get("velocity"))
            if facts != ("Lead Guitar", 29, 61, 3, 99):
                ok, why = False, "(track name, program, pitch number, channel, velocity) come back as %r, written ('Lead Guitar', 29, 61, 3, 99)" % (facts,)
        except (AttributeError, KeyError, IndexError, TypeError) as e:
            ok, why = False, "cannot find the note in the rebuilt composition (%s)" % e
    ctx.check(ok, R, "name/program/note", fm.where(), "MIDI_to_Composition: track name, program change, note-on", why)


REBUILD_SHAPES = [
    # (label, meter, entries as (ticks, pitch numbers)), a rest is (); 72 ticks = a quarter note
    ("three notes", (4, 4), [(72, (60,)), (72, (62,)), (144, (64,))]),
    ("inner rest and chord", (4, 4), [(72, (60,)), (72, ()), (72, (64, 67)), (72, (60,))]),
    ("leading rest", (4, 4), [(72, ()), (72, (60,)), (144, (64,))]),
    ("two bars", (4, 4), [(144, (60,)), (144, (62,)), (288, (64,))]),
    ("rest across the bar line", (4, 4), [(144, (60,)), (72, (62,)), (72, ()), (72, ()), (216, (64,))]),
    ("first bar is a rest", (4, 4), [(288, ()), (144, (60,)), (144, (62,))]),
    ("chord after a rest", (4, 4), [(144, (60,)), (72, ()), (72, (60, 64, 67))]),
    ("three-four", (3, 4), [(72, (60,)), (72, (62,)), (72, (64,)), (216, (60, 67))]),
    ("dotted and triplets", (4, 4), [(108, (60,)), (36, (62,)), (48, (64,)), (48, (65,)), (48, (67,))]),
    ("eighths", (2, 4), [(36, (70,)), (36, (71,)), (36, ()), (36, (72,)), (144, (40, 47))]),
    # bars given explicitly (a list per bar) that hold more than their meter: what the reader itself returns for a rest
    # longer than a bar, and what Bar.set_meter leaves behind -- the file then has one delta longer than a bar
    ("rest longer than a bar at the start", (4, 4), [[(72, ()), (288, ())], [(72, (60,))]]),
    ("rest longer than a bar in the middle", (1, 4), [[(72, (60,)), (216, ())], [(288, ())], [(72, (64,))]]),
    ("note longer than its bar", (2, 4), [[(288, (60,))], [(72, (62,)), (72, (64,))]]),
    # a track with a MIDI instrument: the writer hangs the rest that is pending before the first note on the bank select
    ("instrument: leading rest", (4, 4), [(72, ()), (72, (60,)), (144, (64,))]),
    ("instrument: first bar is a rest", (4, 4), [(288, ()), (144, (60,)), (144, (62,))]),
    ("instrument: three notes", (4, 4), [(72, (60,)), (72, (62,)), (144, (64,))]),
]


def _normalise(seq):
    out = []
    for t, ps in seq:
        ps = tuple(sorted(ps))
        if not ps and out and not out[-1][1]:
            out[-1] = (out[-1][0] + t, ())
        else:
            out.append((t, ps))
    while out and not out[-1][1]:
        out.pop()
    return out


def rule_rebuild(ctx, rci):
    """The reader's event loop (delta times -> entries, rests, bars), specialised to ten rhythm shapes: the event
    stream the writer produces for the shape (C16's event model; each event decoded from the writer's own bytes) is
    fed to MIDI_to_Composition and the rebuilt track, flattened, must be the shape again."""
    from fractions import Fraction
    R = "R-C17-6"
    repo = ctx.repo
    fm = repo.find_method(rci, "MIDI_to_Composition")
    fe = repo.find_method(rci, "parse_midi_event")
    cache = {}

    def ev(method, args):
        k = (method, tuple(args))
        if k not in cache:
            data = writer_bytes(repo, method, list(args))
            p = explore(interp_factory(repo), lambda it: it.call_function(fe, [reader_obj(rci), md.AFile(data[1:])], {}))
            if len(p) != 1 or p[0].kind != "return":
                raise AnalysisError("reader cannot parse the writer's event %s%r" % (method, tuple(args)))
            cache[k] = p[0].value[0]
        return cache[k]
    for label, meter, entries in REBUILD_SHAPES:
        bar_ticks = 288 * meter[0] // meter[1]
        events = [[0, ev("set_tempo_event", [120])]]
        pending, at = 0, 0
        announced = False
        if entries and isinstance(entries[0], list):
            starts, flat = set(), []
            for bar_entries in entries:
                starts.add(len(flat))
                flat += bar_entries
            entries = flat
        else:
            starts, t_ = set(), 0
            for i, (ticks, ps) in enumerate(entries):
                if t_ % bar_ticks == 0:
                    starts.add(i)
                t_ += ticks
        for i, (ticks, ps) in enumerate(entries):
            if i in starts:
                events.append([pending, ev("time_signature_event", [meter])])
                events.append([0, ev("key_signature_event", ["C"])])
                pending = 0
            if ps:
                if label.startswith("instrument") and not announced:
                    # bank select carries the pending delta, then the program change, then the note
                    events.append([pending, ev("select_bank", [1, 1])])
                    events.append([0, ev("program_change_event", [1, 5])])
                    pending = 0
                    announced = True
                for k, pnum in enumerate(ps):
                    events.append([pending if k == 0 else 0, ev("note_on", [1, pnum + 12, 64])])
                for k, pnum in enumerate(ps):
                    events.append([ticks if k == 0 else 0, ev("note_off", [1, pnum + 12, 64])])
                pending = 0
            else:
                pending += ticks
            at += ticks
        key = "%s.MidiFile.parse_midi_file" % MI
        summ = {key: lambda it, a, k, n, events=events: fake_file([list(e) for e in events])}
        try:
            p = explore(interp_factory(repo, summ), lambda it: it.call_function(fm, [reader_obj(rci), "file.mid"], {}))
        except CannotDecide as e:
            raise AnalysisError("MIDI_to_Composition on the shape %r: %s" % (label, e))
        ok, why = len(p) == 1 and p[0].kind == "return" and isinstance(p[0].value, tuple), "outcome %s" % [(x.kind, short(repr(x.value), 80)) for x in p]
        if ok:
            try:
                tr = p[0].value[0].attrs["tracks"][0]
                got = []
                for bar in tr.attrs["bars"]:
                    for entry in bar.attrs["bar"]:
                        cont = entry[2]
                        ps = () if cont is None else tuple(nd.pitch_number(n.attrs["name"], n.attrs["octave"]) for n in cont.attrs["notes"])
                        got.append((int(round(Fraction(288) / Fraction(entry[1]).limit_denominator(10000))), ps))
                want = _normalise(entries)
                if _normalise(got) != want:
                    ok, why = False, "a track written as (ticks, pitches) %s comes back as %s" % (want, _normalise(got))
            except (AttributeError, KeyError, IndexError, TypeError, ZeroDivisionError) as e:
                ok, why = False, "cannot flatten the rebuilt composition (%s: %s)" % (type(e).__name__, e)
        ctx.check(ok, R, "rebuild[%s]" % label, fm.where(), "MIDI_to_Composition(<%s>)" % label, why)


def rule_vlq(ctx, rci):
    R = "R-C17-4"
    repo = ctx.repo
    fv = repo.find_method(rci, "parse_varbyte_as_int")
    mtci = repo.mod(MT).cls("MidiTrack")
    wv = repo.find_method(mtci, "int_to_varbyte")
    values = list(range(0, 260)) + [v for k in (1, 2, 3, 4) for v in range(128 ** k - 2, 128 ** k + 3) if v < 2 ** 28] + [2 ** 28 - 1, 99999]

    def go(it):
        out = []
        for v in values:
            b = it.call_function(wv, [AObj(mtci, {}, name="mt"), v], {})
            out.append((v, b, it.call_function(fv, [reader_obj(rci), md.AFile(b)], {})))
        return out
    p = explore(interp_factory(repo), go)
    bad = [("outcome", [(x.kind, x.value) for x in p])] if len(p) != 1 or p[0].kind != "return" else \
        [(v, b, r) for v, b, r in p[0].value if r != (v, len(b))]
    ctx.check(not bad, R, "vlq-inverse", fv.where(), "parse_varbyte_as_int(int_to_varbyte(n))",
              "the variable-length reader does not invert the writer: %s" % (bad[:3],))


def rule_bpm_assignment(ctx, rci):
    """A composition without tracks is written as a header that announces zero tracks; reading it back gives a
    composition with no tracks (and some tempo), not an exception."""
    R = "R-C17-5"
    repo = ctx.repo
    fm = repo.find_method(rci, "MIDI_to_Composition")
    key = "%s.MidiFile.parse_midi_file" % MI
    summ = {key: lambda it, a, k, n: ((1, 0, {"fps": False, "ticks_per_beat": 72}), [])}
    try:
        p = explore(interp_factory(repo, summ), lambda it: it.call_function(fm, [reader_obj(rci), "file.mid"], {}))
    except CannotDecide as e:
        raise AnalysisError("MIDI_to_Composition on a file without tracks: %s" % e)
    ok = len(p) == 1 and p[0].kind == "return" and isinstance(p[0].value, tuple) and isinstance(p[0].value[0], AObj) \
        and p[0].value[0].attrs.get("tracks") == []
    ctx.check(ok, R, "no-tracks", fm.where(), "MIDI_to_Composition(<file of an empty composition>)",
              "a file with zero tracks (what write_Composition writes for an empty composition) gives %s instead of a composition with no tracks: "
              "the tempo is only assigned while reading a tempo event" % [(x.kind, short(repr(x.value), 60)) for x in p])


def rule_track_count(ctx, rci):
    """As many tracks come back as chunks were written -- also tracks without a single note (the writer writes a chunk for
    every track of the composition; a track of rests, or an empty one, is a track)."""
    R = "R-C17-5"
    repo = ctx.repo
    fm = repo.find_method(rci, "MIDI_to_Composition")
    fe = repo.find_method(rci, "parse_midi_event")

    def decode_event(data):
        p = explore(interp_factory(repo), lambda it: it.call_function(fe, [reader_obj(rci), md.AFile(data[1:])], {}))
        if len(p) != 1 or p[0].kind != "return":
            raise AnalysisError("reader cannot parse the writer's event %r: %s" % (data, [(x.kind, x.value) for x in p]))
        return p[0].value[0]
    tempo = decode_event(writer_bytes(repo, "set_tempo_event", [120]))
    on = decode_event(writer_bytes(repo, "note_on", [0, 60, 64]))
    off = decode_event(writer_bytes(repo, "note_off", [0, 60, 64]))
    sounding = [[0, tempo], [0, on], [72, off]]
    silent = [[0, tempo]]
    key = "%s.MidiFile.parse_midi_file" % MI
    for label, tracks in (("silent, sounding", [silent, sounding]), ("sounding, silent", [sounding, silent]), ("silent, silent, sounding", [silent, silent, sounding]),
                          ("sounding, sounding", [sounding, sounding]), ("silent", [silent]), ("silent, silent", [silent, silent])):
        summ = {key: lambda it, a, k, n, tracks=tracks: ((1, len(tracks), {"fps": False, "ticks_per_beat": 72}), [[list(e) for e in t] for t in tracks])}
        try:
            p = explore(interp_factory(repo, summ), lambda it: it.call_function(fm, [reader_obj(rci), "file.mid"], {}))
        except CannotDecide as e:
            raise AnalysisError("MIDI_to_Composition on tracks [%s]: %s" % (label, e))
        got = None
        if len(p) == 1 and p[0].kind == "return" and isinstance(p[0].value, tuple) and isinstance(p[0].value[0], AObj):
            ts = p[0].value[0].attrs.get("tracks")
            got = len(ts) if isinstance(ts, list) else None
        ctx.check(got == len(tracks), R, "track-count[%s]" % label, fm.where(), "MIDI_to_Composition(<format 1 file with the tracks: %s>)" % label,
                  "%s tracks come back for %d chunks: %s" % (got, len(tracks), [(x.kind, short(repr(x.value), 60)) for x in p]))


def rule_key_every_bar(ctx, rci):
    """The key (and meter) of a track in one key come back on every bar the reader opens, not only on the first: a key
    signature, then five quarter notes -- two bars."""
    R = "R-C17-3"
    repo = ctx.repo
    fm = repo.find_method(rci, "MIDI_to_Composition")
    fe = repo.find_method(rci, "parse_midi_event")

    def decode_event(data):
        p = explore(interp_factory(repo), lambda it: it.call_function(fe, [reader_obj(rci), md.AFile(data[1:])], {}))
        if len(p) != 1 or p[0].kind != "return":
            raise AnalysisError("reader cannot parse the writer's event %r: %s" % (data, [(x.kind, x.value) for x in p]))
        return p[0].value[0]
    tempo = decode_event(writer_bytes(repo, "set_tempo_event", [120]))
    for key, meter in (("Eb", (4, 4)), ("f#", (3, 4)), ("A", (2, 4)), ("c", (4, 4))):
        events = [[0, tempo], [0, decode_event(writer_bytes(repo, "time_signature_event", [meter]))], [0, decode_event(writer_bytes(repo, "key_signature_event", [key]))]]
        n_notes = meter[0] + 3
        for k in range(n_notes):
            events.append([0, decode_event(writer_bytes(repo, "note_on", [1, 60 + k, 64]))])
            events.append([72, decode_event(writer_bytes(repo, "note_off", [1, 60 + k, 64]))])
        pk = "%s.MidiFile.parse_midi_file" % MI
        summ = {pk: lambda it, a, k, n, events=events: fake_file([list(e) for e in events])}
        try:
            p = explore(interp_factory(repo, summ), lambda it: it.call_function(fm, [reader_obj(rci), "file.mid"], {}))
        except CannotDecide as e:
            raise AnalysisError("MIDI_to_Composition on %d quarter notes in %s: %s" % (n_notes, key, e))
        ok, why = len(p) == 1 and p[0].kind == "return" and isinstance(p[0].value, tuple), "outcome %s" % [(x.kind, short(repr(x.value), 80)) for x in p]
        if ok:
            try:
                bars = p[0].value[0].attrs["tracks"][0].attrs["bars"]
                got = []
                for b in bars:
                    k_ = b.attrs["key"]
                    got.append((k_.attrs.get("key") if isinstance(k_, AObj) else k_, b.attrs["meter"], len(b.attrs["bar"])))
                sounding = [g for g in got if g[2] > 0]
                if len(sounding) < 2:
                    ok, why = False, "%d quarter notes in %s/%s come back in %d bars" % ((n_notes,) + meter + (len(sounding),))
                elif any(g[0] != key or tuple(g[1]) != meter for g in sounding):
                    ok, why = False, "written in %s %s/%s, the bars come back as %s" % ((key,) + meter + (got,))
            except (AttributeError, KeyError, IndexError, TypeError) as e:
                ok, why = False, "cannot read the rebuilt bars (%s: %s)" % (type(e).__name__, e)
        ctx.check(ok, R, "key-every-bar[%s %d/%d]" % ((key,) + meter), fm.where(), "MIDI_to_Composition(<%d quarter notes in %s %d/%d>)" % ((n_notes, key) + meter), why)
